//! Positive controls for expected-zero rules: every forbidden construct appears
//! here exactly once, reachable from `entry`. The rules must find each of them in
//! the canary fact base on every run (otherwise the rule is broken and fails closed).
use std::collections::{BTreeMap, HashMap, HashSet};

pub fn entry(m: &HashMap<String, u32>, s: &HashSet<u32>) -> Vec<String> {
    let mut out = vec![];
    // C10.1 forbidden: order-dependent iteration of RandomState containers
    for (k, _) in m {
        out.push(k.clone());
    }
    for k in m.keys() {
        out.push(k.clone());
    }
    for v in m.values() {
        out.push(v.to_string());
    }
    for v in s.iter() {
        out.push(v.to_string());
    }
    out.push(format!("{:?}", m));
    first_error(m).ok();
    // C10.1 accepted: order-insensitive consumers
    let _sorted: BTreeMap<&String, &u32> = m.iter().collect();
    let _n = m.values().count();
    let _a = m.values().any(|v| *v == 3);
    ambient();
    out
}

fn first_error(m: &HashMap<String, u32>) -> Result<(), String> {
    for (k, v) in m.iter() {
        if *v == 0 {
            return Err(k.clone());
        }
    }
    Ok(())
}

// C10.2 forbidden: ambient inputs
fn ambient() -> String {
    let t = std::time::SystemTime::now();
    let i = std::time::Instant::now();
    let e = std::env::var("X").unwrap_or_default();
    let p = std::process::id();
    let f = std::fs::read_to_string("/nonexistent").unwrap_or_default();
    let rc = std::rc::Rc::new(1u8);
    let addr = std::rc::Rc::as_ptr(&rc) as usize;
    // a randomly keyed hasher: the hash VALUE differs between processes
    let h = {
        use std::hash::BuildHasher;
        std::hash::RandomState::new().hash_one(&e)
    };
    format!("{:?}{:?}{}{}{}{}{:p}{}", t, i, e, p, f, addr, &rc, h)
}

// C14.3 forbidden in beff-core: process-lifetime mutable state
pub static mut COUNTER: u32 = 0;
thread_local! {
    pub static TL: std::cell::RefCell<Vec<u32>> = std::cell::RefCell::new(vec![]);
}
pub static ONCE: std::sync::OnceLock<u32> = std::sync::OnceLock::new();
pub static MTX: std::sync::Mutex<u32> = std::sync::Mutex::new(0);
pub static PLAIN: u32 = 7;

pub fn touch_state() -> u32 {
    TL.with(|v| v.borrow_mut().push(1));
    *ONCE.get_or_init(|| 3) + *MTX.lock().unwrap() + PLAIN
}

// C04 controls: panicking arm on an input-shaped enum, recursion without a cut,
// loop without a variant
pub enum Shape {
    A(u32),
    B(String),
    C,
}

pub fn panicking_arm(s: &Shape) -> u32 {
    match s {
        Shape::A(n) => *n,
        Shape::B(_) => unreachable!("no B here"),
        Shape::C => panic!("no C"),
    }
}

pub fn chase(table: &BTreeMap<String, String>, name: &str) -> usize {
    // RESOLVE recursion with no visited set
    match table.get(name) {
        Some(next) => 1 + chase(table, next),
        None => 0,
    }
}

pub fn spin(v: &[u32]) -> u32 {
    let mut acc = 0;
    let is_ref = v.len() > 3;
    while is_ref {
        acc += v[0];
    }
    acc
}

pub fn ok_loop(v: &[u32]) -> u32 {
    let mut i = 0;
    let mut acc = 0;
    while i < v.len() {
        acc += v[i];
        i += 1;
    }
    acc
}

// C10.1 control: Debug formatting of a hash container through a trait object
#[derive(Debug)]
pub struct Holder {
    pub m: HashMap<String, u32>,
    pub n: u32,
}

pub fn show(h: &Holder) -> String {
    format!("{:?}", h)
}

// C10.1 controls for "collect into Vec then sort"
pub fn sorted_by_map_key(m: &HashMap<String, u32>) -> Vec<(&String, &u32)> {
    let mut v: Vec<_> = m.iter().collect();
    v.sort_by_key(|(k, _)| (*k).clone()); // accepted: keyed by the unique map key
    v
}

pub fn sorted_by_value(m: &HashMap<String, u32>) -> Vec<(&String, &u32)> {
    let mut v: Vec<_> = m.iter().collect();
    v.sort_by_key(|(_, val)| **val); // flagged: ties keep hash order
    v
}

// ---- C05.6 controls: scratch state shared between alternatives of a backtracking search ----
pub fn backtrack_shared(base: &mut Vec<u32>, depth: u32) -> bool {
    if depth == 0 {
        return base.iter().sum::<u32>() == 7;
    }
    let mut s = base.clone();
    for i in 0..base.len() {
        s[i] = depth;
        if backtrack_shared(&mut s, depth - 1) {
            return true;
        }
    }
    false
}

pub fn backtrack_fresh(base: &mut Vec<u32>, depth: u32) -> bool {
    if depth == 0 {
        return base.iter().sum::<u32>() == 7;
    }
    for i in 0..base.len() {
        let mut s = base.clone();
        s[i] = depth;
        if backtrack_fresh(&mut s, depth - 1) {
            return true;
        }
    }
    false
}

pub fn backtrack_restored(base: &mut Vec<u32>, depth: u32) -> bool {
    if depth == 0 {
        return base.iter().sum::<u32>() == 7;
    }
    let mut s = base.clone();
    for i in 0..base.len() {
        let old = s[i];
        s[i] = depth;
        let r = backtrack_restored(&mut s, depth - 1);
        s[i] = old;
        if r {
            return true;
        }
    }
    false
}

// ---- C05.8 controls: a set-operation result stored into the fragment checked next ----
pub struct Region(pub std::collections::BTreeSet<u32>);
impl Region {
    pub fn diff(&self, o: &Region) -> Region {
        Region(self.0.difference(&o.0).cloned().collect())
    }
}

pub fn fragment_unconditional(pos: &std::collections::BTreeMap<u32, Region>, negs: &[std::collections::BTreeMap<u32, Region>]) -> bool {
    let Some((first, rest)) = negs.split_first() else { return false };
    for (k, n) in first {
        let Some(p) = pos.get(k) else { continue };
        let d = p.diff(n);
        if !d.0.is_empty() {
            let mut frag: std::collections::BTreeMap<u32, Region> = pos.iter().map(|(k, v)| (*k, Region(v.0.clone()))).collect();
            frag.insert(*k, d);
            if !fragment_unconditional(&frag, rest) {
                return false;
            }
        }
    }
    true
}

pub fn fragment_conditional(pos: &std::collections::BTreeMap<u32, Region>, negs: &[std::collections::BTreeMap<u32, Region>]) -> bool {
    let Some((first, rest)) = negs.split_first() else { return false };
    for (k, n) in first {
        let Some(p) = pos.get(k) else { continue };
        let d = p.diff(n);
        if !d.0.is_empty() {
            let mut frag: std::collections::BTreeMap<u32, Region> = pos.iter().map(|(k, v)| (*k, Region(v.0.clone()))).collect();
            frag.entry(*k).and_modify(|v| *v = d); // flagged: nothing is stored when the key is absent
            if !fragment_conditional(&frag, rest) {
                return false;
            }
        }
    }
    true
}

// ---- C07.8 controls: building a result from the first element of a sequence ----
pub enum Piece {
    Lit(String),
    Any,
}
pub fn prefix_truncating(items: &Vec<Piece>) -> String {
    match items.first() {
        Some(Piece::Lit(c)) => c.clone(), // flagged: the rest of `items` is ignored
        _ => items.iter().map(|_| "?").collect(),
    }
}
pub fn prefix_guarded(items: &Vec<Piece>) -> String {
    if items.len() == 1 {
        if let Some(Piece::Lit(c)) = items.first() {
            return c.clone();
        }
    }
    items.iter().map(|_| "?").collect()
}
pub fn prefix_with_rest(items: &Vec<Piece>) -> String {
    match items.first() {
        Some(Piece::Lit(c)) => format!("{}+{}", c, items[1..].len()),
        _ => String::new(),
    }
}

// ---- C05.9 controls: peeling negatives one at a time ----
pub struct NegNode {
    pub lo: u32,
    pub hi: u32,
    pub next: Option<std::rc::Rc<NegNode>>,
}
pub enum Inhabited {
    Yes,
    No,
}
pub fn peel_all(lo: u32, hi: u32, neg: &Option<std::rc::Rc<NegNode>>) -> Inhabited {
    match neg {
        None => Inhabited::Yes,
        Some(n) => {
            if lo < n.lo {
                if let Inhabited::Yes = peel_all(lo, n.lo.min(hi), &n.next) {
                    return Inhabited::Yes;
                }
            }
            if n.hi < hi {
                return peel_all(n.hi.max(lo), hi, &n.next);
            }
            Inhabited::No
        }
    }
}
pub fn peel_first_only(lo: u32, hi: u32, neg: &Option<std::rc::Rc<NegNode>>) -> Inhabited {
    match neg {
        None => Inhabited::Yes,
        Some(n) => {
            if lo < n.lo {
                return Inhabited::Yes; // flagged: the rest of the negatives is not asked
            }
            if n.hi < hi {
                return peel_first_only(n.hi.max(lo), hi, &n.next);
            }
            Inhabited::No
        }
    }
}

// ---- C08.9 controls: a merge computed from the existing entry, stored with or_insert ----
pub fn lost_update(acc: &mut std::collections::BTreeMap<String, u32>, key: String, value: u32) {
    let merged = match acc.get(&key) {
        Some(existing) => (*existing).min(value),
        None => value,
    };
    acc.entry(key).or_insert(merged); // flagged: ignored exactly when an entry exists
}
pub fn kept_update(acc: &mut std::collections::BTreeMap<String, u32>, key: String, value: u32) {
    let merged = match acc.get(&key) {
        Some(existing) => (*existing).min(value),
        None => value,
    };
    acc.insert(key, merged);
}
pub fn first_wins(acc: &mut std::collections::BTreeMap<String, u32>, key: String, value: u32) {
    acc.entry(key).or_insert(value);
}

// ---- C04.8 controls: a vector indexed by the counter of a counted loop ----
pub fn counted_index_drift(prefix: &mut Vec<u32>, rest: u32, wanted: usize) -> u32 {
    // pads a COPY and raises the bound, then indexes a clone of the unpadded original
    let mut members = prefix.clone();
    let mut len = members.len();
    if len < wanted {
        for _i in len..wanted {
            members.push(rest);
        }
        len = wanted;
    }
    let mut acc = 0;
    for i in 0..len {
        let mut s = prefix.clone();
        s[i] = members[i]; // flagged: `s` has the old length
        acc += s[i];
    }
    acc
}
pub fn counted_index_tied(prefix: &mut Vec<u32>, rest: u32, wanted: usize) -> u32 {
    let mut len = prefix.len();
    if len < wanted {
        for _i in len..wanted {
            prefix.push(rest);
        }
        len = wanted;
    }
    let mut acc = 0;
    for i in 0..len {
        let mut s = prefix.clone();
        s[i] += 1;
        acc += s[i] + prefix[i];
    }
    acc
}

// ---- memo of a host query (C09.15): the key must carry every argument of the query, unconditionally
pub trait Host {
    fn resolve(&mut self, from: &str, spec: &str) -> Option<String>;
}
pub struct Memo<R: Host> {
    pub host: R,
    pub answers: std::collections::BTreeMap<(Option<String>, String), Option<String>>,
    pub full: std::collections::BTreeMap<(String, String), Option<String>>,
}
impl<R: Host> Memo<R> {
    pub fn memo_conditional_key(&mut self, from: &str, spec: &str) -> Option<String> {
        let importer = spec.starts_with("./").then(|| from.to_string());
        let key = (importer, spec.to_string());
        if let Some(known) = self.answers.get(&key) {
            return known.clone();
        }
        let resolved = self.host.resolve(from, spec);
        self.answers.insert(key, resolved.clone());
        resolved
    }
    pub fn memo_full_key(&mut self, from: &str, spec: &str) -> Option<String> {
        let key = (from.to_string(), spec.to_string());
        if let Some(known) = self.full.get(&key) {
            return known.clone();
        }
        let resolved = self.host.resolve(from, spec);
        self.full.insert(key, resolved.clone());
        resolved
    }
}

// ---- type-only markers of export lists (C09.18): the binder must not branch on them
pub struct NamedSpecifier {
    pub orig: String,
    pub is_type_only: bool,
}
pub fn bind_reads_type_only_marker(s: &NamedSpecifier, types: &mut Vec<String>, values: &mut Vec<String>) {
    let NamedSpecifier { orig, is_type_only } = s;
    if *is_type_only {
        types.push(orig.clone());
    } else {
        values.push(orig.clone());
    }
}
pub fn bind_ignores_type_only_marker(s: &NamedSpecifier, values: &mut Vec<String>) {
    let NamedSpecifier { orig, .. } = s;
    values.push(orig.clone());
}
