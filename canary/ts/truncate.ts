// positive / negative controls for the element-coverage rule (ts_common.truncation_rule)
interface Runtype {
  describe(): string;
}
function chain(kind: string, xs: string[]): string {
  if (xs.length === 1) {
    return `${kind}<${xs[0]}>`;
  }
  // flagged: the recursion keeps the first element only
  return `${kind}Ext<${chain(kind, xs.slice(0, 1))}, ${xs[xs.length - 1]}>`;
}
export class TruncatingRuntype implements Runtype {
  private formats: string[];
  constructor(formats: string[]) {
    this.formats = formats;
  }
  describe(): string {
    return chain("S", this.formats);
  }
}
export class WholeRuntype implements Runtype {
  private formats: string[];
  constructor(formats: string[]) {
    this.formats = formats;
  }
  describe(): string {
    const [first, ...rest] = this.formats;
    let acc = first;
    for (const r of rest) {
      acc += r;
    }
    return acc + this.formats.slice(1).join(",") + this.formats.slice(0, -1).length;
  }
}
