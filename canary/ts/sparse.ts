// positive / negative controls for the sparse-array rule (ts_common.hole_skipping_rule)
interface Runtype {
  validate(ctx: unknown, input: unknown): boolean;
  reportDecodeError(ctx: unknown, input: unknown): string[];
}
export class SkippingArrayRuntype implements Runtype {
  private item: Runtype;
  constructor(item: Runtype) {
    this.item = item;
  }
  validate(ctx: unknown, input: unknown): boolean {
    // flagged: `every` never calls back for a hole
    return Array.isArray(input) && input.every((v) => this.item.validate(ctx, v));
  }
  reportDecodeError(ctx: unknown, input: unknown): string[] {
    if (!Array.isArray(input)) {
      return ["expected array"];
    }
    // flagged: flatMap skips holes
    return input.flatMap((v) => (this.item.validate(ctx, v) ? [] : this.item.reportDecodeError(ctx, v)));
  }
}
export class IndexArrayRuntype implements Runtype {
  private item: Runtype;
  constructor(item: Runtype) {
    this.item = item;
  }
  validate(ctx: unknown, input: unknown): boolean {
    if (!Array.isArray(input)) {
      return false;
    }
    for (let i = 0; i < input.length; i++) {
      if (!this.item.validate(ctx, input[i])) {
        return false;
      }
    }
    // dense arrays made here may be walked with any method
    return Object.keys(input).every((k) => k.length > 0);
  }
  reportDecodeError(ctx: unknown, input: unknown): string[] {
    const acc: string[] = [];
    for (const v of input as unknown[]) {
      if (!this.item.validate(ctx, v)) {
        acc.push("bad");
      }
    }
    return acc;
  }
}
