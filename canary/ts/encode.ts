// positive control for C13.8: TextEncoder.encodeInto silently stops when the destination is full
const scratch = new Uint8Array(16);
const enc = new TextEncoder();
export function boundedUtf8(value: string): Uint8Array {
  return scratch.subarray(0, enc.encodeInto(value, scratch).written); // flagged
}
export function wholeUtf8(value: string): Uint8Array {
  return enc.encode(value);
}
