// positive / negative controls for the key-count rule (ts_common.key_count_rule)
interface Runtype {
  validate(ctx: { disallowExtraProperties: boolean }, input: any): boolean;
}
export class CountingRuntype implements Runtype {
  private properties: Record<string, Runtype>;
  constructor(properties: Record<string, Runtype>) {
    this.properties = properties;
  }
  validate(ctx: { disallowExtraProperties: boolean }, input: any): boolean {
    const configKeys = Object.keys(this.properties);
    const inputKeys = Object.keys(input);
    // flagged: as many keys as declared does not mean the declared keys
    if (ctx.disallowExtraProperties && inputKeys.length !== configKeys.length) {
      return false;
    }
    return configKeys.every((k) => this.properties[k].validate(ctx, input[k]));
  }
}
export class ContainmentRuntype implements Runtype {
  private properties: Record<string, Runtype>;
  private prefix: Runtype[];
  constructor(properties: Record<string, Runtype>, prefix: Runtype[]) {
    this.properties = properties;
    this.prefix = prefix;
  }
  validate(ctx: { disallowExtraProperties: boolean }, input: any): boolean {
    const configKeys = Object.keys(this.properties);
    // fine: the undeclared keys are computed, then counted
    const extraKeys = Object.keys(input).filter((k) => !configKeys.includes(k));
    if (ctx.disallowExtraProperties && extraKeys.length > 0) {
      return false;
    }
    // fine: positions of an array, not a set of keys
    if (Array.isArray(input) && input.length < this.prefix.length) {
      return false;
    }
    return configKeys.every((k) => this.properties[k].validate(ctx, input[k]));
  }
}
