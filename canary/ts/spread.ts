// positive / negative controls for the input-sized spread rule (ts_common.unbounded_spread_rule)
interface Runtype {
  parseAfterValidation(ctx: unknown, input: any): unknown;
  reportDecodeError(ctx: unknown, input: unknown): string[];
}
export class SpreadingRuntype implements Runtype {
  private item: Runtype;
  private members: Runtype[];
  constructor(item: Runtype, members: Runtype[]) {
    this.item = item;
    this.members = members;
  }
  parseAfterValidation(ctx: unknown, input: any): unknown {
    const acc: unknown[] = [];
    const tail = input.slice(1);
    // flagged: one argument per input element
    acc.push(...tail.map((v: unknown) => this.item.parseAfterValidation(ctx, v)));
    return acc;
  }
  reportDecodeError(ctx: unknown, input: unknown): string[] {
    const acc: string[] = [];
    for (const v of input as unknown[]) {
      const errors = this.item.reportDecodeError(ctx, v);
      // flagged: one argument per reported error
      acc.push(...errors);
    }
    return acc;
  }
}
export class BoundedRuntype implements Runtype {
  private members: Runtype[];
  constructor(members: Runtype[]) {
    this.members = members;
  }
  parseAfterValidation(ctx: unknown, input: any): unknown {
    // fine: one argument per member of the type
    return Object.assign({}, ...this.members.map((m) => m.parseAfterValidation(ctx, input)));
  }
  reportDecodeError(ctx: unknown, input: unknown): string[] {
    const depths = this.members.map((m) => m.reportDecodeError(ctx, input).length);
    const best = Math.max(...depths);
    const acc: string[] = [];
    for (const m of this.members) {
      for (const e of m.reportDecodeError(ctx, input)) {
        acc.push(e);
      }
    }
    return best > 0 ? acc : [];
  }
}
