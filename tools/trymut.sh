#!/bin/bash
# usage: tools/trymut.sh <PROP> <file-relative-to-repo> <python-expr old> <new>   (developer tool: apply one textual
# mutation to /repo's working tree, run the check, undo)
set -u
PROP=$1; FILE=$2; OLD=$3; NEW=$4
python3 - "$FILE" "$OLD" "$NEW" <<'PY'
import sys
p='/repo/'+sys.argv[1]; s=open(p).read()
old=sys.argv[2]; new=sys.argv[3]
assert s.count(old)>=1, "pattern not found"
open(p,'w').write(s.replace(old,new,1))
PY
if [ $? -ne 0 ]; then echo "mutation failed"; git -C /repo checkout -- .; exit 3; fi
cd /verif && ./check $PROP 2>&1 | grep -E "VIOLATION|violation\(s\)|^check:" | head -${5:-6}
./check $PROP 2>&1 | grep -B1 VIOLATION | grep -v "^VIOLATION\|^--" | cut -c1-260 | head -${5:-6}
git -C /repo checkout -- . # NOTE: discards ALL uncommitted edits in /repo
