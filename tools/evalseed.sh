#!/bin/bash
# usage: tools/evalseed.sh <patch> [PROP...]   apply a seeded change to /repo, run the checks, undo.
set -u
PATCH=$1; shift
if [ -n "$(git -C /repo status --short)" ]; then echo "/repo not clean"; exit 3; fi
git -C /repo apply "$PATCH" || { echo "patch does not apply"; exit 3; }
cd /verif
PROPS="$@"; [ -z "$PROPS" ] && PROPS="C01 C02 C03 C04 C05 C06 C07 C08 C09 C10 C11 C12 C13 C14 C15 C16"
for p in $PROPS; do
  out=$(./check $p 2>&1); rc=$?
  nv=$(echo "$out" | grep -c "^VIOLATION")
  if [ $rc -ne 0 ]; then echo "== $p exit=$rc violations=$nv"; echo "$out" | grep -B1 "^VIOLATION" | grep -v "^VIOLATION\|^--" | cut -c1-300 | head -4; echo "$out" | grep "^check:" ; fi
done
git -C /repo checkout -- . ; git -C /repo clean -fdq -- packages
git -C /repo status --short | head -3
