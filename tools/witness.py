#!/usr/bin/env python3
"""Developer tool (NOT a check): run witness inputs of suspected defects against the real
beff-core in a scratch copy of /repo's working tree and classify the outcome.
usage: tools/witness.py [--keep] [names...]   (witness files: /verif/witness/*.json)"""
import glob, json, os, subprocess, sys
SCR = "/var/tmp/beff-witness"
TGT = "/var/tmp/beff-witness-target"
EXAMPLE = r'''
use beff_core::test_tools::{print_cgen_multifile};
fn main() {
    let args: Vec<String> = std::env::args().collect();
    let data = std::fs::read_to_string(&args[1]).unwrap();
    let v: serde_json::Value = serde_json::from_str(&data).unwrap();
    let srcs: Vec<(String, String)> = v["sources"].as_array().unwrap().iter()
        .map(|p| (p[0].as_str().unwrap().to_string(), p[1].as_str().unwrap().to_string())).collect();
    let refs: Vec<(&str, &str)> = srcs.iter().map(|(a, b)| (a.as_str(), b.as_str())).collect();
    let r = std::panic::catch_unwind(|| print_cgen_multifile(&refs));
    match r {
        Ok(code) => { println!("RESULT: CODE"); println!("{}", code); }
        Err(e) => {
            let msg = if let Some(s) = e.downcast_ref::<String>() { s.clone() } else if let Some(s) = e.downcast_ref::<&str>() { s.to_string() } else { "?".into() };
            if msg.starts_with("errors: ") { println!("RESULT: DIAGNOSTICS {}", &msg[..msg.len().min(600)]); }
            else { println!("RESULT: PANIC {}", msg); }
        }
    }
}
'''
def main():
    args = sys.argv[1:]
    keep = "--keep" in args
    args = [a for a in args if a != "--keep"]
    subprocess.check_call(["rsync", "-a", "--delete", "--exclude", "target", "--exclude", ".git", "--exclude", "node_modules", "/repo/", SCR + "/"])
    os.makedirs(SCR + "/packages/beff-core/examples", exist_ok=True)
    open(SCR + "/packages/beff-core/examples/witness.rs", "w").write(EXAMPLE)
    env = dict(os.environ, CARGO_TARGET_DIR=TGT, CARGO_NET_OFFLINE="true")
    p = subprocess.run(["cargo", "build", "--offline", "-p", "beff-core", "--example", "witness"], cwd=SCR, env=env, stdout=subprocess.PIPE, stderr=subprocess.STDOUT, text=True)
    if p.returncode != 0:
        print(p.stdout[-3000:]); sys.exit(2)
    exe = TGT + "/debug/examples/witness"
    files = sorted(glob.glob("/verif/witness/*.json"))
    for f in files:
        name = os.path.basename(f)[:-5]
        if args and name not in args: continue
        try:
            r = subprocess.run([exe, f], stdout=subprocess.PIPE, stderr=subprocess.PIPE, text=True, timeout=20)
            out = [l for l in r.stdout.splitlines() if l.startswith("RESULT:")]
            if r.returncode < 0 or (r.returncode != 0 and not out):
                tail = (r.stderr.strip().splitlines() or [""])[-1][:200]
                print("%-40s ABORT rc=%d %s" % (name, r.returncode, tail))
            else:
                print("%-40s %s" % (name, (out or ["?"])[0][:300]))
        except subprocess.TimeoutExpired:
            print("%-40s TIMEOUT (hang)" % name)
    if not keep:
        subprocess.call(["rm", "-rf", SCR])
main()
