#!/usr/bin/env python3
"""Developer tool (NOT a check): print the typed HIR tree of one function from the fact base.
usage: tools/hirdump.py <gid-suffix> [maxdepth]"""
import sys, json
sys.path.insert(0, '/verif/lib'); sys.path.insert(0, '/verif')
from facts import Facts
F = Facts('/verif/.cache/facts')
suf = sys.argv[1]
maxd = int(sys.argv[2]) if len(sys.argv) > 2 else 40
def show(n, ind=0):
    if ind > maxd: return
    if isinstance(n, dict):
        extra = {kk: v for kk, v in n.items() if kk not in ('k', 'ty', 'resolved_full', 'callee_local', 'def_local', 'defkind', 'mode') and not isinstance(v, (dict, list))}
        print(' ' * ind + str(n.get('k')) + ' ' + json.dumps(extra)[:160])
        for kk, v in n.items():
            if isinstance(v, dict): print(' ' * (ind + 1) + '.' + kk); show(v, ind + 2)
            elif isinstance(v, list) and v and isinstance(v[0], dict):
                print(' ' * (ind + 1) + '.' + kk + '[]')
                for x in v: show(x, ind + 2)
for g, t in F.hir.items():
    if g.endswith(suf):
        print('==', g, [p.get('name') for p in t['params']])
        show(t['body'])
