#!/usr/bin/env python3
"""Regenerate /verif/MANIFEST.json from the per-property registry below.
A property is claimed iff rules/<id>.py exists AND it has an entry in CLAIMED."""
import json
import os

VERIF = os.path.dirname(os.path.dirname(os.path.abspath(__file__)))

CLAIMED = {
    "C10": dict(
        category="other",
        technique="static may-analysis: reachability over the resolved MIR call graph + closed-world API classification + consumer dataflow",
        text=("Sound absence argument over the analysed crates: from the compiler entry points (beff_core::extract, "
              "emit_code, parse_and_bind, every wasm_bindgen export) no call that exposes hash-iteration order, reads "
              "clock/environment/pid/file system/RNG/addresses, or touches process-lifetime state in beff-core is "
              "reachable in the resolved call graph. Every hash-container call is classified (unknown API fails closed). "
              "This is the right level because determinism is a statement about which APIs can influence a value on any path. Also C10.4 (= C14.7): cache-only module lookups never take a key out of an import/export table (what the session has loaded is an ambient input); C10.5 (= C14.8): parsed modules are not changed by compiling them; C10.6: twin accessors agree. C10.2 counts randomly keyed hashers (RandomState::new, hash_one) as ambient inputs."),
        note=("Trusted: rustc's MIR and trait resolution; the call-graph over-approximation (closures, fn pointers, callbacks "
              "through local impls of foreign traits); dependency crates (swc, serde_json, std) are assumed deterministic and "
              "are not analysed."),
        design="DESIGN.md section 3, C10",
    ),
}

CLAIMED["C14"] = dict(
    category="other",
    technique="static must-pass-through (MIR, interprocedural through closures) + who-may-write + backward data-dependence provenance + closed state inventory (Rust and JS)",
    text=("Path-complete structural argument for history-independence of the watch-mode cache, on a crate that cannot even "
          "run natively: on every normal path of the update export the entry of the updated file is replaced or evicted; the "
          "cache has exactly two writers and the fetched value is parse_and_bind(read_file_content(name), name); the set of "
          "process-lifetime state on both sides of the wasm boundary is closed (new static / new field of the cache ADT / new "
          "module-level JS binding fails the check); host queries reachable from the cached computation and never-invalidated "
          "JS caches are reported (2 known findings). A per-path static argument is the right level because the property "
          "quantifies over all edit histories. Also C14.7: FileManager::get_existing_file is never asked for a file named by an import/export table entry or a resolver answer. Also C14.8: nothing reachable from ParsedModule has interior mutability and the swc comment map is never mutated outside the parser. Also C14.9: the twin accessors get_type / get_value agree."),
    note=("Trusted: rustc MIR normal edges (panics out of scope), swc AST of ts-node/*.ts, the reviewed inventory table. "
          "Histories are not executed; the JS host callbacks are assumed to return current disk state."),
    design="DESIGN.md section 3, C14",
)

CLAIMED["C04"] = dict(
    category="other",
    technique="static whole-program classification: reachable diverging-site census (MIR), panicking arms over input-shaped enums (typed HIR), un-cut recursion through table lookups (call-graph SCCs + backward data-dependence + dominating memo marks), loop-variant analysis on natural loops",
    text=("Decides, for every path of the compiler and every input, four necessary conditions of totality: (1) the multiset of "
          "diverging sites reachable from the entry points equals a reviewed census (may shrink, not grow); (2) no match arm over "
          "an swc AST enum or a binding-table enum is a panic; (3) every recursive call that passes a value obtained from a "
          "user-keyed table lookup lies only on cycles that pass a visited/memo mark; (4) every condition-driven loop writes a "
          "loop-carried dependency of its exit condition on every back-edge path. The rules found 3 panics, 1 hang (all repaired by "
          "fix: commits) and 41 reachable sites that abort the process on witness inputs (known findings, each reproduced). Also: a successful result loads against the client runtime (C04.5 = the C01 constructor-table and regex-escaping rules). C04.3a also requires that the structure owning a visited set is not re-created inside the recursion it cuts. Also C04.6: nothing in the recursion of the converter calls a semantic decision while atom slots hold placeholders."),
    note=("Trusted: rustc MIR/HIR, the call-graph over-approximation, the reviewed census and two exception tables. Not decided: "
          "promptness, diagnostics' line/column ranges lying inside the file, swc's own parser; dependency crates are not analysed. "
          "The census rule is deliberately conservative: a new panic/unwrap/index site fails until reviewed."),
    design="DESIGN.md section 3, C04",
)

CLAIMED["C06"] = dict(
    category="proof",
    technique="arm algebra: abstract interpretation of typed-HIR function bodies into Boolean membership formulas + exhaustive truth tables per return path (inductive step of structural induction)",
    text=("Proof of the inductive step for the decision-diagram layer and the allowed/excluded literal-set layer: every return "
          "path of BddOps::{intersect,union,diff,complement}, Bdd::from_node/from_atom, ProperSubtypeOps::{...} and the four "
          "SubType literal-set constructors is read from the typed HIR, interpreted (recursive calls replaced by their "
          "specification) and compared with the set semantics on ALL assignments satisfying the path's pattern constraints; "
          "per-tag bit formulas and pair dispatch of SemTypeOps are checked over all abstract tag states; DNF conversion's "
          "push/pop pairing is checked structurally. With structural descent this covers all diagrams and all literal sets, "
          "not the sampled ones a test reaches. Unknown constructs fail closed. Also: the tags handed to the pair iterator are disjoint from the saturated ones (representation invariant). Also C06.5: the pairwise merge of the two tag-sorted tables filters every entry by its own tag."),
    note=("Trusted: rustc typed HIR; the interpretation table (Node semantics, sub_vec_* taken as set operations on the "
          "format-free fragment, structural equality implies semantic equality); lib/armalg.py evaluator. Not decided: "
          "sub_vec_* bodies, value-level membership of atoms (mapping/list atomic types)."),
    design="DESIGN.md section 3, C06",
)

CLAIMED["C05"] = dict(
    category="other",
    technique="static structural rules on typed HIR/MIR: call-shape matching with argument order, sibling-family agreement over pattern-selected regions, memo typestate via dominators + key provenance, arm algebra for the status combiner",
    text=("Decides structural necessary conditions of correct assignability decisions on every path of the engine: the "
          "definitional one-liners (is_subtype = is_empty(diff(a,b)) with that argument order, is_same_type both directions, "
          "complement = unknown \\ x); family agreement (INV-ATOM): a region selected by one of the four atom families only "
          "touches that family's tables/accessors/constructors (this rule found the named-tuple memo bug, repaired by a fix: "
          "commit); co-inductive memo typestate of both emptiness entry points (lookup first, Undefined read as IsEmpty, "
          "in-progress mark dominates the recursive computation, same key updated afterwards); polarity of the BDD path walk "
          "and the conjunction table of and_empty_status (truth table). Added later: in the recursive emptiness procedures no owned scratch value defined before a loop is written in the loop and handed to the recursive call without being re-created or restored per iteration (C05.6, with canary controls). Also C05.inv: the C06 arm rules are re-run, since a wrong difference flips assignability. Also C05.7: twin procedures of the engine agree on their abstract signatures. Also C05.8: a set-operation result that is stored into the fragment handed to the recursive emptiness check is stored on every path (a move into a closure does not count). Also C05.9: `inhabited` is answered only where no negative is left or where a call on the REMAINING negatives answered it (2 known findings: the list and the Map procedures consult the first negative only; witnesses q_list_union_subtype, q_map_union_subtype)."),
    note=("Trusted: rustc typed HIR/MIR, the family naming scheme. Not decided: the emptiness procedures themselves "
          "(Frisch's Phi' on lists, exact-vs-open mapping difference, index signatures) - value-level correctness of all "
          "atom tables has no sound static argument in reach; relies on C06 for the set operations."),
    design="DESIGN.md section 3, C05",
)

CLAIMED["C07"] = dict(
    category="other",
    technique="static structural rules on typed HIR/MIR: diverging-arm set of the printer vs. sanitiser coverage, field-write facts on the name counter, total-dispatch and polarity checks on the materialisation",
    text=("Decides shape conditions that any meaning-preserving materialisation must satisfy: the set U of kinds the printer "
          "cannot print (read from its diverging arms) is filtered out of intersections by the sanitiser and must not pass it at "
          "top level (1 known finding: Exclude<number,1> -> Not<1> -> printer panic); the generated-name counter is only "
          "incremented, threaded by &mut from the frontend, and every helper definition returned is inserted with its result "
          "propagated; tag / proper-subtype / atom dispatch has no value-returning catch-all; maybe_not is always called with "
          "`!allowed` of the enclosing arm and Not wraps exactly the negative atoms of a clause. Also C07.6: an atom fetched from one of the four atom tables only reaches materialisers that build that family's form (interprocedural flow through helper parameters). Also C07.7: twin materialisers agree. Also C07.8: a result built from one element of a sequence payload (first / last / literal index) in the materialiser, the IR or the printer is justified by a length test or by a use of the rest of the sequence (found and guards fix 6d011bc: multi-item template literals were materialised as their first item). Also C07.9: functions that enumerate the values of an enum (TypedArrayKind::all, SubTypeTag::all) list every variant once."),
    note=("Trusted: rustc typed HIR/MIR. Not decided: that the materialised Runtype denotes the same value set as the semantic "
          "type (keyof / indexed-access projections, union-of-complements), which quantifies over all values."),
    design="DESIGN.md section 3, C07",
)

CLAIMED["C08"] = dict(
    category="other",
    technique="static field-access facts (MIR) on identity impls, ADT type facts, key-coverage of the hoist-key converters (typed HIR), structure-only/sorted-iteration rules on the TS digest methods (swc AST)",
    text=("Decides necessary conditions for rewrite-invariance that hold by construction of the code: the hand-written "
          "Eq/Ord/Hash of Runtype read only `kind` and descriptions write only `metadata` (comments/JSDoc cannot split or "
          "reorder anything keyed by a Runtype); union/intersection members, object properties and template alternatives live "
          "in ordered sets/maps (member and property order unobservable); every arm of the Printable*Key converters binds and "
          "uses every field of its variant and targets the same-named key variant (hoisting cannot merge types that differ); "
          "no hash()/hash256() of the runtime family reads metadata or feeds a type name to the writer, and every key iteration "
          "in them is over a sorted copy. Added later: all_of merges on equal stored values only (C08.5); binary merge/selection functions over set-ordered members return a payload that reaches both operands or neither (C08.6); digest-context tables are not keyed by names (C08.4/C13.4). Also C08.8 (= C01.8: a type parameter resolves to its innermost binding, so renaming / inlining generic wrappers is meaning-preserving). Also C08.9: a value merged from the existing entry of a map is never stored with entry(..).or_insert(..)."),
    note=("Trusted: rustc MIR/HIR/ADT facts, swc AST. Not decided: equality of behaviour across spellings (which optimisation "
          "fires for which shape) - a relational, value-level statement."),
    design="DESIGN.md section 3, C08",
)

CLAIMED["C09"] = dict(
    category="other",
    technique="static syntactic provenance over typed HIR (binding-precise derivation of table keys/payloads from syntax fields), derive facts on identity types, arm coverage of re-export resolution",
    text=("Decides necessary conditions for module layout not to change bindings, on every path of the binder: import tables are "
          "keyed by the local name and remember the imported name; export lists register under the exported name and look "
          "locals up by the original name; `export {A as B} from` looks A up in the other module and registers B; every kind "
          "of import that an export list can mention registers an export (this rule found the dropped default re-export, "
          "repaired by a fix: commit); the identity types of named types derive Eq/Ord/Hash over all fields incl. the file; "
          "the lossy name mangling is followed by a collision check on the printed names (C09.4; was violated, repaired by fix d02c186). Also C09.7: the file suffix of a disambiguated name is cut at a min-reduction over all same-named files. Also C09.8: the expression of another module's default export is handed on with the anchor of that export record. Also C09.9: the type-side and value-side twins of name resolution agree on their abstract signatures (reviewed differences tabled). Also C09.10 (a lookup that follows `export *` re-enters the complete lookup of the target module) and C09.11 (in import('m').Q<Args> the arguments are lowered in the importing file and Q never visits the type-parameter stack - guards fix 009be55). Also C09.12: a declaration is recorded in one table of the module locals. C09.4 (printed names of distinct types are checked for collisions before they key the emitted table) was a known finding and is discharged since fix d02c186."),
    note=("Trusted: rustc typed HIR and impl facts. Not decided: equality with the single-file result for all layouts "
          "(relational over programs); the walkers' resolution order; .d.ts/.tsx handling."),
    design="DESIGN.md section 3, C09",
)

CLAIMED["C13"] = dict(
    category="other",
    technique="static value/shape agreement of hash.ts with FIPS 180-4 recomputed by the checker (swc AST), truth tables for ch/maj, per-class field-coverage and prefix-free framing rules on hash256()",
    text=("Decides facts any real SHA-256 over a prefix-free canonical encoding must contain, for every execution of the digest "
          "routine: all 64 round constants and 8 initial values equal the recomputed fractional roots of the primes; the four "
          "rotation triples sit on the right operands (working variables identified through the state rotation, not by name); "
          "ch/maj have their truth tables; schedule recurrence, T1/T2, state rotation, feed-forward, padding byte, threshold "
          "(> 56), big-endian length field and word load. Per class: every structural constructor field is read by hash256(), "
          "tags are pairwise distinct, every collection loop is length-prefixed, optional parts are tagged on both branches, "
          "no digest reads metadata/names or iterates unsorted keys, cycle bookkeeping is paired. Added later: module constants are resolved before the arithmetic is compared; the in-progress table of the digest context is keyed by the referenced validator, never by a name (cycle-table-key). Also C13.5: hash()/hash256() read every constructor argument they read on the reviewed tree. Also C13.6: the stream position hash256 derives back-reference ids from advances by the length of every write; C13.7 (no fixed-size prefix). Also C13.8: no bounded-destination UTF-8 encoding (encodeInto) in hash.ts. The round function, the schedule and the feed-forward are compared as normalised TERMS (lib/symjs.py: sums modulo 2^32, XOR-of-rotations sets, truth tables of bitwise functions), so inlined or renamed sub-expressions are the same term and a changed operand, rotation or operator is not. Also C13.9: the orders hash()/hash256() sort by are total and host independent - no one-argument localeCompare, a localeCompare comparator has a fallback, default sort only on string arrays (found and guards fix 5832ac5)."),
    note=("Trusted: swc AST; the re-derivation of FIPS 180-4 in rules/c13.py; the 4-entry derived-field table. Not decided: "
          "collision-freedom beyond coverage+framing, buffer arithmetic across block boundaries (boundary-value behaviour), "
          "TextEncoder."),
    design="DESIGN.md section 3, C13",
)

CLAIMED["C16"] = dict(
    category="other",
    technique="static typestate on the swc AST (mark -> store/clear on all exits incl. exceptional), guard dominance of store sites, single-writer and copy-on-export facts",
    text=("Decides, for every history of schemaWithContext calls on a shared context (including calls that throw), the "
          "structural conditions under which no definition can stay unfinished or be overwritten: each "
          "markDefinitionInProgress(n) is followed by storeDefinition(n) inside a try whose catch/finally clears the mark "
          "(roles of mark/store/clear are derived from the context class); store sites sit under the not-present-and-not-in-"
          "progress guard for the same name; the definition table has exactly one writer; exportDefinitions copies; the "
          "stored body is <target>.schema(ctx). The rule found the leaked mark on exceptions (repaired by a fix: commit). Added later: schema printing writes no instance state (C16.4); methods of the context that hand out a stored definition body are not reachable from schema() (C16.5). Also C16.6: every path that stores the definition of a named type consults the schema override. Also C16.7: a structural hash taken while printing schemas starts from a fresh hash context."),
    note=("Trusted: swc AST. Not decided: equality with a fresh context for synthetic discriminated-variant names (they embed "
          "a 32-bit hash: collisions are value-level); JS exceptions other than those raised by calls."),
    design="DESIGN.md section 3, C16",
)

CLAIMED["C02"] = dict(
    category="other",
    technique="static rules on the swc AST of the schema printers: guard/throw agreement, closed keyword and type vocabulary, keyword co-occurrence, $ref-ensure ordering",
    text=("Decides well-formedness conditions of every schema the printers can build, on all their paths: classes whose "
          "validator only admits non-JSON values (Date, bigint, Map, Set, typed arrays) have a schema() that always throws; "
          "every key of every schema object literal is a Draft 2020-12 keyword (plus discriminator) and every literal or "
          "field-typed `type` lies in the seven JSON Schema type names; prefixItems comes with minItems and pattern is a RegExp "
          "source (both were violated and repaired by fix: commits); every getRef(n) is preceded by the ensure-definition "
          "sequence for n. Added later: index-signature schemas keep both key and value constraint (C02.5); the allOf merge takes every member's whole `required` list (C02.6). Also C02.7-C02.10 and the schema-array clause of C02.3: facade contexts are created per call; dictionaries keyed by type names have no prototype; no computed String.replace pattern; a lossy name sanitiser keeps a collision record; anyOf / prefixItems are never printed empty (2 known findings). Also C02.11: schema() reads every constructor argument it read on the reviewed tree. Also C02.12 (the schema table of a discriminated union narrows each variant to its key - guards fix efd9347: oneOf branches overlapped for multi-literal variants), C02.13 (no fixed-size prefix) and C02.14 (= C16.4: schema printing keeps no state on the validator instances). Also C02.15: the canonical rendering used to compare schemas keeps the order of arrays. Also C02.16: local dictionaries read by data-derived keys have no prototype (found and guards fix 98a32e0)."),
    note=("Trusted: swc AST, the keyword list. Not decided: agreement on documents (required vs optional through "
          "removeNullUnionBranch, allOf merge, index signatures) - value-level over all documents."),
    design="DESIGN.md section 3, C02",
)

CLAIMED["C03"] = dict(
    category="other",
    technique="static intraprocedural taint (binding-precise) on the swc AST from the `input` parameter to throwing sinks and mutation sites; facade shape matching; sibling-branch agreement",
    text=("Decides, for all inputs, necessary conditions of 'entry points agree, nothing throws, input untouched': parse returns "
          "safeParse(..).data only under success and otherwise throws an Error; safeParse branches on validate(input) and parses "
          "/ reports on the matching branch with the same strictness; no value derived from the input reaches a dictionary "
          "lookup or `in` test on a plain-object field (prototype keys) or a JSON.stringify outside try/catch (bigint, cycles) "
          "in any validate / parseAfterValidation / reportDecodeError or in the error helpers; explicit throws are the three "
          "reviewed post-validation ones; no assignment/delete/mutator call is rooted at an input-derived object; the two "
          "objectKeyOrder branches use the same membership test. The rules found three defect families (10 sites), all "
          "repaired by fix: commits. Added later: results of a child's parseAfterValidation count as input-derived (opaque leaves and `any` hand the input back) and Object.assign/defineProperty/freeze count as writes to their first argument. Also C03.7: index-signature validators are applied to undeclared keys only. Also C03.8: parseAfterValidation() reads every constructor argument it read on the reviewed tree. Also C03.9: for every value validate() accepts without consulting the wrapped member (null / undefined of an optional field) parseAfterValidation does not delegate to that member; C03.10 (no fixed-size prefix). Also C03.11: no call in validate / parseAfterValidation / reportDecodeError is handed one argument per element of an input-sized array (found and guards fix 6b09ce4: RangeError on > 10^5 invalid items). Also C03.12: validate()/reportDecodeError() read a property of, enumerate or `in`-test their input only under guards that exclude null/undefined (32 uses)."),
    note=("Trusted: swc AST, declared Record<..> annotations, the taint model (no inter-procedural flow beyond the listed "
          "helpers). Not decided: re-validation / idempotence of parsed output, leaf preservation through deepmerge."),
    design="DESIGN.md section 3, C03",
)
CLAIMED["C11"] = dict(
    category="other",
    technique="static flow rules on the swc AST: context-argument threading at every child call, closed reader set of the strictness flag with branch/operand shape, conjunctive-delegation detection",
    text=("Decides how the strictness flag can flow: all 60 child calls of validate/parseAfterValidation/reportDecodeError "
          "pass the method's own ctx identifier; contexts are built only by the facade; the flag is read only by the object "
          "class, in its no-index-signature branch, comparing Object.keys(input) with its own declared keys; a class that "
          "requires all of several children on the same input while forwarding the flag unchanged is reported (1 known "
          "finding: intersections of named object types reject everything in strict mode). Added later: helpers that forward the ctx are checked at their call sites (fixpoint); the printer never drops the index signature of an object shape it rebuilds (C11.4 = C01.7). Also C11.5: the open-object inclusion test is called only from the engine and the frontend, never to simplify a printed type."),
    note="Trusted: swc AST. Not decided: the equivalence `strict accepts <=> default accepts and no undeclared key` itself.",
    design="DESIGN.md section 3, C11",
)
CLAIMED["C12"] = dict(
    category="other",
    technique="static rules on the swc AST: literal bound at the slice site, validator/reporter test-kind parity per class, push/pop pairing, taint to JSON.stringify in error helpers",
    text=("Decides presence/boundedness/path-shape conditions for every rejected value: the facade slices the error list with a "
          "literal bound <= 10; per class every kind of rejection test in validate() reappears in reportDecodeError() or the "
          "reporter ends in an unconditional error (found: surplus tuple items - fixed; intersections of non-object types - "
          "known finding); pushPath/popPath pair up without an intervening return and the value reported under key k is "
          "input[k]; the union reporter restores ctx.path; error building/rendering never stringifies received values "
          "outside try/catch. Also C12.5: re-basing an error (spread + new path) leaves its nested errors alone. Also C12.6: reportDecodeError() reads every constructor argument it read on the reviewed tree. Also C12.7 (no fixed-size prefix). Also C12.8 (no hole-skipping walk of the input in reportDecodeError) and C12.9 (= C03.11)."),
    note="Trusted: swc AST; the atom vocabulary of rejection tests. Not decided: union filtering by depth, determinism of rendering.",
    design="DESIGN.md section 3, C12",
)

CLAIMED["C01"] = dict(
    category="other",
    technique="static cross-language writer/reader agreement: interprocedural string-literal propagation through the printer (typed HIR) vs. exported classes/constructor arity/literal unions (swc AST) vs. the glue's import list; shape rules for regex anchoring, escape set, interface completeness",
    text=("Decides structural necessary conditions only - NOT membership of values: every constructor name the Rust printer can "
          "emit (22, found by propagating string literals through its helpers to the sites that build `new <Name>(..)`) is "
          "imported or defined by the JS glue and exported by the client, with the emitted argument count equal to the "
          "constructor's arity and literal arguments inside the declared literal unions (1 known finding: "
          "TypeofRuntype(\"function\")); template-literal regexes are matched against the whole string (was violated; "
          "fixed); escape_regex covers all 15 syntax characters, backslash first; all 22 concrete runtime classes implement "
          "all 8 interface methods; typed-array names agree with the 11 ECMAScript globals on both sides. Added later: the intersection smart constructor merges object members only when the stored values are equal (C01.6); the printer never takes a struct-like IR variant apart while ignoring one of its fields, e.g. the index signature of an object shape (C01.7). Also C01.8: scope stacks (pushed-and-popped Vec<(String, _)>) are searched innermost-first. Generic cross-checks: twin agreement (C01.9) and constructor-argument coverage of validate() (C01.10). Also C01.11 (no interface method reads a fixed-size prefix of an array-valued argument) and C01.12 (= C08.6: narrowing of a property declared by two intersection members is symmetric). Also C01.13 (validate() never walks the input with a hole-skipping array method) and C01.14 (= C15.10: template chunks are stored cooked and printed escaped; guards fix 054d128)."),
    note=("Trusted: rustc typed HIR, swc AST. The behavioural core of C01 (the validator accepts exactly the members of the "
          "type, for all programs and values) has no sound static argument in reach and is not decided."),
    design="DESIGN.md section 3, C01",
)

CLAIMED["C15"] = dict(
    category="other",
    technique="static cross-language vocabulary agreement: tokens printable by describe (swc AST string constants, literal-union domains) vs. keywords/builtins the frontend resolves (typed HIR), plus shape rules for quoting and recursion guards",
    text=("Decides that describe() prints text in the language the compiler reads: every identifier-like token in the string "
          "constants of every describeTypeExpr / describe helper, and every value of a literal-union field it returns, is a "
          "keyword arm of extract_ts_keyword_type that does not raise a diagnostic or a literal pattern of "
          "maybe_generate_ts_builtin (found `BigInt`; fixed); composite classes print the builtin spellings Array<>, Map<,>, "
          "Set<>, ...Array<>; property keys pass through a quoting step (was violated; fixed); collectDescribeRefs/describe "
          "test activeRefs/visitedRefs before descending, pair add/delete, and assign definitions under a == null guard. Also C15.6: every return of describeTypeExpr depends on every field the method reads. Also C15.7: the children walk of the reference-counting pass does not depend on context state. Also C15.8: the describe methods read every constructor argument they read on the reviewed tree. Also C15.9: no describe method (or helper it reaches) reads a fixed-size prefix of an array-valued argument; C15.1 judges words glued to template holes as whole words. Also C15.10: template chunks are read from swc's cooked text and TplLitType::describe escapes backslash, backtick and ${."),
    note="Trusted: rustc typed HIR, swc AST. Not decided: equality (acceptance and hash256) of the second-generation validator.",
    design="DESIGN.md section 3, C15",
)

# rules added after the tenth seed batch (DESIGN.md 10.2), appended to the claims above
ADDED_B10 = {
    "C01": "Added after the tenth batch: C01.15 a key validator of an index signature is offered the numeric reading of a property name (found and guards fix 2a9f262: Record<number, T> accepted only {}); C01.3 also demands the line terminators with their escape sequences, applied after the syntax characters (fix 52cefb4); C01.16 no member of a template union is dropped before the join (fix b01e90f); C01.17 a `.`-based string placeholder is matched with the s flag (fix 42e67ba); C01.18 the prefix / rest boundary of list member lookups is `max >= L`.",
    "C02": "Added after the tenth batch: C02.17 the allOf fast path is not entered when a member has an index signature, because its closed shape forbids every key (found and guards fix f450b29); C02.18 a subschema built from an index signature lists the declared keys (known finding: it does not); C02.19 the printer builds a discriminated union only on a property taken apart by the Required pattern.",
    "C03": "Added after the tenth batch: C03.13 no decision rests on comparing the number of input keys with the number of declared keys; C03.14 validate / parseAfterValidation / reportDecodeError write nothing on `this`.",
    "C04": "Added after the tenth batch: C04.7 (inter-procedural over the frontend's typed HIR) an Anchor is only built - directly or by a callee - from syntax of the caller's own parameters together with the caller's own file / anchor parameter, never with a file obtained from a lookup or an import resolution (found and guards fix c6410d5: import(\"./m\").NS.X reported against m with offsets of the importing file).",
    "C05": "Added after the tenth batch: C05.10 the per-key loop of the mapping intersection reads the operand's index signature for a key it does not declare (found and guards fix ec0b14d: X extends X was `no` for {name: string | null} & Record<string, string>).",
    "C07": "Added after the tenth batch: C07.10 a key looked up in the declared properties of an object that may have an index signature consults the signature where the key is missing.",
    "C08": "Added after the tenth batch: C08.10 every object the intersection constructor builds has no index signature (declared keys would escape it); C08.11 the memoising function of named types reaches the declaration extractor only with the scope stack set aside and restored (found and guards fix f1a99b7: type parameters captured names inside other declarations).",
    "C09": "Added after the tenth batch: C09.13 (generalises C09.8) syntax taken out of any record that pairs a syntax field with a location field (13 variants, found by field types) is handed on with a location from that record or the address it was fetched with.",
    "C11": "Added after the tenth batch: C11.6 (= C03.13) strict mode finds undeclared keys by name, never by comparing key counts.",
    "C12": "Added after the tenth batch: a length test of validate() is a rejection reason of its own per direction (too short / too long / exact) and needs its counterpart in the reporter.",
    "C13": "Added after the tenth batch: C13.10 hash() / hash256() and what they reach write nothing on `this` (their value depends on the hash context).",
    "C15": "Added after the tenth batch: C15.11 every placeholder arm of the template printer yields `${..}` (known finding: the union arm prints `(..)`, pinned by an existing test); C15.12 describe() and what it reaches write nothing on `this`.",
}
ADDED_B11 = {
    "C01": "Added after the eleventh batch: C01.19 (= C08.3) no hoist-key converter reads a member through an optionality-erasing accessor.",
    "C02": "Added after the eleventh batch: C02.20 the optional-field wrapper prints the null branch on every path (the object schema recognises optional properties by it).",
    "C03": "Added after the eleventh batch: C03.15 a parseAfterValidation that throws on non-object member results is backed by a validate() that rejects non-objects.",
    "C04": "Added after the eleventh batch: C04.8 in the counted loops of the subtyping engine a vector indexed by the counter is guarded or tied to the bound (length at start, padded wherever the bound is raised).",
    "C05": "Added after the eleventh batch: C05.11 an accumulated list prefix is padded with its own rest element (found and guards fix 258f690); mixed-family or-patterns over atoms touch no family table. C05.12: an `empty` answer memoised while an outer emptiness question is open (under the assumption that the open type is empty) is revoked when that question turns out not empty - log length taken before the computation, own key logged on the empty outcome, revoker removes from the entry point's own table back to exactly that length (guards fix 16acbbb: [Y, X] extends never was decided differently from [X, Y] extends never).",
    "C07": "Added after the eleventh batch: C07.6 also rejects arms that bind the table index of two atom families to one name.",
    "C08": "Added after the eleventh batch: C08.3 converters keep the optionality of members.",
    "C09": "Added after the eleventh batch: C09.14 in type position the tables of local type declarations are asked before the import table.",
    "C13": "Added after the eleventh batch: C13.3 also covers optional parts written through optional chaining, short-circuit operators and one-sided conditionals.",
    "C14": "Added after the eleventh batch: C14.6 the path handed to the watcher is the very path the compiler asked to read.",
    "C15": "Added after the eleventh batch: C15.13 a chain of members joined by | or & is parenthesised where it is built.",
}
ADDED_B12 = {
    "C01": "Added after the twelfth batch: C01.20 (= C05.13) Exclude and conditional types return no value on a path that has not consulted the semantic engine (path-sensitive precedence analysis on the typed HIR, lib/hirpath.py).",
    "C02": "Added after the twelfth batch: C02.21 the function that reads discriminator keys off literal types yields keys only for literals the key -> literal constructor rebuilds (extractor / constructor inverse).",
    "C03": "Added after the twelfth batch: C03.16 no implicit string conversion (template interpolation, + with a string) of an unknown-typed value where its typeof domain still contains symbol / object (typeof domains from guards, disjunctions, switch cases, aliases).",
    "C04": "Added after the twelfth batch: C04.9 a lookup that must succeed for every element of a collection (get(k).expect) is dominated - in the function or at every call site, for the arguments passed - by a test that every element has the key; range slices proven in bounds by a local padding argument leave the census.",
    "C05": "Added after the twelfth batch: C05.13 (= C01.20) Exclude and conditional types are answered by the engine on every path.",
    "C06": "Added after the twelfth batch: C06.6 a DNF is only simplified by polarity-consistent clause subsumption (positive with positive, negative with negative, same direction) or by dropping contradictory clauses.",
    "C07": "Added after the twelfth batch: C07.11 keyof duality - key sets are united across the positive atoms of a DNF clause and intersected across clauses.",
    "C08": "Added after the twelfth batch: C08.12 a shared visited set whose hit is reported as an error is a path set (insert paired with remove in a branching recursion) - a diamond of aliases is not a cycle.",
    "C09": "Added after the twelfth batch: C09.15 a remembered answer of the host (module resolution) is keyed by every argument of the query, unconditionally (canary control).",
    "C11": "Added after the twelfth batch: C11.7 (= C08.5) what decides between merging the literal members of an intersection and leaving an AllOf of closed objects is the stored property values only.",
    "C12": "Added after the twelfth batch: C12.10 (= C03.16) rendering never converts an unknown value to a string implicitly; C12.11 a reporter that delegates only to the members that reject has a branch for each rejection test of its own validate().",
    "C13": "Added after the twelfth batch: C13.11 a digest context pairs a writer with the offset table filled from that writer; code running inside an encoding creates no new byte stream.",
    "C14": "Added after the twelfth batch: C14.10 the JS update entry point calls the compiler's update_file_content with its own arguments on every normal path.",
    "C15": "Added after the twelfth batch: C15.14 the regular expression that lets a property name be printed without quotes is within ID_Start ID_Continue* (class items checked against the identifier categories).",
    "C16": "Added after the twelfth batch: C16.8 the text emitted as $ref is computed by methods of the context that read no field written after construction and write none; the storing method files the body under the given name on every normal path.",
}
ADDED_B13 = {
    "C01": "Added after the thirteenth batch: C01.21-24 (found and guard fixes 6c73e44, d3e757b, 4a7926d, f54bfce, f6f6092): reviewed table of meaning-changing syntax fields each read by the frontend; `+?` like `?`; rest element last; `__proto__` keys computed; C01.25 declared vs undeclared keys (= C03.7 + C11.2).",
    "C02": "Added after the thirteenth batch: C02.22 every array schema the tuple class returns is closed (items is the rest schema or false).",
    "C03": "Added after the thirteenth batch: C03.17 every kind a validator admits by instanceof is an opaque leaf of the deep merge (found and guards fix 9883fdf: Map / Set parsed to {}); C03.18 no module-level mutable state of the runtime besides registries.",
    "C04": "Added after the thirteenth batch: C04.10 the producer of every emitted regex literal tests its result for emptiness (found and guards fix c3deaee).",
    "C05": "Added after the thirteenth batch: C05.14 a negative is skipped (positive handed on unchanged) only under an emptiness test.",
    "C06": "Added after the thirteenth batch: the arm algebra interprets destructuring helper parameters, so literal-set helpers are checked row by row.",
    "C07": "Added after the thirteenth batch: C07.12 (= C08.10) and C07.13 (an optional part of an atom is materialised whenever it is present).",
    "C08": "Added after the thirteenth batch: C08.13 nothing lowered under one key's scope binding is carried into the next iteration of a mapped-type loop.",
    "C09": "Added after the thirteenth batch: C09.16 own export tables are consulted before the walk over the export * targets (found and guards fix 1cd7eb1; evaluation order over the typed HIR); C09.17 collected star members are hidden by named re-exports too.",
    "C11": "Added after the thirteenth batch: C11.8 (= C07.13) the materialiser never drops an index signature.",
    "C15": "Added after the thirteenth batch: C15.15 the Record lowering and the mapped-type lowering classify the members of a key type alike (what describe() prints as [K in ..] compiles back to an index signature).",
    "C16": "Added after the thirteenth batch: C16.9 the mark / store protocol of the printing context is driven by validator classes only (parser keys are another namespace).",
}
ADDED_B13B = {
    "C03": "C03.19 parseAfterValidation copies a declared property from wherever validate read it - no own-ness guard on declared keys, a loop over the declared keys next to the loop over the input's own keys (found and guards fix 12c2e38: inherited properties were accepted and dropped); C03.20 every computed-key write into a parse result knows the key is not __proto__ (found and guards fix ed9c558: own __proto__ keys of JSON.parse output were dropped / became the prototype). Both confirmed by executing the real runtime under node.",
    "C08": "C08.14 (= C13.12) the structural hashes of unions and intersections do not depend on the order - i.e. on the names - of their members (4 recorded findings, confirmed by executing the real runtime under node).",
    "C13": "C13.12 a digest specified to be independent of member order and of type names folds the members of a union / intersection commutatively or in a name-free canonical order (recorded findings: AnyOfRuntype / AllOfRuntype .hash and .hash256 write list order, and the compiler lists named members by name).",
    "C15": "C15.16 describe() never prints a mapped member `[K in ..]` inside braces that also hold declared properties (recorded finding: such text is not TypeScript and does not compile back).",
}
ADDED_B14 = {
    "C01": "Added after the fourteenth batch: C01.26 a conditional type is decided by one inclusion test of the checked type as written (no distribution over a resolved union unless guarded by the type-parameter scope).",
    "C02": "Added after the fourteenth batch: C02.12 also demands that the narrowing of the schema table does not hang on a flag.",
    "C04": "Added after the fourteenth batch: C04.11 a loop that follows references through a definition table records where it has been (visited set or fuel).",
    "C05": "Added after the fourteenth batch: C05.15 the reference -> atom memo of the converter is keyed by the whole reference (name and type arguments), decided on the types.",
    "C06": "Added after the fourteenth batch: C06.7 the whole-type operations match every answer (all / proper) the per-tag diagram operations can construct; the arm algebra interprets constructor helpers that take a variant constructor as a value.",
    "C07": "Added after the fourteenth batch: C07.14 (= C01.18) the rest element of a list atom takes part in indexed access from the index that equals the prefix length.",
    "C08": "Added after the fourteenth batch: C08.15 (= C01.7) rebuilding a type from the parts of a matched node carries over all its constraints (interface vs alias spelling).",
    "C09": "Added after the fourteenth batch: C09.18 the type-only markers of import / export lists take no part in binding (canary control).",
    "C10": "Added after the fourteenth batch: C10.7 no type in the closure of serialised types holds a HashMap / HashSet (derived Serialize iterates without a loop in the source).",
    "C11": "Added after the fourteenth batch: C11.9 every intersection built by the interface lowering is offered to the flattening into one closed object.",
    "C12": "Added after the fourteenth batch: C12.12 (= C11.2 + C03.2) reporters tell declared from undeclared keys as validate does.",
    "C15": "Added after the fourteenth batch: C15.17 the mapped-type lowering has an evaluation of the member type outside the key variable's scope (necessary for the `[K in ..]` text describe() prints to mean the index signature it came from).",
    "C16": "Added after the fourteenth batch: C16.2 also demands that no method both marks a name in progress and writes the definition table.",
}
for _k, _v in ADDED_B14.items():
    ADDED_B13[_k] = (ADDED_B13.get(_k, "") + " " + _v).strip()
for _k, _v in ADDED_B13B.items():
    ADDED_B13[_k] = (ADDED_B13.get(_k, "") + " " + _v).strip()
for _k, _v in ADDED_B11.items():
    ADDED_B10[_k] = (ADDED_B10.get(_k, "") + " " + _v).strip()
for _k, _v in ADDED_B12.items():
    ADDED_B10[_k] = (ADDED_B10.get(_k, "") + " " + _v).strip()
for _k, _v in ADDED_B13.items():
    ADDED_B10[_k] = (ADDED_B10.get(_k, "") + " " + _v).strip()
for _k in ADDED_B10:
    if _k not in CLAIMED:
        raise SystemExit("unknown property " + _k)
for _k, _v in ADDED_B10.items():
    CLAIMED[_k]["text"] = CLAIMED[_k]["text"] + " " + _v

ADDED_B15 = {
    "C01": "Added after the fifteenth batch: C01.27 no answer is taken from ONE member of an intersection (no loop over the members of an AllOf payload leaves with a member-derived value, no find / next over it).",
    "C02": "Added after the fifteenth batch: C02.23 (= C16.11) a definition name the runtime makes up for a structure derives from a collision-resistant digest, not from the 32-bit hash() - 1 known finding, executed under node (two unions whose 32-bit hashes coincide share their variant definitions; the first printed wins).",
    "C03": "Added after the fifteenth batch: C03.21 a class with child validators hands back its input itself only where a test established that it is not an object; C03.22 the deep merge of parse results skips no key by name and uses no `in` on data (found and guards fix 7ff79df: {constructor: string} | {b: number} parsed {constructor: 'x'} to {}, executed under node before and after).",
    "C04": "Added after the fifteenth batch: C04.12 the validator table of a discriminated union narrows the variants listed together to the entry's key (guards fix 3755d7e: a valid non-recursive union overflowed the printer's stack); C04.13 (= C09.19) a set-once slot - a setter that panics when called twice, found by shape - is reached at most once on any path through one processed export item, counting keyed wrappers whose key derives from export-specifier syntax and is not excluded by a guard (path counter over the typed HIR).",
    "C05": "Added after the fifteenth batch: C05.16 an index signature's value type read as the type of ONE admitted key goes through make_optional (or sits under a finiteness guard on the key type).",
    "C07": "Added after the fifteenth batch: C07.15 a semantic operator that calls the projections of two structural families (lists, mappings) evaluates each on every path to a value exit and each result reaches the returned value.",
    "C08": "Added after the fifteenth batch: C08.16 no runtime class applies an own-only (hasOwnProperty-guarded) getter to the input; C08.17 the scope of a declaration's type parameters covers every converted part of the declaration (found and guards fix 774977d: `interface Child<T> extends Base<T>` failed to resolve T while the equivalent alias compiled).",
    "C09": "Added after the fifteenth batch: C09.19 (= C04.13) set-once slots; C09.20 sibling agreement of registration routes - every function of the binder that registers an export payload variant registers it in the same namespaces (7 payloads; the one deviant was a genuine defect, fix 5edde90: an enum exported through an export list was a type only).",
    "C13": "Added after the fifteenth batch: C13.13 a number literal is encoded with the shortest round-trip rendering only (allow-list of calls on the value in the number writer and its helpers; no arithmetic).",
    "C16": "Added after the fifteenth batch: C16.10 no method of the printing context applies a function to a definition name and the export keeps the table's keys; C16.11 (= C02.23) made-up definition names derive from a collision-resistant digest - 1 known finding, executed under node.",
}
for _k, _v in ADDED_B15.items():
    CLAIMED[_k]["text"] = CLAIMED[_k]["text"] + " " + _v

ADDED_B16 = {
    "C01": "Added after the sixteenth batch: C01.28 Required / Partial flip the optionality of object members and rebuild no member type.",
    "C02": "Added after the sixteenth batch: C02.24 (= C16.8 lifted) the $ref text is a pure function of the name and a definition is stored under its own name.",
    "C04": "Added after the sixteenth batch: the census classifies further std APIs that panic on their arguments (String::truncate / replace_range, Vec::splice ..).",
    "C05": "Added after the sixteenth batch: C05.17 the positive argument of an emptiness procedure is never an element of a list of atomic types (negatives are not compared with the exact-vs-structural procedure).",
    "C07": "Added after the sixteenth batch: C07.16 in the region that subtracts semantic types and materialises the result, no Runtype of an operand reaches the value handed to code generation (taint with the semantic conversion as the barrier).",
    "C08": "Added after the sixteenth batch: C08.18 outside the printer no condition, match scrutinee or arm guard reads the metadata (descriptions from comments) of a type.",
    "C09": "Added after the sixteenth batch: C09.21 a frontend function that takes a Visibility reads it on every path to a value exit - 2 known findings, executed (import(\"./t\").Date is the built-in Date; typeof import(\"./t\").priv.a reaches a non-exported const).",
    "C10": "Added after the sixteenth batch: C10.8 (= C14.10 + C14.6 lifted) the watch glue forwards every change event to the compiler's registry unconditionally.",
    "C12": "Added after the sixteenth batch: C12.13 a reporter's loop over the input skips an element only on the outcome of validating it.",
    "C15": "Added after the sixteenth batch: C15.18 printed type text (results of describeTypeExpr / describe, description-record fields filled with them, helper parameters handed them) is never edited as a string.",
    "C16": "Added after the sixteenth batch: C16.12 (= C13.10 lifted) hash() / hash256() keep no state on the validator instances, so the made-up definition names do not depend on which parser was hashed first.",
}
for _k, _v in ADDED_B16.items():
    CLAIMED[_k]["text"] = CLAIMED[_k]["text"] + " " + _v

ADDED_B17 = {
    "C03": "Added after the seventeenth batch: C03.24 a parseAfterValidation method that asks several child validators to parse the SAME input combines their results with the module's deep merge, never with an object spread / Object.assign (found and guards fix 739e3a7: `{a: {x: string}} & {a: {y: number}}` parsed `{a: {x, y}}` to `{a: {y}}`, executed under node before and after).",
    "C01": "Added after the seventeenth batch: C01.3 also reads the single-pass form whose table is one string constant (`SPECIAL.contains(c)`) and names the missing character; C01.29 (= C07.18) a member is taken out of a union accumulator only by a payload-precise pattern; C01.20 no longer counts the recursive descent into the general converter as a consultation of the engine.",
    "C04": "Added after the seventeenth batch: C04.3a judges a visited set that travels as a parameter per cycle (void on the cycles through the function that creates it afresh; three recorded recursion edges repaired by fix 0c29580: a namespace value that contains itself is a diagnostic now); C04.14 a comparator handed to a standard sort (closure and the Ordering-valued compiler functions it calls) contains no if / match - the standard sort panics on an inconsistent comparator once the slice has more than 20 elements; C04.13 reads the non-panicking refusal of a set-once setter and demands that the refusal mark is tested by a function that leaves when it is set (guards fix 76e8a71: a second default export panicked in the binder; now an error of the module).",
    "C05": "Added after the seventeenth batch: C05.13 excludes routes back through the region's own function when it decides whether a callee contains the engine call, and accepts a memo read as an engine answer only when the table is filled with engine answers alone and its key covers both operands of the question (the report names the uncovered operand).",
    "C07": "Added after the seventeenth batch: C07.17 (= C11.10) a raw RuntypeKind::AllOf is constructed by the merging smart constructor only, or consumed by the semantic engine on the spot; C07.18 a predicate that selects members of a set of Runtypes for removal leaves no payload that is a multi-variant enum unconstrained (`Const(_)`).",
    "C08": "Added after the seventeenth batch: C08.19 (= C09.22) inside the hoist-key converters every call of a compiler function is another converter of the table or Clone::clone - a key never carries a value computed from the payload (a printed name).",
    "C09": "Added after the seventeenth batch: C09.23 every function that enumerates a module's export tables also reads its `export *` list (found and guards fix 72dd0ae: `typeof NS` over a barrel lost what the barrel re-exports with `export *`); C09.22 (= C08.19) the hoist key of a reference carries the reference whole (file, name, type arguments): same-named types of two files cannot share a hoisted validator.",
    "C11": "Added after the seventeenth batch: C11.10 (= C07.17) who may construct a raw intersection: object members reach the runtime merged into one closed object, because every RuntypeKind::AllOf construction lies in the merging smart constructor or is consumed by the engine on the spot (necessary given recorded finding C11.3).",
    "C12": "Added after the seventeenth batch: C12.14 the `errors` member of a value tested with `\"isUnionError\" in v` is read only as the direct argument of a number-valued function (the depth measure): a reporter never re-parents the branch errors of a nested union error, whose paths are relative to it; C12.15 between pushPath(ctx, K) with K a bare property / index identifier and the matching popPath no reporter receives K itself as the value (1 known finding, executed under node: the key error of an index signature carries the key as `received` at the path of the value).",
    "C13": "Added after the seventeenth batch: C13.14 every method of the digest writer other than the finaliser that raises the fill level of the block buffer is followed, in the same statement list, by the flush `if (fill === 64) {compress; fill = 0}` - the finaliser's padding byte always fits; C13.3 also recognises a single-byte writer that stores its byte in the block buffer itself.",
    "C15": "Added after the seventeenth batch: C15.19 cross-language agreement on the spelling of a tuple rest: the runtime prints `...Array<T>`, the tuple lowering demands an array node, so the arm of the `Array` builtin builds its value with the array constructor only.",
}
for _k, _v in ADDED_B17.items():
    CLAIMED[_k]["text"] = CLAIMED[_k]["text"] + " " + _v

ADDED_B18 = {
    "C01": "Added after the eighteenth batch: C01.30 (= C05.18) the inclusion of two custom formats is a set inclusion of their brands, never a positional comparison.",
    "C02": "Added after the eighteenth batch: C02.25 (= C16.13) no schema() method assigns a field of the printing context; C02.26 the null-branch remover of the post-processing module answers `null` on the bare test `kept.length === all.length` (ObjectRuntype.schema reads any other answer as `nullable` and drops the property from `required`).",
    "C03": "Added after the eighteenth batch: C03.26 no validate / parseAfterValidation / reportDecodeError method calls a method looked up on the input itself (found and guards fix 56a23a7: an array with an own `map` property made parse return what that function returns; executed under node before and after); C03.25 no validate() method assigns or updates a field of its context parameter (parse re-validates every union branch with one context).",
    "C04": "Added after the eighteenth batch: C04.15 the visitor that discovers the buildParsers call overrides no visit_* method with an empty body.",
    "C05": "Added after the eighteenth batch: C05.18 custom formats compare as brand sets; C05.19 (= C07.19) the converter's Ref arm never answers a reference with an unknown / never constant.",
    "C06": "Added after the eighteenth batch: C06.10 the inclusion test of two template-literal types never answers in a catch-all arm (string-table entries stay nested or disjoint).",
    "C07": "Added after the eighteenth batch: C07.19 a reference the converter cannot resolve is an error, never an approximation (an approximation is sound in one polarity only; Exclude's post-pass negates).",
    "C08": "Added after the eighteenth batch: C08.20 (= C13.16) hash256 methods outside the reference classes do not test a child with instanceof <reference / union / intersection class> and do not resolve references themselves.",
    "C09": "Added after the eighteenth batch: C09.24 inside a loop over the `export *` list of a module there is no explicit `return None` / `break` (the search is ended only by a hit).",
    "C10": "Added after the eighteenth batch: C10.1 accepts a sort BY KEY of a Vec filled in hash order only when the key closure reads a reviewed unique key (tables/c10_unique_sort_keys.json); a plain sort of an Ord element stays accepted.",
    "C11": "Added after the eighteenth batch: C11.11 (= C04.12 lifted) the cases of a discriminated union's dispatch table declare the discriminator, narrowed to the case's key.",
    "C12": "Added after the eighteenth batch: C12.16 an assignment to the report context's path has an array literal or a local saved from ctx.path on its right-hand side, never instance state.",
    "C13": "Added after the eighteenth batch: C13.15 every table of the digest context that a hash256 method adds to is also removed from in the same method (path bookkeeping only); C13.16 (= C08.20) hash256 is structure-directed.",
    "C15": "Added after the eighteenth batch: C15.20 the flat variant list handed to the discriminated-union class is copied out of the variant set by copying adaptors only.",
    "C16": "Added after the eighteenth batch: C16.13 no schema() method assigns a field of the printing context (no position state can leak into a stored definition).",
}
for _k, _v in ADDED_B18.items():
    CLAIMED[_k]["text"] = CLAIMED[_k]["text"] + " " + _v

NOT_APPLICABLE_REASON = {}


def main():
    props = [json.loads(l) for l in open(os.path.join(VERIF, "properties.jsonl"))]
    checks = []
    na = []
    for p in props:
        pid = p["id"]
        have = os.path.exists(os.path.join(VERIF, "rules", pid.lower() + ".py")) and pid in CLAIMED
        if have:
            c = CLAIMED[pid]
            checks.append({
                "property_id": pid,
                "quick_cmd": "./check %s --tier quick" % pid,
                "thorough_cmd": "./check %s --tier thorough" % pid,
                "evidence_file": "evidence/%s.json" % pid,
                "replay_cmd_template": "cat {path}",
                "engine": "rsfacts+tsdump+rules",
                "level_claimed": {"category": c["category"], "text": c["text"], "design_ref": c["design"]},
                "level_note": c["note"],
                "technique": c["technique"],
            })
        else:
            na.append({"property_id": pid, "reason": NOT_APPLICABLE_REASON.get(
                pid, "check not built yet (framework under construction, see DESIGN.md section 7)")})
    m = {
        "version": 1,
        "setup_cmd": "./setup.sh",
        "hooks": {
            "guard": "beff_verif",
            "enable": "none needed: the analyses read unmodified sources; no hook commits exist",
            "baseline_off_cmd": "cd /repo && cargo test --workspace --no-fail-fast --offline",
            "source_commits": [],
            "add_only": True,
        },
        "engines": [
            {"name": "rsfacts", "path": "engines/rsfacts", "serves_properties": ["C04", "C05", "C06", "C07", "C08", "C09", "C10", "C14", "C01"],
             "kind_free_text": "rustc_private driver (nightly) dumping typed HIR trees, MIR skeletons with Instance-resolved callees, ADTs, impls, statics as JSON"},
            {"name": "tsdump", "path": "engines/tsdump", "serves_properties": ["C01", "C02", "C03", "C11", "C12", "C13", "C14", "C15", "C16"],
             "kind_free_text": "swc-based dumper of the full TypeScript/JavaScript AST as JSON"},
            {"name": "rules", "path": "rules", "serves_properties": [c["property_id"] for c in checks],
             "kind_free_text": "python3 (stdlib) rule modules over the two fact bases: call-graph reachability, MIR dataflow, arm algebra, sibling agreement, typestate on the TS AST"},
        ],
        "checks": checks,
        "notes": "Static analysis only. Each check decides structural clauses (necessary conditions) of its property; the behavioural remainder is listed in DESIGN.md as not decided.",
        "not_applicable": na,
    }
    with open(os.path.join(VERIF, "MANIFEST.json"), "w") as fh:
        json.dump(m, fh, indent=1)
        fh.write("\n")
    print("claimed:", [c["property_id"] for c in checks])


if __name__ == "__main__":
    main()
