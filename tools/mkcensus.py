#!/usr/bin/env python3
"""Regenerate tables/c04_panic_census.json from the CURRENT tree's reachable diverging sites, carrying over the
reviewed class/reason of tables/c04_panic_census.old.json (old key scheme kind|msg|owner) where the entry can be
matched.  Run by hand, on a tree whose sites have been reviewed; never run by a check."""
import collections, json, os, sys
V = os.path.dirname(os.path.dirname(os.path.abspath(__file__)))
sys.path.insert(0, os.path.join(V, "lib")); sys.path.insert(0, V)
from facts import Facts
from entry import reachable
import rules.c04 as c04
F = Facts(os.path.join(V, ".cache", "facts"))
reach, parent, roots, exports = reachable(F)
old = json.load(open(sys.argv[1]))
by_km = collections.defaultdict(list)
for e in old["sites"]:
    k, m, o = e["key"].split("|", 2)
    if e.get("messages"):
        for sub in e["messages"]:
            by_km[(k, sub["msg"])].append((o, dict(sub, key=e["key"])))
    else:
        by_km[(k, m)].append((o, e))
OWNER_FILE = {"print::printer": "print/printer.rs", "subtyping::bdd": "subtyping/bdd.rs", "subtyping::mapping": "subtyping/mapping.rs",
              "subtyping::to_schema::SchemerContext": "subtyping/to_schema.rs", "frontend::FrontendCtx": "frontend/mod.rs", "frontend": "frontend/mod.rs"}
got = collections.defaultdict(list)
for s in c04.diverging_sites(F, reach):
    got[c04.site_key(s)].append(s)
sites = []
RANK = {"finding": 0, "baseline": 1, "guarded": 2, "invariant": 3, "host": 4}
for key in sorted(got):
    ss = got[key]
    kind, _, ctx = key.split("|", 2)
    msgs = collections.Counter(s.get("info") or "" for s in ss) if ss[0].get("info") is not None and kind in c04.PANIC_KINDS else None
    ent = {"key": key, "count": len(ss)}
    def lookup(kind, msg, ctx):
        c = by_km.get((kind, msg), [])
        if len(c) == 1:
            return c[0][1]
        for o, e in c:
            if OWNER_FILE.get(o) and ctx.endswith(OWNER_FILE[o]):
                return e
        for o, e in c:
            if o == ctx:
                return e
        return c[0][1] if c else None
    if msgs is not None:
        subs = []
        for m, n in sorted(msgs.items()):
            e = lookup(kind, m, ctx)
            subs.append({"msg": m, "count": n, "class": e["class"] if e else "UNREVIEWED", "reason": e["reason"] if e else "UNREVIEWED"})
        ent["class"] = sorted((x["class"] for x in subs), key=lambda c: RANK.get(c, -1))[0]
        ent["reason"] = "; ".join(sorted({x["reason"] for x in subs}))[:600]
        ent["messages"] = subs
    else:
        e = lookup(kind, "", ctx)
        if kind == "index":
            ent["class"] = "baseline"
            ent["reason"] = "Vec/slice/array indexing present at the pinned commit (len checked before, loop bounded by len, or index produced by the engine itself: INV-ATOM / INV-TAG for atom tables)"
        else:
            ent["class"] = e["class"] if e else "UNREVIEWED"
            ent["reason"] = e["reason"] if e else "UNREVIEWED"
    sites.append(ent)
out = {"_comment": "Reviewed census of diverging sites reachable from the compiler entry points. Keys are kind||context: for panic-family macros and arithmetic asserts the context is the source file (crate:path), for unwrap/expect the receiver's payload type, for indexing the index type class ([usize] or [range]; Vec `Index` calls and slice/array bounds assertions are one class), for std panicking APIs the receiver type. No function names, no line numbers, no panic messages in keys. The reachable multiset may shrink but not grow. `messages` lists, per class, the panic messages seen at review time with their individual classification (informative, except that a message of class `finding` identifies a site with a known witness input, listed in known_findings.json). class: guarded (local guard, confirmed by reading) | invariant (named engine invariant with its own rule) | host (wasm boundary) | baseline (present at the pinned commit, not individually discharged) | finding.",
       "sites": sites}
json.dump(out, open(os.path.join(V, "tables", "c04_panic_census.json"), "w"), indent=1)
print(len(sites), "keys;", sum(e["count"] for e in sites), "sites;", [e["key"] for e in sites if "UNREVIEWED" in json.dumps(e)])
