#!/bin/bash
# usage: tools/evalpatch.sh <patch> [PROP...]   (developer tool) apply a patch to a scratch COPY of /repo's working tree
# (outside /repo and /verif, removed afterwards) and run the checks on it as sub-runs: /repo itself is not touched, so
# several evaluations can run side by side.  Prints one line per property that reports something.
set -u
PATCH=$(readlink -f "$1"); shift
PROPS="$@"; [ -z "$PROPS" ] && PROPS="C01 C02 C03 C04 C05 C06 C07 C08 C09 C10 C11 C12 C13 C14 C15 C16"
S=$(mktemp -d /var/tmp/beff-evalpatch.XXXXXX)
trap 'rm -rf "$S"' EXIT
export VERIF_TARGET=${VERIF_TARGET:-/var/tmp/beff-evalpatch-target}
rsync -a --exclude target --exclude .git --exclude node_modules /repo/ $S/repo/
( cd $S/repo && git init -q && git apply "$PATCH" ) || { echo "patch does not apply"; exit 3; }
mkdir -p $S/cache
for p in $PROPS; do
  out=$(VERIF_REPO=$S/repo VERIF_CACHE=$S/cache /verif/check $p --tier quick --subrun 2>&1); rc=$?
  keys=$(echo "$out" | grep "^SUBRUN-KEYS: " | cut -c14-)
  if [ $rc -ne 0 ]; then echo "== $p exit=$rc $keys"; [ $rc -ge 2 ] && echo "$out" | tail -5; fi
done
echo "done $(basename $PATCH)"
