#!/usr/bin/env python3
"""Developer tool (NOT a check): erase the TypeScript-only syntax of the client runtime using the spans of the swc
AST dumps (engines/tsdump) and write ONE plain-JS file that node can run, so that a suspected defect of the runtime
(or the behaviour of an emitted module) can be confirmed by executing the real code instead of a hand-port.

usage: tools/tsstrip.py [--repo DIR] OUT.js      (module order: hash, err, openapi-pp, codegen-v2, b)

The output defines everything at top level (imports / exports removed) and ends with
`module.exports = { ...all top-level class / function / const names }`.
"""
import json, os, re, subprocess, sys, tempfile

VERIF = os.path.dirname(os.path.dirname(os.path.abspath(__file__)))
FILES = ["hash.ts", "err.ts", "openapi-pp.ts", "codegen-v2.ts", "b.ts"]


def walk(n):
    if isinstance(n, dict):
        yield n
        for v in n.values():
            yield from walk(v)
    elif isinstance(n, list):
        for v in n:
            yield from walk(v)


def strip(src, ast, base):
    edits = []  # (lo, hi, replacement)

    def rng(node):
        return node["span"]["start"] - base, node["span"]["end"] - base

    def delete(node):
        lo, hi = rng(node)
        edits.append((lo, hi, b""))

    names = []
    imports = []    # (module file stem, [(imported, local)])
    for it in ast["body"]:
        t = it["type"]
        lo, hi = rng(it)
        if t == "ImportDeclaration":
            stem = os.path.basename(it["source"]["value"]).replace(".js", "")
            specs = []
            for sp in it.get("specifiers", []):
                if sp["type"] == "ImportSpecifier" and not sp.get("isTypeOnly"):
                    specs.append(((sp.get("imported") or sp["local"])["value"], sp["local"]["value"]))
            if not it.get("typeOnly"):
                imports.append((stem, specs))
            edits.append((lo, hi, b""))
            continue
        if t == "ExportNamedDeclaration" or t == "ExportAllDeclaration":
            if t == "ExportNamedDeclaration" and it.get("source") is not None and not it.get("typeOnly"):
                stem = os.path.basename(it["source"]["value"]).replace(".js", "")
                specs = [((sp.get("exported") or sp["orig"])["value"], sp["orig"]["value"]) for sp in it.get("specifiers", []) if sp["type"] == "ExportSpecifier"]
                for e, o in specs:
                    names.append("%s: M_%s.%s" % (e, stem.replace("-", "_"), o))
            edits.append((lo, hi, b""))
            continue
        decl = it["declaration"] if t == "ExportDeclaration" else it
        if t == "ExportDeclaration":
            dlo, _ = rng(decl)
            edits.append((lo, dlo, b""))
        dt = decl["type"]
        if dt in ("TsInterfaceDeclaration", "TsTypeAliasDeclaration", "TsEnumDeclaration", "TsModuleDeclaration"):
            edits.append((lo, hi, b""))
            continue
        if dt == "ClassDeclaration":
            names.append(decl["identifier"]["value"])
        elif dt == "FunctionDeclaration":
            if decl.get("body") is None:
                edits.append((lo, hi, b""))
                continue
            names.append(decl["identifier"]["value"])
        elif dt == "VariableDeclaration":
            if decl.get("declare"):
                edits.append((lo, hi, b""))
                continue
            for d in decl["declarations"]:
                if d["id"].get("type") == "Identifier":
                    names.append(d["id"]["value"])
    for n in walk(ast):
        t = n.get("type")
        if t in ("TsTypeAnnotation", "TsTypeParameterDeclaration", "TsTypeParameterInstantiation", "TsIndexSignature"):
            delete(n)
        elif t in ("TsAsExpression", "TsSatisfiesExpression", "TsConstAssertion"):
            _, ehi = rng(n["expression"])
            _, hi = rng(n)
            edits.append((ehi, hi, b""))
        elif t == "TsNonNullExpression":
            _, ehi = rng(n["expression"])
            _, hi = rng(n)
            edits.append((ehi, hi, b""))
        elif t == "TsTypeAssertion":
            lo, _ = rng(n)
            elo, _ = rng(n["expression"])
            edits.append((lo, elo, b""))
        elif t in ("ClassDeclaration", "ClassExpression"):
            lo, hi = rng(n)
            head_end = src.index(b"{", (rng(n["superClass"])[1] if n.get("superClass") else (rng(n["identifier"])[1] if n.get("identifier") else lo)))
            head = src[lo:head_end]
            m = re.search(rb"\bimplements\b[^{]*$", head)
            if m:
                edits.append((lo + m.start(), head_end, b""))
            if n.get("isAbstract"):
                m2 = re.search(rb"\babstract\s+", src[max(0, lo - 16):lo + 10])
                if m2:
                    s0 = max(0, lo - 16) + m2.start()
                    edits.append((s0, s0 + len(m2.group(0)), b""))
            for mem in n.get("body", []):
                mt = mem.get("type")
                mlo, mhi = rng(mem)
                if mem.get("isAbstract") or mem.get("declare") or (mt in ("ClassMethod", "PrivateMethod") and mem["function"].get("body") is None):
                    edits.append((mlo, mhi, b""))
                    continue
                key = mem.get("key")
                if key is not None and "span" in key:
                    klo, khi = rng(key)
                    pre = src[mlo:klo]
                    pre2 = re.sub(rb"\b(private|public|protected|readonly|override|abstract|declare)\b\s*", b"", pre)
                    if pre2 != pre:
                        edits.append((mlo, klo, pre2))
                    # `name?:` / `name!:`
                    after = src[khi:khi + 2]
                    if mt in ("ClassProperty", "PrivateProperty") and after[:1] in (b"?", b"!"):
                        edits.append((khi, khi + 1, b""))
        elif t == "Parameter" or (t == "Identifier" and n.get("optional")):
            pat = n.get("pat", n)
            if pat.get("type") == "Identifier" and pat.get("optional"):
                plo, phi = rng(pat)
                m = re.match(rb"[A-Za-z_$][\w$]*\s*\?", src[plo:phi + 2])
                if m:
                    q = plo + m.end() - 1
                    edits.append((q, q + 1, b""))
        elif t == "TsParameterProperty":
            raise SystemExit("constructor parameter properties are not supported by this stripper")
    # apply, outermost first; drop edits nested inside a deleted range
    edits.sort(key=lambda e: (e[0], -(e[1] - e[0])))
    out, pos = [], 0
    for lo, hi, rep in edits:
        if lo < pos:
            continue
        out.append(src[pos:lo])
        out.append(rep)
        pos = hi
    out.append(src[pos:])
    return b"".join(out), names, imports


def main():
    args = sys.argv[1:]
    repo = "/repo"
    if args and args[0] == "--repo":
        repo = args[1]
        args = args[2:]
    out = args[0]
    tsdump = os.path.join(VERIF, "engines/tsdump/target/release/tsdump")
    tmp = tempfile.mkdtemp(prefix="tsstrip")
    srcdir = os.path.join(repo, "packages/beff-client/src")
    paths = [os.path.join(srcdir, f) for f in FILES]
    subprocess.check_call([tsdump, tmp] + paths, stdout=subprocess.DEVNULL)
    chunks, allnames = [], []
    stems = [f[:-3] for f in FILES]
    for f, p in zip(FILES, paths):
        name = "".join(c if (c.isalnum() or c in ".-") else "_" for c in p).lstrip("_")
        d = json.load(open(os.path.join(tmp, name + ".json")))
        src = open(p, "rb").read()
        js, names, imports = strip(src, d["module"], d["start_pos"])
        stem = f[:-3]
        pre = b""
        for (m, specs) in imports:
            if m in stems and specs:
                pre += ("const { %s } = M_%s;\n" % (", ".join(i if i == l else "%s: %s" % (i, l) for i, l in specs), m.replace("-", "_"))).encode()
        uniq = []
        for n in names:
            if n not in uniq:
                uniq.append(n)
        chunks.append(b"// ---- " + f.encode() + b"\nconst M_" + stem.replace("-", "_").encode() + b" = (() => {\n" + pre + js +
                      b"\nreturn { " + ", ".join(uniq).encode() + b" };\n})();\n")
        allnames += [(stem.replace("-", "_"), n.split(":")[0]) for n in uniq]
    exp = {}
    for m, n in allnames:
        exp[n] = m
    body = b"'use strict';\n" + b"\n".join(chunks) + b"\nmodule.exports = { " + ", ".join("%s: M_%s.%s" % (n, m, n) for n, m in exp.items()).encode() + b" };\n"
    uniq = list(exp)
    open(out, "wb").write(body)
    r = subprocess.run(["node", "--check", out], capture_output=True, text=True)
    print("wrote %s (%d bytes, %d top-level names); node --check: %s" % (out, len(body), len(uniq), "ok" if r.returncode == 0 else r.stderr[:1500]))


main()
