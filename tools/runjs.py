#!/usr/bin/env python3
"""Developer tool (NOT a check): run a JavaScript snippet against the REAL runtime (type-stripped by tools/tsstrip.py)
and the module the compiler emits for a witness input (tools/witness.py must have built its example once, --keep).

usage: tools/runjs.py witness/<name>.json 'console.log(P.T.safeParse({..}))'
In the snippet: P = the parsers (buildParsers()), R = the runtime exports (classes, SchemaPrintingContext, b..), named = namedRuntypes."""
import json, os, subprocess, sys, tempfile
VERIF = os.path.dirname(os.path.dirname(os.path.abspath(__file__)))
WIT = "/var/tmp/beff-witness-target/debug/examples/witness"
def main():
    w, snippet = sys.argv[1], sys.argv[2]
    tmp = tempfile.mkdtemp(prefix="runjs")
    rt = os.path.join(tmp, "runtime.cjs")
    subprocess.check_call([sys.executable, os.path.join(VERIF, "tools/tsstrip.py"), rt], stdout=subprocess.DEVNULL)
    out = subprocess.run([WIT, w], capture_output=True, text=True).stdout
    if not out.startswith("RESULT: CODE"):
        print(out[:600]); sys.exit(1)
    emitted = out.split("\n", 1)[1]
    glue = open("/repo/packages/beff-wasm/bundled-code/codegen-v2.js").read()
    i = glue.index("import {"); j = glue.index('from "@beff/client/codegen-v2";') + len('from "@beff/client/codegen-v2";')
    names = glue[i + len("import {"):glue.index("}", i)]
    glue = glue[:i] + "const R = require(%s);\nconst {%s} = R;\n" % (json.dumps(rt), names) + glue[j:]
    prog = glue + "\nconst RequiredStringFormats = [];\nconst RequiredNumberFormats = [];\n" + emitted + \
        "\nconst named = namedRuntypes;\nconst P = buildParsers({});\n" + snippet + "\n"
    f = os.path.join(tmp, "prog.cjs")
    open(f, "w").write(prog)
    r = subprocess.run(["node", f], capture_output=True, text=True)
    sys.stdout.write(r.stdout); sys.stderr.write(r.stderr[-1500:])
main()
