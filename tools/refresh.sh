#!/bin/bash
# re-run every claimed check on /repo's (clean) working tree so that the committed evidence files come from the unchanged tree
cd /verif
if [ -n "$(git -C /repo status --short)" ]; then echo "WARNING: /repo has uncommitted changes"; git -C /repo status --short; fi
rc=0
for p in $(python3 -c "import json;print(' '.join(c['property_id'] for c in json.load(open('MANIFEST.json'))['checks']))"); do
  ./check $p --tier quick > /tmp/refresh.$p.log 2>&1; r=$?
  tail -1 /tmp/refresh.$p.log
  if [ $r -ne 0 ]; then rc=1; echo "  -> exit $r"; fi
done
python3-vt tools/validate.py | tail -1
exit $rc
