use crate::json::J;
use crate::macro_names;
use rustc_hir as hir;
use rustc_hir::def::Res;
use rustc_hir::def_id::LocalDefId;
use rustc_middle::ty::{self, TyCtxt, TypeckResults};

struct Cx<'tcx> {
    tcx: TyCtxt<'tcx>,
    tr: &'tcx TypeckResults<'tcx>,
    tenv: ty::TypingEnv<'tcx>,
}

pub fn dump_body<'tcx>(tcx: TyCtxt<'tcx>, ldid: LocalDefId) -> J {
    let body = tcx.hir_body_owned_by(ldid);
    let tr = tcx.typeck(ldid);
    let cx = Cx { tcx, tr, tenv: ty::TypingEnv::post_analysis(tcx, ldid.to_def_id()) };
    let mut o = J::obj();
    o.set("params", J::arr(body.params.iter().map(|p| cx.pat(p.pat)).collect()));
    o.set("body", cx.expr(body.value));
    o
}

impl<'tcx> Cx<'tcx> {
    fn line(&self, sp: rustc_span::Span) -> i64 {
        let sm = self.tcx.sess.source_map();
        sm.lookup_char_pos(sp.source_callsite().lo()).line as i64
    }

    fn res(&self, o: &mut J, res: Res) {
        match res {
            Res::Def(kind, did) => {
                o.set("res", J::s("def"));
                o.set("def", J::s(&self.tcx.def_path_str(did)));
                o.set("defkind", J::s(&format!("{:?}", kind)));
                o.set("def_local", J::b(did.is_local()));
            }
            Res::Local(hid) => {
                o.set("res", J::s("local"));
                o.set("name", J::s(&self.tcx.hir_name(hid).to_string()));
                o.set("lid", J::s(&format!("{}.{}", hid.owner.def_id.local_def_index.as_usize(), hid.local_id.as_usize())));
            }
            Res::SelfCtor(_) => o.set("res", J::s("selfctor")),
            Res::SelfTyAlias { .. } | Res::SelfTyParam { .. } => o.set("res", J::s("selfty")),
            Res::PrimTy(_) => o.set("res", J::s("prim")),
            _ => o.set("res", J::s("other")),
        }
    }

    fn node(&self, k: &str, sp: rustc_span::Span) -> J {
        let mut o = J::obj();
        o.set("k", J::s(k));
        o.set("line", J::n(self.line(sp)));
        if sp.from_expansion() {
            let m = macro_names(sp);
            if !m.is_empty() {
                o.set("mac", J::arr(m.iter().map(|s| J::s(s)).collect()));
            }
        }
        o
    }

    fn opt_expr(&self, e: Option<&hir::Expr<'tcx>>) -> J {
        match e {
            Some(e) => self.expr(e),
            None => J::Null,
        }
    }

    fn block(&self, b: &hir::Block<'tcx>) -> J {
        let mut o = self.node("Block", b.span);
        let mut stmts = vec![];
        for s in b.stmts {
            match s.kind {
                hir::StmtKind::Let(l) => {
                    let mut so = self.node("LetStmt", s.span);
                    so.set("pat", self.pat(l.pat));
                    so.set("init", self.opt_expr(l.init));
                    so.set("els", match l.els {
                        Some(b) => self.block(b),
                        None => J::Null,
                    });
                    stmts.push(so);
                }
                hir::StmtKind::Expr(e) => {
                    let mut so = self.node("ExprStmt", s.span);
                    so.set("e", self.expr(e));
                    stmts.push(so);
                }
                hir::StmtKind::Semi(e) => {
                    let mut so = self.node("Semi", s.span);
                    so.set("e", self.expr(e));
                    stmts.push(so);
                }
                hir::StmtKind::Item(_) => {}
            }
        }
        o.set("stmts", J::arr(stmts));
        o.set("expr", self.opt_expr(b.expr));
        o
    }

    fn adt_of(&self, t: ty::Ty<'tcx>) -> Option<String> {
        let mut t = t;
        loop {
            match t.kind() {
                ty::Ref(_, inner, _) => t = *inner,
                ty::Adt(adt, _) => return Some(self.tcx.def_path_str(adt.did())),
                _ => return None,
            }
        }
    }

    fn expr(&self, e: &hir::Expr<'tcx>) -> J {
        use hir::ExprKind::*;
        // transparent wrappers
        match e.kind {
            DropTemps(inner) | Use(inner, _) | Type(inner, _) => return self.expr(inner),
            _ => {}
        }
        let kname = match e.kind {
            ConstBlock(..) => "ConstBlock",
            Array(..) => "Array",
            Call(..) => "Call",
            MethodCall(..) => "MethodCall",
            Tup(..) => "Tup",
            Binary(..) => "Binary",
            Unary(..) => "Unary",
            Lit(..) => "Lit",
            Cast(..) => "Cast",
            Let(..) => "Let",
            If(..) => "If",
            Loop(..) => "Loop",
            Match(..) => "Match",
            Closure(..) => "Closure",
            Block(..) => "BlockExpr",
            Assign(..) => "Assign",
            AssignOp(..) => "AssignOp",
            Field(..) => "Field",
            Index(..) => "Index",
            Path(..) => "Path",
            AddrOf(..) => "AddrOf",
            Break(..) => "Break",
            Continue(..) => "Continue",
            Ret(..) => "Ret",
            Struct(..) => "Struct",
            Repeat(..) => "Repeat",
            _ => "Other",
        };
        let mut o = self.node(kname, e.span);
        if let Some(t) = self.tr.expr_ty_opt(e) {
            o.set("ty", J::s(&t.to_string()));
        }
        match e.kind {
            Array(es) | Tup(es) => o.set("es", J::arr(es.iter().map(|x| self.expr(x)).collect())),
            Call(f, args) => {
                o.set("f", self.expr(f));
                o.set("args", J::arr(args.iter().map(|x| self.expr(x)).collect()));
                if let hir::ExprKind::Path(ref qp) = f.kind {
                    let res = self.tr.qpath_res(qp, f.hir_id);
                    if let Res::Def(_, did) = res {
                        o.set("callee", J::s(&self.tcx.def_path_str(did)));
                        // try to resolve trait-associated fns (e.g. Into::into, Default::default)
                        if let Some(args) = self.tr.node_args_opt(f.hir_id) {
                            if self.tcx.trait_of_assoc(did).is_some() {
                                let r = std::panic::catch_unwind(std::panic::AssertUnwindSafe(|| {
                                    ty::Instance::try_resolve(self.tcx, self.tenv, did, args)
                                }));
                                if let Ok(Ok(Some(inst))) = r {
                                    o.set("resolved", J::s(&self.tcx.def_path_str(inst.def_id())));
                                }
                                if let Some(st) = args.types().next() {
                                    o.set("self_ty", J::s(&st.to_string()));
                                }
                            }
                        }
                    }
                }
            }
            MethodCall(seg, recv, args, _) => {
                o.set("method", J::s(&seg.ident.to_string()));
                o.set("recv", self.expr(recv));
                o.set("args", J::arr(args.iter().map(|x| self.expr(x)).collect()));
                if let Some(did) = self.tr.type_dependent_def_id(e.hir_id) {
                    o.set("callee", J::s(&self.tcx.def_path_str(did)));
                    o.set("callee_local", J::b(did.is_local()));
                    let targs = self.tr.node_args(e.hir_id);
                    let r = std::panic::catch_unwind(std::panic::AssertUnwindSafe(|| {
                        ty::Instance::try_resolve(self.tcx, self.tenv, did, targs)
                    }));
                    if let Ok(Ok(Some(inst))) = r {
                        o.set("resolved", J::s(&self.tcx.def_path_str(inst.def_id())));
                        o.set("resolved_full", J::s(&self.tcx.def_path_str_with_args(inst.def_id(), inst.args)));
                    }
                }
                let rt = self.tr.expr_ty_adjusted(recv);
                o.set("recv_ty", J::s(&rt.to_string()));
            }
            Binary(op, l, r) => {
                o.set("op", J::s(&format!("{:?}", op.node)));
                o.set("l", self.expr(l));
                o.set("r", self.expr(r));
                if let Some(did) = self.tr.type_dependent_def_id(e.hir_id) {
                    o.set("callee", J::s(&self.tcx.def_path_str(did)));
                }
            }
            Unary(op, x) => {
                o.set("op", J::s(&format!("{:?}", op)));
                o.set("e", self.expr(x));
            }
            Lit(lit) => {
                use rustc_ast::LitKind;
                let (lk, v) = match lit.node {
                    LitKind::Str(s, _) => ("str", s.to_string()),
                    LitKind::Int(n, _) => ("int", n.to_string()),
                    LitKind::Bool(b) => ("bool", b.to_string()),
                    LitKind::Char(c) => ("char", c.to_string()),
                    LitKind::Float(s, _) => ("float", s.to_string()),
                    LitKind::Byte(b) => ("byte", b.to_string()),
                    LitKind::ByteStr(ref bs, _) => (
                        "bytes",
                        bs.as_byte_str().iter().map(|b| format!("{:02x}", b)).collect::<String>(),
                    ),
                    _ => ("other", String::new()),
                };
                o.set("lit", J::s(lk));
                o.set("v", J::s(&v));
            }
            Cast(x, _) => o.set("e", self.expr(x)),
            Let(l) => {
                o.set("pat", self.pat(l.pat));
                o.set("init", self.expr(l.init));
            }
            If(c, t, el) => {
                o.set("cond", self.expr(c));
                o.set("then", self.expr(t));
                o.set("else", self.opt_expr(el));
            }
            Loop(b, _, src, _) => {
                o.set("src", J::s(&format!("{:?}", src)));
                o.set("body", self.block(b));
            }
            Match(s, arms, src) => {
                o.set("src", J::s(&format!("{:?}", src)));
                o.set("scrut", self.expr(s));
                let st = self.tr.expr_ty_adjusted(s);
                if let Some(a) = self.adt_of(st) {
                    o.set("scrut_adt", J::s(&a));
                }
                let mut av = vec![];
                for a in arms {
                    let mut ao = self.node("Arm", a.span);
                    ao.set("pat", self.pat(a.pat));
                    ao.set("guard", self.opt_expr(a.guard));
                    ao.set("body", self.expr(a.body));
                    av.push(ao);
                }
                o.set("arms", J::arr(av));
            }
            Closure(c) => {
                o.set("def", J::s(&self.tcx.def_path_str(c.def_id.to_def_id())));
                let b = self.tcx.hir_body(c.body);
                o.set("params", J::arr(b.params.iter().map(|p| self.pat(p.pat)).collect()));
                o.set("body", self.expr(b.value));
            }
            Block(b, _) => {
                o.set("block", self.block(b));
            }
            Assign(l, r, _) => {
                o.set("l", self.expr(l));
                o.set("r", self.expr(r));
            }
            AssignOp(op, l, r) => {
                o.set("op", J::s(&format!("{:?}", op.node)));
                o.set("l", self.expr(l));
                o.set("r", self.expr(r));
            }
            Field(x, id) => {
                o.set("e", self.expr(x));
                o.set("name", J::s(&id.to_string()));
                if let Some(a) = self.adt_of(self.tr.expr_ty_adjusted(x)) {
                    o.set("adt", J::s(&a));
                }
            }
            Index(x, i, _) => {
                o.set("e", self.expr(x));
                o.set("i", self.expr(i));
                o.set("base_ty", J::s(&self.tr.expr_ty_adjusted(x).to_string()));
            }
            Path(ref qp) => {
                let res = self.tr.qpath_res(qp, e.hir_id);
                self.res(&mut o, res);
            }
            AddrOf(_, m, x) => {
                o.set("mut", J::b(m == rustc_ast::Mutability::Mut));
                o.set("e", self.expr(x));
            }
            Break(_, x) => o.set("e", self.opt_expr(x)),
            Ret(x) => o.set("e", self.opt_expr(x)),
            Struct(qp, fields, tail) => {
                let res = self.tr.qpath_res(qp, e.hir_id);
                self.res(&mut o, res);
                let mut fv = vec![];
                for f in fields {
                    let mut fo = J::obj();
                    fo.set("name", J::s(&f.ident.to_string()));
                    fo.set("e", self.expr(f.expr));
                    fv.push(fo);
                }
                o.set("fields", J::arr(fv));
                if let hir::StructTailExpr::Base(b) = tail {
                    o.set("base", self.expr(b));
                }
            }
            Repeat(x, _) => o.set("e", self.expr(x)),
            _ => {}
        }
        o
    }

    fn pat(&self, p: &hir::Pat<'tcx>) -> J {
        use hir::PatKind::*;
        let kname = match p.kind {
            Wild => "P.Wild",
            Binding(..) => "P.Binding",
            Struct(..) => "P.Struct",
            TupleStruct(..) => "P.TupleStruct",
            Or(..) => "P.Or",
            Tuple(..) => "P.Tuple",
            Box(..) => "P.Box",
            Deref(..) => "P.Deref",
            Ref(..) => "P.Ref",
            Expr(..) => "P.Expr",
            Range(..) => "P.Range",
            Slice(..) => "P.Slice",
            Never => "P.Never",
            _ => "P.Other",
        };
        let mut o = self.node(kname, p.span);
        if let Some(t) = self.tr.node_type_opt(p.hir_id) {
            o.set("ty", J::s(&t.to_string()));
        }
        match p.kind {
            Binding(mode, hid, id, sub) => {
                o.set("name", J::s(&id.to_string()));
                o.set("lid", J::s(&format!("{}.{}", hid.owner.def_id.local_def_index.as_usize(), hid.local_id.as_usize())));
                o.set("mode", J::s(&format!("{:?}", mode)));
                if let Some(s) = sub {
                    o.set("sub", self.pat(s));
                }
            }
            Struct(ref qp, fields, rest) => {
                let res = self.tr.qpath_res(qp, p.hir_id);
                self.res(&mut o, res);
                let mut fv = vec![];
                for f in fields {
                    let mut fo = J::obj();
                    fo.set("name", J::s(&f.ident.to_string()));
                    fo.set("pat", self.pat(f.pat));
                    fv.push(fo);
                }
                o.set("fields", J::arr(fv));
                o.set("rest", J::b(rest.is_some()));
            }
            TupleStruct(ref qp, pats, dd) => {
                let res = self.tr.qpath_res(qp, p.hir_id);
                self.res(&mut o, res);
                o.set("pats", J::arr(pats.iter().map(|x| self.pat(x)).collect()));
                o.set("rest", J::b(dd.as_opt_usize().is_some()));
            }
            Or(pats) => o.set("pats", J::arr(pats.iter().map(|x| self.pat(x)).collect())),
            Tuple(pats, dd) => {
                o.set("pats", J::arr(pats.iter().map(|x| self.pat(x)).collect()));
                o.set("rest", J::b(dd.as_opt_usize().is_some()));
            }
            Box(x) | Deref(x) | Ref(x, _, _) => o.set("sub", self.pat(x)),
            Expr(pe) => match pe.kind {
                hir::PatExprKind::Lit { lit, negated } => {
                    use rustc_ast::LitKind;
                    let v = match lit.node {
                        LitKind::Str(s, _) => s.to_string(),
                        LitKind::Int(n, _) => n.to_string(),
                        LitKind::Bool(b) => b.to_string(),
                        LitKind::Char(c) => c.to_string(),
                        _ => String::new(),
                    };
                    o.set("lit", J::s(&format!("{}{}", if negated { "-" } else { "" }, v)));
                }
                hir::PatExprKind::Path(ref qp) => {
                    let res = self.tr.qpath_res(qp, pe.hir_id);
                    self.res(&mut o, res);
                }
            },
            Slice(a, m, b) => {
                o.set("before", J::arr(a.iter().map(|x| self.pat(x)).collect()));
                if let Some(m) = m {
                    o.set("mid", self.pat(m));
                }
                o.set("after", J::arr(b.iter().map(|x| self.pat(x)).collect()));
            }
            _ => {}
        }
        o
    }
}
