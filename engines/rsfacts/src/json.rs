// minimal JSON value + serialiser (no external crates available to the driver)
pub enum J {
    Null,
    B(bool),
    N(i64),
    S(String),
    A(Vec<J>),
    O(Vec<(String, J)>),
}

impl J {
    pub fn obj() -> J {
        J::O(vec![])
    }
    pub fn arr(v: Vec<J>) -> J {
        J::A(v)
    }
    pub fn s(s: &str) -> J {
        J::S(s.to_string())
    }
    pub fn n(n: i64) -> J {
        J::N(n)
    }
    pub fn b(b: bool) -> J {
        J::B(b)
    }
    pub fn set(&mut self, k: &str, v: J) {
        if let J::O(items) = self {
            items.push((k.to_string(), v));
        }
    }
    pub fn get_str(&self, k: &str) -> Option<&String> {
        if let J::O(items) = self {
            for (kk, v) in items {
                if kk == k {
                    if let J::S(s) = v {
                        return Some(s);
                    }
                }
            }
        }
        None
    }
    fn write(&self, out: &mut String) {
        match self {
            J::Null => out.push_str("null"),
            J::B(b) => out.push_str(if *b { "true" } else { "false" }),
            J::N(n) => out.push_str(&n.to_string()),
            J::S(s) => esc(s, out),
            J::A(v) => {
                out.push('[');
                for (i, x) in v.iter().enumerate() {
                    if i > 0 {
                        out.push(',');
                    }
                    x.write(out);
                }
                out.push(']');
            }
            J::O(v) => {
                out.push('{');
                for (i, (k, x)) in v.iter().enumerate() {
                    if i > 0 {
                        out.push(',');
                    }
                    esc(k, out);
                    out.push(':');
                    x.write(out);
                }
                out.push('}');
            }
        }
    }
    pub fn to_string(&self) -> String {
        let mut s = String::new();
        self.write(&mut s);
        s
    }
}

fn esc(s: &str, out: &mut String) {
    out.push('"');
    for c in s.chars() {
        match c {
            '"' => out.push_str("\\\""),
            '\\' => out.push_str("\\\\"),
            '\n' => out.push_str("\\n"),
            '\r' => out.push_str("\\r"),
            '\t' => out.push_str("\\t"),
            c if (c as u32) < 0x20 => out.push_str(&format!("\\u{:04x}", c as u32)),
            c => out.push(c),
        }
    }
    out.push('"');
}
