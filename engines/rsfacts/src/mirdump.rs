use crate::json::J;
use crate::{macro_names, span_loc};
use rustc_hir::def_id::LocalDefId;
use rustc_middle::mir::*;
use rustc_middle::ty::{self, TyCtxt};

struct Cx<'a, 'tcx> {
    tcx: TyCtxt<'tcx>,
    body: &'a Body<'tcx>,
    tenv: ty::TypingEnv<'tcx>,
}

pub fn dump_mir<'tcx>(tcx: TyCtxt<'tcx>, ldid: LocalDefId) -> J {
    let did = ldid.to_def_id();
    let body = tcx.optimized_mir(did);
    let cx = Cx { tcx, body, tenv: ty::TypingEnv::post_analysis(tcx, did) };
    let mut o = J::obj();
    o.set("arg_count", J::n(body.arg_count as i64));
    // local decls
    let mut names: Vec<Option<String>> = vec![None; body.local_decls.len()];
    for vdi in &body.var_debug_info {
        if let VarDebugInfoContents::Place(p) = &vdi.value {
            if p.projection.is_empty() {
                names[p.local.as_usize()] = Some(vdi.name.to_string());
            }
        }
    }
    let mut locals = vec![];
    for (l, d) in body.local_decls.iter_enumerated() {
        let mut lo = J::obj();
        lo.set("ty", J::s(&d.ty.to_string()));
        if let Some(n) = &names[l.as_usize()] {
            lo.set("name", J::s(n));
        }
        if d.mutability == rustc_ast::Mutability::Mut {
            lo.set("mut", J::b(true));
        }
        locals.push(lo);
    }
    o.set("locals", J::arr(locals));
    // upvar names for closures (debuginfo with projections)
    let mut upvars = vec![];
    for vdi in &body.var_debug_info {
        if let VarDebugInfoContents::Place(p) = &vdi.value {
            if !p.projection.is_empty() {
                let mut u = J::obj();
                u.set("name", J::s(&vdi.name.to_string()));
                u.set("place", cx.place(p));
                upvars.push(u);
            }
        }
    }
    o.set("upvars", J::arr(upvars));
    let mut blocks = vec![];
    for (_bb, data) in body.basic_blocks.iter_enumerated() {
        let mut b = J::obj();
        if data.is_cleanup {
            b.set("cleanup", J::b(true));
        }
        let mut stmts = vec![];
        for st in &data.statements {
            if let Some(j) = cx.stmt(st) {
                stmts.push(j);
            }
        }
        b.set("stmts", J::arr(stmts));
        b.set("term", cx.term(data.terminator()));
        blocks.push(b);
    }
    o.set("blocks", J::arr(blocks));
    o
}

impl<'a, 'tcx> Cx<'a, 'tcx> {
    fn place(&self, p: &Place<'tcx>) -> J {
        let mut o = J::obj();
        o.set("l", J::n(p.local.as_usize() as i64));
        let mut projs = vec![];
        let mut pty = rustc_middle::mir::PlaceTy::from_ty(self.body.local_decls[p.local].ty);
        for elem in p.projection.iter() {
            let s = match elem {
                ProjectionElem::Deref => "*".to_string(),
                ProjectionElem::Field(f, _) => {
                    let mut s = format!("f:#{}", f.as_usize());
                    if let ty::Adt(adt, _) = pty.ty.kind() {
                        let vi = pty.variant_index.unwrap_or(rustc_abi::FIRST_VARIANT);
                        if adt.is_enum() || adt.is_struct() || adt.is_union() {
                            let v = adt.variant(vi);
                            if let Some(fd) = v.fields.get(f) {
                                if adt.is_enum() {
                                    s = format!("f:{}::{}::{}", self.tcx.def_path_str(adt.did()), v.name, fd.name);
                                } else {
                                    s = format!("f:{}::{}", self.tcx.def_path_str(adt.did()), fd.name);
                                }
                            }
                        }
                    }
                    s
                }
                ProjectionElem::Downcast(name, vi) => match name {
                    Some(n) => format!("v:{}", n),
                    None => format!("v:#{}", vi.as_usize()),
                },
                ProjectionElem::Index(l) => format!("[_{}]", l.as_usize()),
                ProjectionElem::ConstantIndex { offset, from_end, .. } => {
                    format!("[c{}{}]", if from_end { "-" } else { "" }, offset)
                }
                ProjectionElem::Subslice { .. } => "[..]".to_string(),
                _ => "?".to_string(),
            };
            projs.push(J::s(&s));
            pty = pty.projection_ty(self.tcx, elem);
        }
        o.set("p", J::arr(projs));
        o
    }

    fn operand(&self, op: &Operand<'tcx>) -> J {
        let mut o = J::obj();
        match op {
            Operand::Copy(p) => {
                o.set("k", J::s("copy"));
                o.set("place", self.place(p));
            }
            Operand::Move(p) => {
                o.set("k", J::s("move"));
                o.set("place", self.place(p));
            }
            Operand::Constant(c) => {
                o.set("k", J::s("const"));
                let t = c.const_.ty();
                o.set("ty", J::s(&t.to_string()));
                if let ty::FnDef(def, args) = *t.kind() {
                    o.set("fn", J::s(&self.tcx.def_path_str(def)));
                    o.set("fn_full", J::s(&self.tcx.def_path_str_with_args(def, args)));
                    o.set("fn_local", J::b(def.is_local()));
                } else {
                    let mut s = format!("{}", c.const_);
                    if s.len() > 400 {
                        s.truncate(400);
                    }
                    o.set("v", J::s(&s));
                }
            }
            #[allow(unreachable_patterns)]
            _ => {
                o.set("k", J::s("other"));
            }
        }
        o
    }

    fn stmt(&self, st: &Statement<'tcx>) -> Option<J> {
        match &st.kind {
            StatementKind::Assign(b) => {
                let (place, rv) = &**b;
                let mut o = J::obj();
                o.set("k", J::s("Assign"));
                o.set("place", self.place(place));
                o.set("rv", self.rvalue(rv));
                let (_, line, _) = span_loc(self.tcx, st.source_info.span);
                o.set("line", J::n(line as i64));
                Some(o)
            }
            StatementKind::SetDiscriminant { place, variant_index } => {
                let mut o = J::obj();
                o.set("k", J::s("SetDiscriminant"));
                o.set("place", self.place(place));
                o.set("variant", J::n(variant_index.as_usize() as i64));
                Some(o)
            }
            StatementKind::StorageDead(l) => {
                let mut o = J::obj();
                o.set("k", J::s("StorageDead"));
                o.set("l", J::n(l.as_usize() as i64));
                Some(o)
            }
            _ => None,
        }
    }

    fn rvalue(&self, rv: &Rvalue<'tcx>) -> J {
        let mut o = J::obj();
        match rv {
            Rvalue::Use(op, ..) => {
                o.set("k", J::s("Use"));
                o.set("op", self.operand(op));
            }
            Rvalue::Ref(_, bk, p) => {
                o.set("k", J::s("Ref"));
                o.set("mut", J::b(matches!(bk, BorrowKind::Mut { .. })));
                o.set("place", self.place(p));
            }
            Rvalue::RawPtr(k, p) => {
                o.set("k", J::s("RawPtr"));
                o.set("mut", J::b(matches!(k, RawPtrKind::Mut)));
                o.set("place", self.place(p));
            }
            Rvalue::Cast(kind, op, t) => {
                o.set("k", J::s("Cast"));
                o.set("cast", J::s(&format!("{:?}", kind)));
                o.set("op", self.operand(op));
                o.set("ty", J::s(&t.to_string()));
            }
            Rvalue::BinaryOp(bop, ops) => {
                o.set("k", J::s("BinaryOp"));
                o.set("op", J::s(&format!("{:?}", bop)));
                o.set("a", self.operand(&ops.0));
                o.set("b", self.operand(&ops.1));
            }
            Rvalue::UnaryOp(uop, op) => {
                o.set("k", J::s("UnaryOp"));
                o.set("op", J::s(&format!("{:?}", uop)));
                o.set("a", self.operand(op));
            }
            Rvalue::Discriminant(p) => {
                o.set("k", J::s("Discriminant"));
                o.set("place", self.place(p));
            }
            Rvalue::CopyForDeref(p) => {
                o.set("k", J::s("CopyForDeref"));
                o.set("place", self.place(p));
            }
            Rvalue::Aggregate(kind, ops) => {
                o.set("k", J::s("Aggregate"));
                match &**kind {
                    AggregateKind::Adt(did, vi, _, _, _) => {
                        o.set("agg", J::s("Adt"));
                        o.set("adt", J::s(&self.tcx.def_path_str(*did)));
                        let adt = self.tcx.adt_def(*did);
                        o.set("variant", J::s(&adt.variant(*vi).name.to_string()));
                        let names: Vec<J> =
                            adt.variant(*vi).fields.iter().map(|f| J::s(&f.name.to_string())).collect();
                        o.set("fields", J::arr(names));
                    }
                    AggregateKind::Closure(did, _) => {
                        o.set("agg", J::s("Closure"));
                        o.set("closure", J::s(&self.tcx.def_path_str(*did)));
                    }
                    AggregateKind::Tuple => o.set("agg", J::s("Tuple")),
                    AggregateKind::Array(_) => o.set("agg", J::s("Array")),
                    _ => o.set("agg", J::s("Other")),
                }
                o.set("ops", J::arr(ops.iter().map(|op| self.operand(op)).collect()));
            }
            Rvalue::Repeat(op, _) => {
                o.set("k", J::s("Repeat"));
                o.set("op", self.operand(op));
            }
            Rvalue::ThreadLocalRef(did) => {
                o.set("k", J::s("ThreadLocalRef"));
                o.set("static", J::s(&self.tcx.def_path_str(*did)));
            }
            _ => {
                o.set("k", J::s("Other"));
            }
        }
        o
    }

    fn callee(&self, func: &Operand<'tcx>) -> J {
        let mut o = J::obj();
        let fty = func.ty(&self.body.local_decls, self.tcx);
        match *fty.kind() {
            ty::FnDef(def, args) => {
                o.set("path", J::s(&self.tcx.def_path_str(def)));
                o.set("full", J::s(&self.tcx.def_path_str_with_args(def, args)));
                o.set("local", J::b(def.is_local()));
                o.set("crate", J::s(&self.tcx.crate_name(def.krate).to_string()));
                o.set("targs", J::arr(args.iter().map(|a| J::s(&a.to_string())).collect()));
                if let Some(tr) = self.tcx.trait_of_assoc(def) {
                    o.set("trait", J::s(&self.tcx.def_path_str(tr)));
                }
                if let Some(im) = self.tcx.impl_of_assoc(def) {
                    o.set(
                        "impl_self",
                        J::s(&self.tcx.type_of(im).instantiate_identity().skip_norm_wip().to_string()),
                    );
                }
                let res = std::panic::catch_unwind(std::panic::AssertUnwindSafe(|| {
                    ty::Instance::try_resolve(self.tcx, self.tenv, def, args)
                }));
                if let Ok(Ok(Some(inst))) = res {
                    let rd = inst.def_id();
                    o.set("resolved", J::s(&self.tcx.def_path_str(rd)));
                    o.set("resolved_full", J::s(&self.tcx.def_path_str_with_args(rd, inst.args)));
                    o.set("resolved_local", J::b(rd.is_local()));
                    let ik = format!("{:?}", inst.def);
                    let ik = ik.split('(').next().unwrap_or("").to_string();
                    o.set("inst", J::s(&ik));
                    if let Some(im) = self.tcx.impl_of_assoc(rd) {
                        o.set(
                            "resolved_impl_self",
                            J::s(&self.tcx.type_of(im).instantiate_identity().skip_norm_wip().to_string()),
                        );
                    }
                }
            }
            _ => {
                o.set("indirect", J::b(true));
                o.set("ty", J::s(&fty.to_string()));
                o.set("op", self.operand(func));
            }
        }
        o
    }

    fn term(&self, t: &Terminator<'tcx>) -> J {
        let mut o = J::obj();
        let bbn = |b: BasicBlock| J::n(b.as_usize() as i64);
        let unw = |u: &UnwindAction| match u {
            UnwindAction::Cleanup(b) => J::n(b.as_usize() as i64),
            _ => J::Null,
        };
        match &t.kind {
            TerminatorKind::Goto { target } => {
                o.set("k", J::s("Goto"));
                o.set("target", bbn(*target));
            }
            TerminatorKind::SwitchInt { discr, targets } => {
                o.set("k", J::s("SwitchInt"));
                o.set("discr", self.operand(discr));
                let mut ts = vec![];
                for (v, b) in targets.iter() {
                    ts.push(J::arr(vec![J::s(&v.to_string()), bbn(b)]));
                }
                o.set("targets", J::arr(ts));
                o.set("otherwise", bbn(targets.otherwise()));
            }
            TerminatorKind::Return => o.set("k", J::s("Return")),
            TerminatorKind::Unreachable => o.set("k", J::s("Unreachable")),
            TerminatorKind::UnwindResume => o.set("k", J::s("UnwindResume")),
            TerminatorKind::UnwindTerminate(_) => o.set("k", J::s("UnwindTerminate")),
            TerminatorKind::Drop { place, target, unwind, .. } => {
                o.set("k", J::s("Drop"));
                o.set("place", self.place(place));
                o.set("target", bbn(*target));
                o.set("unwind", unw(unwind));
            }
            TerminatorKind::Call { func, args, destination, target, unwind, fn_span, .. } => {
                o.set("k", J::s("Call"));
                o.set("callee", self.callee(func));
                o.set("args", J::arr(args.iter().map(|a| self.operand(&a.node)).collect()));
                o.set("dest", self.place(destination));
                o.set("target", match target {
                    Some(b) => bbn(*b),
                    None => J::Null,
                });
                o.set("unwind", unw(unwind));
                let (file, line, _) = span_loc(self.tcx, *fn_span);
                o.set("file", J::s(&file));
                o.set("line", J::n(line as i64));
                let m = macro_names(t.source_info.span);
                if !m.is_empty() {
                    o.set("macros", J::arr(m.iter().map(|s| J::s(s)).collect()));
                }
            }
            TerminatorKind::TailCall { func, args, .. } => {
                o.set("k", J::s("TailCall"));
                o.set("callee", self.callee(func));
                o.set("args", J::arr(args.iter().map(|a| self.operand(&a.node)).collect()));
            }
            TerminatorKind::Assert { cond, expected, msg, target, unwind } => {
                o.set("k", J::s("Assert"));
                o.set("cond", self.operand(cond));
                o.set("expected", J::b(*expected));
                let mk = match &**msg {
                    AssertKind::BoundsCheck { .. } => "BoundsCheck".to_string(),
                    AssertKind::Overflow(op, ..) => format!("Overflow({:?})", op),
                    AssertKind::OverflowNeg(_) => "OverflowNeg".to_string(),
                    AssertKind::DivisionByZero(_) => "DivisionByZero".to_string(),
                    AssertKind::RemainderByZero(_) => "RemainderByZero".to_string(),
                    AssertKind::MisalignedPointerDereference { .. } => "MisalignedPointerDereference".to_string(),
                    AssertKind::NullPointerDereference => "NullPointerDereference".to_string(),
                    other => {
                        let s = format!("{:?}", other);
                        s.split(|c: char| !c.is_alphanumeric()).next().unwrap_or("Other").to_string()
                    }
                };
                o.set("msg", J::s(&mk));
                if let AssertKind::BoundsCheck { len, index } = &**msg {
                    o.set("len", self.operand(len));
                    o.set("index", self.operand(index));
                }
                o.set("target", bbn(*target));
                o.set("unwind", unw(unwind));
                let (file, line, _) = span_loc(self.tcx, t.source_info.span);
                o.set("file", J::s(&file));
                o.set("line", J::n(line as i64));
                let m = macro_names(t.source_info.span);
                if !m.is_empty() {
                    o.set("macros", J::arr(m.iter().map(|s| J::s(s)).collect()));
                }
            }
            TerminatorKind::FalseEdge { real_target, .. } => {
                o.set("k", J::s("Goto"));
                o.set("target", bbn(*real_target));
            }
            TerminatorKind::FalseUnwind { real_target, .. } => {
                o.set("k", J::s("Goto"));
                o.set("target", bbn(*real_target));
            }
            _ => o.set("k", J::s("Other")),
        }
        o
    }
}
