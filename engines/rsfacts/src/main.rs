// rsfacts: rustc_private driver that dumps a fact base (typed HIR trees, MIR
// skeletons with resolved callees, ADTs, impls, statics) of one crate as JSON.
// Injected with RUSTC_WORKSPACE_WRAPPER; writes $RSFACTS_OUT/<crate>.json (one
// write per process).
#![feature(rustc_private)]
#![allow(clippy::all)]

extern crate rustc_abi;
extern crate rustc_ast;
extern crate rustc_driver;
extern crate rustc_hir;
extern crate rustc_interface;
extern crate rustc_middle;
extern crate rustc_span;

mod hirdump;
mod json;
mod mirdump;

use json::J;
use rustc_hir::def::DefKind;
use rustc_middle::ty::TyCtxt;

struct Cb;

impl rustc_driver::Callbacks for Cb {
    fn after_analysis<'tcx>(
        &mut self,
        _compiler: &rustc_interface::interface::Compiler,
        tcx: TyCtxt<'tcx>,
    ) -> rustc_driver::Compilation {
        dump(tcx);
        rustc_driver::Compilation::Continue
    }
}

pub fn span_loc(tcx: TyCtxt<'_>, sp: rustc_span::Span) -> (String, usize, usize) {
    let sm = tcx.sess.source_map();
    // for macro-expanded code report the outermost call site
    let sp = sp.source_callsite();
    let lo = sm.lookup_char_pos(sp.lo());
    let hi = sm.lookup_char_pos(sp.hi());
    let name = format!("{}", lo.file.name.prefer_local_unconditionally());
    (name, lo.line, hi.line)
}

pub fn macro_names(sp: rustc_span::Span) -> Vec<String> {
    let mut v = vec![];
    if sp.from_expansion() {
        for ed in sp.macro_backtrace() {
            match ed.kind {
                rustc_span::ExpnKind::Macro(_, name) => v.push(name.to_string()),
                rustc_span::ExpnKind::Desugaring(d) => v.push(format!("desugar:{:?}", d)),
                rustc_span::ExpnKind::AstPass(p) => v.push(format!("astpass:{:?}", p)),
                _ => {}
            }
        }
    }
    v
}

fn dump(tcx: TyCtxt<'_>) {
    let out_dir = match std::env::var("RSFACTS_OUT") {
        Ok(d) => d,
        Err(_) => return,
    };
    let crate_name = tcx.crate_name(rustc_span::def_id::LOCAL_CRATE).to_string();
    let mut fns = vec![];
    let mut hir_trees = vec![];
    for ldid in tcx.hir_body_owners() {
        let did = ldid.to_def_id();
        let kind = tcx.def_kind(did);
        let path = tcx.def_path_str(did);
        let sp = tcx.def_span(did);
        let (file, lo, _hi) = span_loc(tcx, sp);
        let body_sp = tcx.hir_body_owned_by(ldid).value.span;
        let (_, blo, bhi) = span_loc(tcx, body_sp);
        let mut o = J::obj();
        o.set("id", J::s(&path));
        o.set("kind", J::s(&format!("{:?}", kind)));
        o.set("file", J::s(&file));
        o.set("line", J::n(lo as i64));
        o.set("body_lo", J::n(blo as i64));
        o.set("body_hi", J::n(bhi as i64));
        o.set("macros", J::arr(macro_names(sp).iter().map(|s| J::s(s)).collect()));
        if matches!(kind, DefKind::Const { .. } | DefKind::Static { .. }) {
            o.set("ty", J::s(&tcx.type_of(did).instantiate_identity().skip_norm_wip().to_string()));
        }
        let root = tcx.typeck_root_def_id(did);
        if root != did {
            o.set("root", J::s(&tcx.def_path_str(root)));
        }
        if matches!(kind, DefKind::Fn | DefKind::AssocFn) {
            o.set("vis", J::s(&format!("{:?}", tcx.visibility(did))));
            let name = tcx.item_name(did).to_string();
            o.set("name", J::s(&name));
            // signature
            let sig = tcx.fn_sig(did).instantiate_identity().skip_binder();
            o.set(
                "inputs",
                J::arr(sig.inputs().iter().map(|t| J::s(&t.to_string())).collect()),
            );
            o.set("output", J::s(&sig.output().to_string()));
        }
        if kind == DefKind::AssocFn {
            if let Some(impl_did) = tcx.impl_of_assoc(did) {
                let self_ty = tcx.type_of(impl_did).instantiate_identity();
                o.set("impl_self", J::s(&self_ty.skip_norm_wip().to_string()));
                if let Some(tr) = tcx.impl_opt_trait_ref(impl_did) {
                    let tr = tr.instantiate_identity().skip_norm_wip();
                    o.set("impl_trait", J::s(&tcx.def_path_str(tr.def_id)));
                    o.set("impl_trait_local", J::b(tr.def_id.is_local()));
                    o.set("impl_trait_full", J::s(&tr.to_string()));
                }
            } else if let Some(tr) = tcx.trait_of_assoc(did) {
                o.set("trait_default", J::s(&tcx.def_path_str(tr)));
            }
        }
        // attributes of interest
        let mut attrs = vec![];
        for a in tcx.get_all_attrs(did) {
            let s = format!("{:?}", a);
            if s.contains("export_name") || s.contains("ExportName") {
                attrs.push(J::s("export_name"));
            }
            if s.contains("no_mangle") || s.contains("NoMangle") {
                attrs.push(J::s("no_mangle"));
            }
        }
        o.set("attrs", J::arr(attrs));
        if matches!(kind, DefKind::Fn | DefKind::AssocFn | DefKind::Closure) {
            o.set("mir", mirdump::dump_mir(tcx, ldid));
        }
        fns.push(o);
        if root == did {
            let mut h = J::obj();
            h.set("id", J::s(&path));
            h.set("tree", hirdump::dump_body(tcx, ldid));
            hir_trees.push(h);
        }
    }
    // ADTs, impls, statics
    let mut adts = vec![];
    let mut impls = vec![];
    let mut statics = vec![];
    let mut traits = vec![];
    for id in tcx.hir_free_items() {
        let did = id.owner_id.to_def_id();
        let kind = tcx.def_kind(did);
        match kind {
            DefKind::Struct | DefKind::Enum | DefKind::Union => {
                let adt = tcx.adt_def(did);
                let mut o = J::obj();
                o.set("id", J::s(&tcx.def_path_str(did)));
                o.set("kind", J::s(&format!("{:?}", kind)));
                let (file, lo, _) = span_loc(tcx, tcx.def_span(did));
                o.set("file", J::s(&file));
                o.set("line", J::n(lo as i64));
                let mut vars = vec![];
                for v in adt.variants() {
                    let mut vo = J::obj();
                    vo.set("name", J::s(&v.name.to_string()));
                    let mut fs = vec![];
                    for f in v.fields.iter() {
                        let mut fo = J::obj();
                        fo.set("name", J::s(&f.name.to_string()));
                        fo.set(
                            "ty",
                            J::s(&tcx.type_of(f.did).instantiate_identity().skip_norm_wip().to_string()),
                        );
                        fs.push(fo);
                    }
                    vo.set("fields", J::arr(fs));
                    vars.push(vo);
                }
                o.set("variants", J::arr(vars));
                adts.push(o);
            }
            DefKind::Impl { of_trait } => {
                let mut o = J::obj();
                let self_ty = tcx.type_of(did).instantiate_identity().skip_norm_wip();
                o.set("self", J::s(&self_ty.to_string()));
                if of_trait {
                    if let Some(tr) = tcx.impl_opt_trait_ref(did) {
                        let tr = tr.instantiate_identity().skip_norm_wip();
                        o.set("trait", J::s(&tcx.def_path_str(tr.def_id)));
                        o.set("trait_local", J::b(tr.def_id.is_local()));
                    }
                }
                let sp = tcx.def_span(did);
                let macs = macro_names(sp);
                o.set("derived", J::b(tcx.is_automatically_derived(did)));
                o.set("macros", J::arr(macs.iter().map(|s| J::s(s)).collect()));
                let (file, lo, _) = span_loc(tcx, sp);
                o.set("file", J::s(&file));
                o.set("line", J::n(lo as i64));
                let mut items = vec![];
                for it in tcx.associated_items(did).in_definition_order() {
                    items.push(J::s(&tcx.def_path_str(it.def_id)));
                }
                o.set("items", J::arr(items));
                impls.push(o);
            }
            DefKind::Static { mutability, nested, .. } => {
                let mut o = J::obj();
                o.set("id", J::s(&tcx.def_path_str(did)));
                o.set("ty", J::s(&tcx.type_of(did).instantiate_identity().skip_norm_wip().to_string()));
                o.set("mutable", J::b(mutability == rustc_ast::Mutability::Mut));
                o.set("nested", J::b(nested));
                let sp = tcx.def_span(did);
                o.set("macros", J::arr(macro_names(sp).iter().map(|s| J::s(s)).collect()));
                let (file, lo, _) = span_loc(tcx, sp);
                o.set("file", J::s(&file));
                o.set("line", J::n(lo as i64));
                statics.push(o);
            }
            DefKind::Trait => {
                let mut o = J::obj();
                o.set("id", J::s(&tcx.def_path_str(did)));
                let mut items = vec![];
                for it in tcx.associated_items(did).in_definition_order() {
                    items.push(J::s(&tcx.def_path_str(it.def_id)));
                }
                o.set("items", J::arr(items));
                traits.push(o);
            }
            _ => {}
        }
    }
    // nested statics (inside fn bodies: thread_local!/lazy_static expansions) are
    // found via all local def ids
    for ldid in tcx.iter_local_def_id() {
        let did = ldid.to_def_id();
        if let DefKind::Static { mutability, nested, .. } = tcx.def_kind(did) {
            let id = tcx.def_path_str(did);
            if statics.iter().any(|s| s.get_str("id") == Some(&id)) {
                continue;
            }
            let mut o = J::obj();
            o.set("id", J::s(&id));
            o.set("ty", J::s(&tcx.type_of(did).instantiate_identity().skip_norm_wip().to_string()));
            o.set("mutable", J::b(mutability == rustc_ast::Mutability::Mut));
            o.set("nested", J::b(nested));
            let sp = tcx.def_span(did);
            o.set("macros", J::arr(macro_names(sp).iter().map(|s| J::s(s)).collect()));
            let (file, lo, _) = span_loc(tcx, sp);
            o.set("file", J::s(&file));
            o.set("line", J::n(lo as i64));
            statics.push(o);
        }
    }
    let mut top = J::obj();
    top.set("crate", J::s(&crate_name));
    top.set("fns", J::arr(fns));
    top.set("hir", J::arr(hir_trees));
    top.set("adts", J::arr(adts));
    top.set("impls", J::arr(impls));
    top.set("statics", J::arr(statics));
    top.set("traits", J::arr(traits));
    let s = top.to_string();
    let p = format!("{}/{}.json", out_dir, crate_name);
    let tmp = format!("{}.tmp.{}", p, std::process::id());
    std::fs::write(&tmp, s).expect("write facts");
    std::fs::rename(&tmp, &p).expect("rename facts");
}

fn main() {
    let mut args: Vec<String> = std::env::args().collect();
    // RUSTC_WORKSPACE_WRAPPER convention: argv[1] is the path of the real rustc
    if args.len() > 1 && (args[1].ends_with("rustc") || args[1].contains("/rustc")) {
        args.remove(1);
    }
    let mut cb = Cb;
    rustc_driver::run_compiler(&args, &mut cb);
}
