// tsdump: print the full swc AST of .ts/.tsx/.js files as JSON, with a line
// table so that byte spans can be mapped to line numbers.
// usage: tsdump <out-dir> <file>...   (writes <out-dir>/<sanitised path>.json)
use swc_common::{sync::Lrc, FileName, SourceMap};
use swc_ecma_parser::{lexer::Lexer, EsSyntax, Parser, StringInput, Syntax, TsSyntax};

fn main() {
    let args: Vec<String> = std::env::args().collect();
    if args.len() < 3 {
        eprintln!("usage: tsdump <out-dir> <file>...");
        std::process::exit(2);
    }
    let out = &args[1];
    let mut failed = false;
    for path in &args[2..] {
        let src = match std::fs::read_to_string(path) {
            Ok(s) => s,
            Err(e) => {
                eprintln!("tsdump: cannot read {}: {}", path, e);
                failed = true;
                continue;
            }
        };
        let cm: Lrc<SourceMap> = Default::default();
        let fm = cm.new_source_file(Lrc::new(FileName::Custom(path.clone())), src.clone());
        let syntax = if path.ends_with(".js") || path.ends_with(".mjs") || path.ends_with(".cjs") {
            Syntax::Es(EsSyntax::default())
        } else {
            Syntax::Typescript(TsSyntax { tsx: path.ends_with(".tsx"), ..Default::default() })
        };
        let lexer = Lexer::new(syntax, Default::default(), StringInput::from(&*fm), None);
        let mut parser = Parser::new_from(lexer);
        let module = match parser.parse_module() {
            Ok(m) => m,
            Err(e) => {
                eprintln!("tsdump: parse error in {}: {:?}", path, e);
                failed = true;
                continue;
            }
        };
        let errs = parser.take_errors();
        if !errs.is_empty() {
            eprintln!("tsdump: recoverable parse errors in {}: {:?}", path, errs);
            failed = true;
            continue;
        }
        // byte offset (BytePos, 1-based within this source map) of each line start
        let mut line_starts: Vec<u32> = vec![fm.start_pos.0];
        for (i, b) in src.bytes().enumerate() {
            if b == b'\n' {
                line_starts.push(fm.start_pos.0 + i as u32 + 1);
            }
        }
        let v = serde_json::json!({
            "file": path,
            "start_pos": fm.start_pos.0,
            "line_starts": line_starts,
            "module": serde_json::to_value(&module).expect("serialise"),
        });
        let name: String = path.chars().map(|c| if c.is_ascii_alphanumeric() || c == '.' || c == '-' { c } else { '_' }).collect();
        let p = format!("{}/{}.json", out, name.trim_start_matches('_'));
        std::fs::write(&p, serde_json::to_string(&v).unwrap()).expect("write");
    }
    if failed {
        std::process::exit(1);
    }
}
