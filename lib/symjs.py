"""A small symbolic evaluator for straight-line 32-bit integer JavaScript (the kind a hash round function is written in).

Terms (already in canonical form):
  ("var", name)                     a free variable (a local that is not assigned in the evaluated region, this.<field>)
  ("num", n)
  ("idx", base, index-text)         base[index]: base is the canonical name of the array, index a normalised text
  ("sum", (t1, t2, ..))             addition modulo 2^32 (`>>> 0`, `| 0` are dropped), operands sorted, nested sums flattened
  ("sigma", operand, frozenset{("r", n) | ("s", n)})   XOR of rotations / logical right shifts of ONE operand
  ("bool", (v1, v2, ..), table)     a bitwise function of at most four variables, as its truth table
  ("rot", x, n) / ("shr", x, n) / ("shl", x, n) / ("not", x) / ("xor"|"and"|"or", (..))   what does not fit the above
  ("opaque", text)

The evaluator knows nothing about SHA-256; rules compare the terms it returns with the terms they expect.
"""
import itertools
from tsast import walk, s, unparen


def _num(e, consts):
    e = unparen(e)
    t = e.get("type")
    if t == "NumericLiteral":
        return int(e["value"])
    if t == "Identifier" and e["value"] in consts:
        return consts[e["value"]]
    if t == "BinaryExpression" and e["operator"] in ("+", "-", "*"):
        a, b = _num(e["left"], consts), _num(e["right"], consts)
        if a is not None and b is not None:
            return {"+": a + b, "-": a - b, "*": a * b}[e["operator"]]
    return None


def _index_text(e, consts, env):
    """normalised text of an index expression: `i`, `i-16`, `(i - 16)` -> 'i-16'; numbers folded"""
    e = unparen(e)
    n = _num(e, consts)
    if n is not None:
        return str(n)
    t = e.get("type")
    if t == "Identifier":
        v = env.get(e["value"])
        if v is not None and v[0] == "num":
            return str(v[1])
        return e["value"]
    if t == "BinaryExpression" and e["operator"] in ("+", "-"):
        l = _index_text(e["left"], consts, env)
        r = _index_text(e["right"], consts, env)
        return "%s%s%s" % (l, e["operator"], r)
    return s(e)


def _flat(kind, items):
    out = []
    for it in items:
        if it[0] == kind:
            out.extend(it[1])
        else:
            out.append(it)
    return out


def _key(t):
    return repr(t)


def mk_sum(items):
    items = _flat("sum", items)
    nums = sum(i[1] for i in items if i[0] == "num")
    rest = sorted([i for i in items if i[0] != "num"], key=_key)
    if nums % (1 << 32):
        rest.append(("num", nums % (1 << 32)))
    if len(rest) == 1:
        return rest[0]
    return ("sum", tuple(rest))


def _vars_of(t, acc):
    if t[0] == "var":
        acc.add(t[1])
        return True
    if t[0] in ("xor", "and", "or"):
        return all(_vars_of(x, acc) for x in t[1])
    if t[0] == "not":
        return _vars_of(t[1], acc)
    if t[0] == "bool":
        acc.update(t[1])
        return True
    return False


def _ev_bool(t, env):
    if t[0] == "var":
        return env[t[1]]
    if t[0] == "not":
        return 1 - _ev_bool(t[1], env)
    if t[0] == "bool":
        idx = 0
        for v in t[1]:
            idx = idx * 2 + env[v]
        return t[2][idx]
    vals = [_ev_bool(x, env) for x in t[1]]
    if t[0] == "xor":
        r = 0
        for v in vals:
            r ^= v
        return r
    if t[0] == "and":
        return int(all(vals))
    return int(any(vals))


def mk_bit(kind, items):
    """xor / and / or of terms: a sigma when it is an XOR of rotations and shifts of one operand, a truth table when
    it is a bitwise function of a few variables, the plain (sorted) operator otherwise"""
    items = _flat(kind, items)
    if kind == "xor" and all(i[0] in ("rot", "shr", "sigma") for i in items):
        ops = {(i[1] if i[0] != "sigma" else i[1]) for i in items}
        if len({_key(o) for o in ops}) == 1:
            parts = set()
            for i in items:
                if i[0] == "sigma":
                    parts |= set(i[2])
                else:
                    parts.add(("r" if i[0] == "rot" else "s", i[2]))
            return ("sigma", items[0][1], frozenset(parts))
    t = (kind, tuple(sorted(items, key=_key)))
    vs = set()
    if _vars_of(t, vs) and 1 <= len(vs) <= 4:
        names = tuple(sorted(vs))
        table = tuple(_ev_bool(t, dict(zip(names, bits))) for bits in itertools.product((0, 1), repeat=len(names)))
        return ("bool", names, table)
    return t


class Sym:
    def __init__(self, consts=None, rot_fn=None):
        self.consts = consts or {}
        self.rot_fn = rot_fn
        self.env = {}
        self.arrays = {}      # local array name -> canonical base name

    def base_name(self, e):
        e = unparen(e)
        if e.get("type") == "Identifier":
            return self.arrays.get(e["value"], e["value"])
        return s(e)

    def ev(self, e):
        e = unparen(e)
        t = e.get("type")
        n = _num(e, self.consts)
        if n is not None:
            return ("num", n % (1 << 32))
        if t == "Identifier":
            return self.env.get(e["value"], ("var", e["value"]))
        if t == "MemberExpression":
            if e["property"]["type"] == "Computed":
                return ("idx", self.base_name(e["object"]), _index_text(e["property"]["expression"], self.consts, self.env))
            return ("var", s(e))
        if t in ("TsAsExpression", "TsNonNullExpression"):
            return self.ev(e["expression"])
        if t == "UnaryExpression" and e["operator"] == "~":
            x = self.ev(e["argument"])
            return mk_bit("xor", [("not", x)]) if False else self._not(x)
        if t == "CallExpression":
            cal = unparen(e["callee"])
            if self.rot_fn and cal.get("type") == "Identifier" and cal["value"] == self.rot_fn and len(e["arguments"]) == 2:
                k = _num(e["arguments"][1]["expression"], self.consts)
                if k is not None:
                    return ("rot", self.ev(e["arguments"][0]["expression"]), k % 32)
            return ("opaque", s(e))
        if t == "BinaryExpression":
            op = e["operator"]
            if op == "+":
                return mk_sum([self.ev(e["left"]), self.ev(e["right"])])
            if op in ("^", "&", "|"):
                l, r = self.ev(e["left"]), self.ev(e["right"])
                if op == "|":
                    # x | 0 is the identity; (x >>> n) | (x << (32 - n)) is a rotation
                    if r == ("num", 0):
                        return l
                    for a, b in ((l, r), (r, l)):
                        if a[0] == "shr" and b[0] == "shl" and a[1] == b[1] and (a[2] + b[2]) % 32 == 0:
                            return ("rot", a[1], a[2])
                if op == "&" and (r == ("num", 0xFFFFFFFF) or l == ("num", 0xFFFFFFFF)):
                    return l if r[0] == "num" else r
                return mk_bit({"^": "xor", "&": "and", "|": "or"}[op], [l, r])
            if op in (">>>", "<<", ">>"):
                k = _num(e["right"], self.consts)
                x = self.ev(e["left"])
                if k is None:
                    return ("opaque", s(e))
                if op == ">>>" and k == 0:
                    return x
                return ("shr" if op == ">>>" else ("shl" if op == "<<" else "sar"), x, k)
            return ("opaque", s(e))
        return ("opaque", s(e))

    def _not(self, x):
        vs = set()
        if _vars_of(x, vs) and 1 <= len(vs) <= 4:
            names = tuple(sorted(vs))
            table = tuple(1 - _ev_bool(x, dict(zip(names, bits))) for bits in itertools.product((0, 1), repeat=len(names)))
            return ("bool", names, table)
        return ("not", x)

    def run(self, stmts):
        """execute declarations and assignments in order (no control flow: nested blocks are executed in sequence,
        loops are NOT unrolled - hand the loop body in); returns the list of (target text, term) for every assignment
        to something that is not a plain local (array elements, this.<field>)"""
        stores = []
        for st in stmts:
            t = st.get("type")
            if t == "BlockStatement":
                stores += self.run(st["stmts"])
            elif t == "VariableDeclaration":
                for d in st["declarations"]:
                    if d["id"].get("type") == "Identifier" and d.get("init") is not None:
                        self.env[d["id"]["value"]] = self.ev(d["init"])
            elif t == "ExpressionStatement":
                e = unparen(st["expression"])
                if e.get("type") == "AssignmentExpression" and e["operator"] == "=":
                    l = unparen(e["left"])
                    v = self.ev(e["right"])
                    if l.get("type") == "Identifier":
                        self.env[l["value"]] = v
                    elif l.get("type") == "MemberExpression" and l["property"]["type"] == "Computed":
                        stores.append((("idx", self.base_name(l["object"]), _index_text(l["property"]["expression"], self.consts, self.env)), v, e))
                    else:
                        stores.append((("var", s(l)), v, e))
        return stores


def bool_table(fn, nvars):
    """truth table of a Python predicate over nvars bits, in the variable order used by ("bool", names, table)"""
    return tuple(int(fn(*bits)) for bits in itertools.product((0, 1), repeat=nvars))


def show(t, depth=0):
    k = t[0]
    if k == "var":
        return t[1]
    if k == "num":
        return hex(t[1])
    if k == "idx":
        return "%s[%s]" % (t[1], t[2])
    if k == "sum":
        return "(" + " + ".join(show(x) for x in t[1]) + ")"
    if k == "sigma":
        return "xor{%s}(%s)" % (",".join("%s%d" % p for p in sorted(t[2])), show(t[1]))
    if k == "bool":
        return "f%s(%s)" % ("".join(str(b) for b in t[2]), ",".join(t[1]))
    if k in ("rot", "shr", "shl", "sar"):
        return "%s(%s,%d)" % (k, show(t[1]), t[2])
    if k == "not":
        return "~" + show(t[1])
    if k in ("xor", "and", "or"):
        return "(" + (" %s " % {"xor": "^", "and": "&", "or": "|"}[k]).join(show(x) for x in t[1]) + ")"
    return str(t[1])
