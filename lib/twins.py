"""Twin functions: pairs of functions whose names differ by one token of a small vocabulary (type/value, string/number,
mapping/map, list/set, ..).  Their ABSTRACT SIGNATURES - which project functions and project-trait methods they call
(private helpers seen through), which project enum variants / structs they build or match - must agree up to the
token substitution, except for the differences reviewed in tables/twins.json."""
import re
from facts import walk, walk_inlined

TOK = [("type", "value"), ("Type", "Value"), ("types", "values"), ("string", "number"), ("String", "Number"), ("mapping", "map"),
       ("Mapping", "Map"), ("list", "set"), ("List", "Set"), ("pick", "omit"), ("Pick", "Omit"), ("exact", "open")]


def _subst(name, x, y):
    if x[:1].isupper():
        # CamelCase segment: `Number` in BaseOfNumberFormat, in RuntypeKind::Number
        return re.sub(r"%s(?![a-z])" % re.escape(x), y, name)
    return re.sub(r"(?<![a-zA-Z])%s(?![a-z])" % re.escape(x), y, name)


def find_pairs(F, select):
    fns = {g: f for g, f in F.fns.items() if f.kind != "Closure" and g in F.hir and select(f)}
    out = {}
    for g in fns:
        for a, b in TOK:
            for x, y in ((a, b), (b, a)):
                v = _subst(g, x, y)
                if v != g and v in fns:
                    k = tuple(sorted((g, v)))
                    out[k] = (x, y) if g == k[0] else (y, x)
    return out


def strip_generics(s):
    out, d = [], 0
    for ch in s:
        if ch == "<":
            d += 1
        elif ch == ">":
            d -= 1
        elif d == 0:
            out.append(ch)
    return "".join(out).replace("::::", "::")


def signature(F, g):
    """set of semantic items of function g"""
    f = F.fns[g]
    items = set()
    local_traits = {t["id"] for cr in F.crates.values() for t in cr.get("traits", [])}
    for n, owner in walk_inlined(F, g, depth=2, private_only=True):
        if n["k"] in ("Call", "MethodCall"):
            cal = n.get("resolved") or n.get("callee") or ""
            tg = F._callee_gid(f.crate, cal)
            if tg in F.fns and F.fns[tg].kind != "Closure":
                h = F.fns[tg]
                # private helpers were inlined: their own name is not part of the signature
                if h.vis != "Public" and not h.impl_trait and tg != g and h.file == f.file:
                    continue
                items.add("call:" + strip_generics(tg).rsplit("::", 2)[-2] + "::" + strip_generics(tg).rsplit("::", 1)[-1] if "::" in strip_generics(tg) else "call:" + tg)
            else:
                m = re.match(r"^<?([\w:]+) as ([\w:]+)>?::(\w+)$", cal) or re.match(r"^([\w:]+)::(\w+)$", cal)
                # methods of project traits called through a type parameter
                for tr in local_traits:
                    if cal.startswith(tr + "::") or (" as " + tr) in cal:
                        items.add("trait:" + tr.rsplit("::", 1)[-1] + "::" + cal.rsplit("::", 1)[-1])
        if n["k"] == "Field" and n.get("adt") and not n["name"].isdigit():
            adt_ = strip_generics(n["adt"])
            if not re.match(r"^(std|core|alloc|anyhow|serde\w*|swc_(common|ecma\w*|node\w*|atoms|core))::", adt_):
                items.add("field:" + adt_.rsplit("::", 1)[-1] + "." + n["name"])
        d = n.get("def") or ""
        if n["k"] in ("Struct", "P.Struct", "P.TupleStruct", "Path") and n.get("def_local") and n.get("defkind", "").startswith(("Variant", "Ctor")):
            items.add(("pat:" if n["k"].startswith("P.") else "ctor:") + strip_generics(d).rsplit("::", 2)[-2] + "::" + strip_generics(d).rsplit("::", 1)[-1])
    return items


def _subst_all(name, x, y):
    for xx, yy in ((x + "s", y + "s"), (x.capitalize() + "s", y.capitalize() + "s"), (x, y), (x.capitalize(), y.capitalize()), (x.lower(), y.lower()), (x.upper(), y.upper())):
        name = _subst(name, xx, yy)
    return name


def compare(F, a, b, xy):
    x, y = xy
    # both directions of the substitution are tried per item (an item may mention the other twin's token)
    sa = {_subst_all(i, x, y) for i in signature(F, a)}
    sb = {_subst_all(i, x, y) for i in signature(F, b)}
    # the twins' own names (recursion) are equal after substitution
    return sorted(sa - sb), sorted(sb - sa)


def evaluate(F, select, accepted, max_diff=12):
    """-> (pairs compared, [(pair key, side, item)] new differences)"""
    pairs = find_pairs(F, select)
    out = []
    n = 0
    seen_keys = evaluate.seen_keys = set()
    for (a, b), xy in sorted(pairs.items()):
        da, db = compare(F, a, b, xy)
        if len(da) + len(db) > max_diff:
            continue          # not twins in the sense of this rule (too far apart to start with)
        n += 1
        key = "%s<->%s" % (pair_label(a, F), pair_label(b, F))
        if accepted is not None and key not in accepted:
            continue          # a pair that was not there at review time (new or renamed twins): not judged
        acc = set((accepted or {}).get(key, []))
        seen_keys.add(key)
        for it in da:
            if "A:" + it not in acc:
                out.append((key, a, b, "only in %s: %s" % (pair_label(a, F), it), "A:" + it))
        for it in db:
            if "B:" + it not in acc:
                out.append((key, a, b, "only in %s: %s" % (pair_label(b, F), it), "B:" + it))
    return n, out


def pair_label(g, F=None):
    f = F.fns.get(g) if F is not None else None
    if f is not None and f.impl_self:
        return strip_generics(f.impl_self).rsplit("::", 1)[-1] + "::" + (f.name or g.rsplit("::", 1)[-1])
    t = strip_generics(g)
    parts = [p_ for p_ in t.split("::") if p_]
    return "::".join(parts[-2:]) if len(parts) >= 2 else t


def twin_rule(cx, rep, rid, file_re, floor=1):
    """obligations of the twin rule for the twins whose first function lies in a file matching file_re"""
    import json
    import os
    F = cx.rs
    table = json.load(open(os.path.join(cx.verif, "tables", "twins.json")))["accepted"]
    sel = lambda f: f.crate != "beff_wasm" and "test" not in f.id and "/src/" in (f.file or "")
    n, new = evaluate(F, sel, table)
    judged = 0
    by_key = {}
    for key, a, b, msg, item in new:
        by_key.setdefault(key, []).append((a, b, msg, item))
    pairs = find_pairs(F, sel)
    for (a, b), xy in sorted(pairs.items()):
        key = "%s<->%s" % (pair_label(a, F), pair_label(b, F))
        if key not in table or not re.search(file_re, F.fns[a].file or ""):
            continue
        judged += 1
        bad = by_key.get(key, [])
        rep.ob(rid, "twins/%s" % key, not bad,
               "the twin functions %s and %s no longer agree: %s (their abstract signatures - project callees, trait methods, variants built or matched, fields touched - agreed up to `%s`<->`%s` except for the reviewed differences in tables/twins.json; one twin was changed without the other)" % (
                   a, b, "; ".join(m for _, _, m, _ in bad[:3]), xy[0], xy[1]),
               F.fns[a].loc(), sample={"twins": key, "reviewed_differences": len(table[key])})
    rep.floor(rid, "twin pairs judged", judged, floor)
