"""Twin functions: pairs of functions whose names differ by one token of a small vocabulary (type/value, string/number,
mapping/map, list/set, ..).  Their ABSTRACT SIGNATURES - which project functions and project-trait methods they call
(private helpers seen through), which project enum variants / structs they build or match - must agree up to the
token substitution, except for the differences reviewed in tables/twins.json."""
import re
from facts import walk, walk_inlined

TOK = [("type", "value"), ("Type", "Value"), ("types", "values"), ("string", "number"), ("String", "Number"), ("mapping", "map"),
       ("Mapping", "Map"), ("list", "set"), ("List", "Set"), ("pick", "omit"), ("Pick", "Omit"), ("exact", "open")]


def _subst(name, x, y):
    if x[:1].isupper():
        # CamelCase segment: `Number` in BaseOfNumberFormat, in RuntypeKind::Number
        return re.sub(r"%s(?![a-z])" % re.escape(x), y, name)
    return re.sub(r"(?<![a-zA-Z])%s(?![a-z])" % re.escape(x), y, name)


def find_pairs(F, select):
    fns = {g: f for g, f in F.fns.items() if f.kind != "Closure" and g in F.hir and select(f)}
    out = {}
    for g in fns:
        for a, b in TOK:
            for x, y in ((a, b), (b, a)):
                v = _subst(g, x, y)
                if v != g and v in fns:
                    k = tuple(sorted((g, v)))
                    out[k] = (x, y) if g == k[0] else (y, x)
    return out


def strip_generics(s):
    out, d = [], 0
    for ch in s:
        if ch == "<":
            d += 1
        elif ch == ">":
            d -= 1
        elif d == 0:
            out.append(ch)
    return "".join(out).replace("::::", "::")


# ---- mode parameters ---------------------------------------------------------------------------------------------
# Twins may be thin wrappers over one shared private body that takes a MODE: a fieldless variant of a project enum,
# written as a constant at the call (benign b97: get_value_exact / get_value_open = get_value(m, k, ctx,
# UnmentionedKey::Missing / ::Unconstrained)).  The shared body is then read once per twin: a `match` / `if let` over
# the mode parameter is walked only along the arms that the twin's constant selects, and the constant, consumed by that
# selection, is not an item of the signature.  What differs between the twins is again what the selected arms do (the
# reviewed `optional_prop` / `unknown`), not the name of the mode.  A mode that is read in any other way (compared,
# stored, passed to a public function) is not consumed: its constant stays in the signature and shows as a difference.

def _peel(e):
    while isinstance(e, dict) and (e.get("k") in ("AddrOf", "DropTemps") or (e.get("k") == "Unary" and e.get("op") == "Deref")):
        e = e["e"]
    return e


def _is_mode_const(n):
    return isinstance(n, dict) and n.get("k") == "Path" and n.get("res") == "def" and n.get("def_local") and n.get("defkind") == "Ctor(Variant, Const)"


def _pat_variants(p):
    """the variants a pattern over a mode admits: a set of variant paths, "*" for a catch-all, None when not understood"""
    k = p.get("k")
    if k == "P.Wild" or (k == "P.Binding" and p.get("sub") is None):
        return "*"
    if k in ("P.Ref", "P.Deref"):
        return _pat_variants(p["sub"])
    if k in ("P.Expr", "P.Struct") and p.get("res") == "def" and (p.get("defkind") or "") in ("Ctor(Variant, Const)", "Variant") and not p.get("fields"):
        return {p["def"]}
    if k == "P.Or":
        out = set()
        for q in p["pats"]:
            v = _pat_variants(q)
            if v is None or v == "*":
                return v
            out |= v
        return out
    return None


def _mode_branches(n, lids):
    """n is a `match` / `if let` whose scrutinee is one of the locals `lids` -> (lid, [(variants | "*", guarded, subtree)]);
    None when n is something else or one of its patterns is not understood"""
    if n.get("k") == "Match":
        s, arms = _peel(n["scrut"]), [(a["pat"], a.get("guard"), a) for a in n["arms"]]
    elif n.get("k") == "If" and n["cond"].get("k") == "Let":
        s, arms = _peel(n["cond"]["init"]), [(n["cond"]["pat"], None, n["then"])] + ([({"k": "P.Wild"}, None, n["else"])] if n.get("else") else [])
    else:
        return None
    if not isinstance(s, dict) or s.get("k") != "Path" or s.get("res") != "local" or s.get("lid") not in lids:
        return None
    out = []
    for pat, guard, sub in arms:
        v = _pat_variants(pat)
        if v is None:
            return None
        out.append((v, guard is not None, sub))
    return s["lid"], out


def _selected(n, env):
    """the subtrees of a mode test n that can run when the mode parameters hold the constants of env (first match wins)"""
    mb = _mode_branches(n, env)
    if mb is None:
        return None
    lid, branches = mb
    out = []
    for v, guarded, sub in branches:
        if v == "*" or env[lid] in v:
            out.append(sub)
            if not guarded:
                break
    return out


def _helper_params(F, tg, n):
    """[(argument node, parameter pattern)] of a call n of the local function tg, in parameter order"""
    args = ([n["recv"]] if n["k"] == "MethodCall" else []) + list(n.get("args") or [])
    params = F.hir[tg]["params"]
    return list(zip(args, params)) if len(args) == len(params) else []


def _mode_consumed(F, cr, tg, lid, depth):
    """every read of the parameter `lid` of tg is the scrutinee of an understood mode test, or hands the mode on to a
    private local helper that consumes it in the same way"""
    body = F.hir[tg]["body"]
    ok = set()
    for n in walk(body):
        if _mode_branches(n, {lid}) is not None:
            ok.add(id(_peel(n["scrut"] if n["k"] == "Match" else n["cond"]["init"])))
        elif depth > 0 and n["k"] in ("Call", "MethodCall"):
            cal = n.get("callee") if n["k"] == "Call" else (n.get("resolved") or n.get("callee"))
            t2 = F._callee_gid(cr, cal) if cal else None
            if t2 in F.hir and F.fns.get(t2) is not None and F.fns[t2].vis != "Public":
                for a, p in _helper_params(F, t2, n):
                    if a.get("k") == "Path" and a.get("res") == "local" and a.get("lid") == lid and p.get("k") == "P.Binding" \
                            and p.get("mode") == "BindingMode(No, Not)" \
                            and (p["lid"] == lid if t2 == tg else _mode_consumed(F, cr, t2, p["lid"], depth - 1)):
                        ok.add(id(a))      # (its own recursion hands the mode on in the same position)
    return all(id(n) in ok for n in walk(body) if n["k"] == "Path" and n.get("res") == "local" and n.get("lid") == lid)


def walk_specialised(F, gid, depth=2, crate=None, _seen=None, private_only=False, _env=None):
    """facts.walk_inlined (same order of descent, same `each callee once`, yields (node, owner gid)) that reads the
    private helpers per MODE: see the comment above.  Without mode constants it yields exactly what walk_inlined yields."""
    seen = _seen if _seen is not None else {gid}
    env = _env or {}
    tree = F.hir.get(gid)
    if tree is None:
        return
    f = F.fns.get(gid)
    cr = crate or (f.crate if f is not None else None)
    stack = [tree["body"]]
    drop = set()          # mode constants consumed by the specialisation of the helper they are passed to
    while stack:
        n = stack.pop()
        if isinstance(n, list):
            stack.extend(v for v in reversed(n) if isinstance(v, (dict, list)))
            continue
        if id(n) in drop:
            continue
        if "k" not in n:
            stack.extend(v for v in reversed(list(n.values())) if isinstance(v, (dict, list)))
            continue
        yield n, gid
        sel = _selected(n, env) if env else None
        if sel is not None:
            # a test of the mode: only what the twin's constant selects (the scrutinee is the bare parameter)
            stack.extend(reversed(sel))
            continue
        if depth > 0 and n["k"] in ("Call", "MethodCall"):
            cal = n.get("callee") if n["k"] == "Call" else (n.get("resolved") or n.get("callee"))
            tg = (F._callee_gid(cr, cal) if cr else cal) if cal else None
            if tg in F.hir and not (private_only and (F.fns.get(tg) is None or F.fns[tg].vis == "Public")):
                env2 = {}
                for a, p in _helper_params(F, tg, n):
                    if p.get("k") != "P.Binding" or p.get("mode") != "BindingMode(No, Not)":
                        continue
                    v = a["def"] if _is_mode_const(a) else env.get(a.get("lid")) if a.get("k") == "Path" and a.get("res") == "local" else None
                    if v is not None and _mode_consumed(F, cr, tg, p["lid"], depth - 1):
                        env2[p["lid"]] = v
                        drop.add(id(a))
                key = (tg, tuple(sorted(env2.values()))) if env2 else tg
                if key not in seen:
                    seen.add(key)
                    for x in walk_specialised(F, tg, depth - 1, cr, seen, private_only, env2):
                        yield x
        stack.extend(v for v in reversed(list(n.values())) if isinstance(v, (dict, list)))


def signature(F, g):
    """set of semantic items of function g"""
    f = F.fns[g]
    items = set()
    local_traits = {t["id"] for cr in F.crates.values() for t in cr.get("traits", [])}
    for n, owner in walk_specialised(F, g, depth=2, private_only=True):
        if n["k"] in ("Call", "MethodCall"):
            cal = n.get("resolved") or n.get("callee") or ""
            tg = F._callee_gid(f.crate, cal)
            if tg in F.fns and F.fns[tg].kind != "Closure":
                h = F.fns[tg]
                # private helpers were inlined: their own name is not part of the signature
                if h.vis != "Public" and not h.impl_trait and tg != g and h.file == f.file:
                    continue
                items.add("call:" + strip_generics(tg).rsplit("::", 2)[-2] + "::" + strip_generics(tg).rsplit("::", 1)[-1] if "::" in strip_generics(tg) else "call:" + tg)
            else:
                m = re.match(r"^<?([\w:]+) as ([\w:]+)>?::(\w+)$", cal) or re.match(r"^([\w:]+)::(\w+)$", cal)
                # methods of project traits called through a type parameter
                for tr in local_traits:
                    if cal.startswith(tr + "::") or (" as " + tr) in cal:
                        items.add("trait:" + tr.rsplit("::", 1)[-1] + "::" + cal.rsplit("::", 1)[-1])
        if n["k"] == "Field" and n.get("adt") and not n["name"].isdigit():
            adt_ = strip_generics(n["adt"])
            if not re.match(r"^(std|core|alloc|anyhow|serde\w*|swc_(common|ecma\w*|node\w*|atoms|core))::", adt_):
                items.add("field:" + adt_.rsplit("::", 1)[-1] + "." + n["name"])
        d = n.get("def") or ""
        if n["k"] in ("Struct", "P.Struct", "P.TupleStruct", "Path") and n.get("def_local") and n.get("defkind", "").startswith(("Variant", "Ctor")):
            items.add(("pat:" if n["k"].startswith("P.") else "ctor:") + strip_generics(d).rsplit("::", 2)[-2] + "::" + strip_generics(d).rsplit("::", 1)[-1])
    return items


def _subst_all(name, x, y):
    for xx, yy in ((x + "s", y + "s"), (x.capitalize() + "s", y.capitalize() + "s"), (x, y), (x.capitalize(), y.capitalize()), (x.lower(), y.lower()), (x.upper(), y.upper())):
        name = _subst(name, xx, yy)
    return name


def compare(F, a, b, xy):
    x, y = xy
    # both directions of the substitution are tried per item (an item may mention the other twin's token)
    sa = {_subst_all(i, x, y) for i in signature(F, a)}
    sb = {_subst_all(i, x, y) for i in signature(F, b)}
    # the twins' own names (recursion) are equal after substitution
    return sorted(sa - sb), sorted(sb - sa)


def evaluate(F, select, accepted, max_diff=12):
    """-> (pairs compared, [(pair key, side, item)] new differences)"""
    pairs = find_pairs(F, select)
    out = []
    n = 0
    seen_keys = evaluate.seen_keys = set()
    for (a, b), xy in sorted(pairs.items()):
        da, db = compare(F, a, b, xy)
        if len(da) + len(db) > max_diff:
            continue          # not twins in the sense of this rule (too far apart to start with)
        n += 1
        key = "%s<->%s" % (pair_label(a, F), pair_label(b, F))
        if accepted is not None and key not in accepted:
            continue          # a pair that was not there at review time (new or renamed twins): not judged
        acc = set((accepted or {}).get(key, []))
        seen_keys.add(key)
        for it in da:
            if "A:" + it not in acc:
                out.append((key, a, b, "only in %s: %s" % (pair_label(a, F), it), "A:" + it))
        for it in db:
            if "B:" + it not in acc:
                out.append((key, a, b, "only in %s: %s" % (pair_label(b, F), it), "B:" + it))
    return n, out


def pair_label(g, F=None):
    f = F.fns.get(g) if F is not None else None
    if f is not None and f.impl_self:
        return strip_generics(f.impl_self).rsplit("::", 1)[-1] + "::" + (f.name or g.rsplit("::", 1)[-1])
    t = strip_generics(g)
    parts = [p_ for p_ in t.split("::") if p_]
    return "::".join(parts[-2:]) if len(parts) >= 2 else t


def twin_rule(cx, rep, rid, file_re, floor=1):
    """obligations of the twin rule for the twins whose first function lies in a file matching file_re"""
    import json
    import os
    F = cx.rs
    table = json.load(open(os.path.join(cx.verif, "tables", "twins.json")))["accepted"]
    sel = lambda f: f.crate != "beff_wasm" and "test" not in f.id and "/src/" in (f.file or "")
    n, new = evaluate(F, sel, table)
    judged = 0
    by_key = {}
    for key, a, b, msg, item in new:
        by_key.setdefault(key, []).append((a, b, msg, item))
    pairs = find_pairs(F, sel)
    for (a, b), xy in sorted(pairs.items()):
        key = "%s<->%s" % (pair_label(a, F), pair_label(b, F))
        if key not in table or not re.search(file_re, F.fns[a].file or ""):
            continue
        judged += 1
        bad = by_key.get(key, [])
        rep.ob(rid, "twins/%s" % key, not bad,
               "the twin functions %s and %s no longer agree: %s (their abstract signatures - project callees, trait methods, variants built or matched, fields touched - agreed up to `%s`<->`%s` except for the reviewed differences in tables/twins.json; one twin was changed without the other)" % (
                   a, b, "; ".join(m for _, _, m, _ in bad[:3]), xy[0], xy[1]),
               F.fns[a].loc(), sample={"twins": key, "reviewed_differences": len(table[key])})
    rep.floor(rid, "twin pairs judged", judged, floor)
