"""TypeScript/JavaScript fact base: swc AST (JSON, from engines/tsdump) + helpers."""
import bisect
import json
import os


class TsClass:
    def __init__(self, node, exported, mod):
        self.node = node
        self.mod = mod
        self.exported = exported
        self.name = node["identifier"]["value"]
        sc = node.get("superClass")
        self.extends = sc.get("value") if sc and sc.get("type") == "Identifier" else None
        self.implements = [i["expression"].get("value") for i in node.get("implements", [])]
        self.is_abstract = node.get("isAbstract", False)
        self.fields = {}       # name -> ClassProperty node
        self.methods = {}      # name -> ClassMethod node (function in ["function"])
        self.ctor = None
        for m in node["body"]:
            t = m["type"]
            key = m.get("key") or {}
            kname = key.get("value")
            if t == "ClassProperty":
                self.fields[kname] = m
            elif t == "ClassMethod":
                self.methods[kname] = m
            elif t == "Constructor":
                self.ctor = m
            elif t == "PrivateProperty":
                self.fields["#" + key.get("id", {}).get("value", "?")] = m
            elif t == "PrivateMethod":
                self.methods["#" + key.get("id", {}).get("value", "?")] = m

    def ctor_params(self):
        """list of (name, annotation node or None)"""
        out = []
        if not self.ctor:
            return out
        for p in self.ctor["params"]:
            if p["type"] == "Parameter":
                pat = p["pat"]
            elif p["type"] == "TsParameterProperty":
                pat = p["param"]
            else:
                pat = p
            if pat["type"] == "AssignmentPattern":
                pat = pat["left"]
            ann = (pat.get("typeAnnotation") or {}).get("typeAnnotation")
            out.append((pat.get("value"), ann))
        return out

    def ctor_assignments(self):
        """map field -> expression node assigned by `this.f = expr` in the constructor"""
        out = {}
        if not self.ctor or not self.ctor.get("body"):
            return out
        for st in self.ctor["body"]["stmts"]:
            if st["type"] == "ExpressionStatement" and st["expression"]["type"] == "AssignmentExpression":
                a = st["expression"]
                l = a["left"]
                if l["type"] == "MemberExpression" and l["object"]["type"] == "ThisExpression" and l["property"]["type"] == "Identifier":
                    out[l["property"]["value"]] = a["right"]
        return out

    def method_fn(self, name):
        m = self.methods.get(name)
        return m["function"] if m else None


class TsModule:
    def __init__(self, json_path, rel):
        with open(json_path) as fh:
            d = json.load(fh)
        self.rel = rel
        self.path = d["file"]
        self.line_starts = d["line_starts"]
        self.module = d["module"]
        self.classes = {}
        self.functions = {}     # top-level function declarations: name -> FunctionDeclaration node
        self.vars = {}          # top-level const/let: name -> (kind, init node, declarator)
        self.interfaces = {}
        self.type_aliases = {}
        self.imports = []       # (source, [(imported, local)])
        self.exports = set()
        self._src = None
        for it in self.module["body"]:
            self._top(it, False)

    def _top(self, it, exported):
        t = it["type"]
        if t == "ExportDeclaration":
            self._top(it["declaration"], True)
        elif t == "ClassDeclaration":
            c = TsClass(it, exported, self)
            self.classes[c.name] = c
            if exported:
                self.exports.add(c.name)
        elif t == "FunctionDeclaration":
            self.functions[it["identifier"]["value"]] = it
            if exported:
                self.exports.add(it["identifier"]["value"])
        elif t == "VariableDeclaration":
            for d in it["declarations"]:
                if d["id"]["type"] == "Identifier":
                    self.vars[d["id"]["value"]] = (it["kind"], d.get("init"), d)
                    if exported:
                        self.exports.add(d["id"]["value"])
        elif t == "TsInterfaceDeclaration":
            self.interfaces[it["id"]["value"]] = it
        elif t == "TsTypeAliasDeclaration":
            self.type_aliases[it["id"]["value"]] = it
        elif t == "ImportDeclaration":
            names = []
            for s in it["specifiers"]:
                if s["type"] == "ImportSpecifier":
                    imported = (s.get("imported") or s["local"]).get("value")
                    names.append((imported, s["local"]["value"]))
                elif s["type"] == "ImportDefaultSpecifier":
                    names.append(("default", s["local"]["value"]))
                elif s["type"] == "ImportNamespaceSpecifier":
                    names.append(("*", s["local"]["value"]))
            self.imports.append((it["source"]["value"], names))
        elif t == "ExportNamedDeclaration":
            for s in it["specifiers"]:
                if s["type"] == "ExportSpecifier":
                    self.exports.add((s.get("exported") or s["orig"]).get("value"))

    # ------------------------------------------------------------------
    def line(self, node):
        sp = node.get("span") if isinstance(node, dict) else None
        if not sp:
            return 0
        return bisect.bisect_right(self.line_starts, sp["start"])

    def loc(self, node):
        return "%s:%d" % (self.rel, self.line(node))

    def text(self, node):
        if self._src is None:
            p = self.path if os.path.isabs(self.path) else None
            for base in (os.environ.get("VERIF_REPO", "/repo"), os.path.dirname(os.path.dirname(os.path.abspath(__file__)))):
                q = os.path.join(base, self.path)
                if os.path.exists(q):
                    p = q
                    break
            self._src = open(p, "rb").read()
        sp = node["span"]
        base = self.line_starts[0]
        return self._src[sp["start"] - base: sp["end"] - base].decode("utf8", "replace")


def walk(node):
    """pre-order over all AST dict nodes (those carrying a 'type')"""
    stack = [node]
    while stack:
        n = stack.pop()
        if isinstance(n, dict):
            if "type" in n:
                yield n
            for k, v in reversed(list(n.items())):
                if k in ("span", "ctxt"):
                    continue
                if isinstance(v, (dict, list)):
                    stack.append(v)
        elif isinstance(n, list):
            for v in reversed(n):
                if isinstance(v, (dict, list)):
                    stack.append(v)


FUNC_TYPES = ("FunctionExpression", "ArrowFunctionExpression", "FunctionDeclaration")


def walk_no_nested_fn(node):
    """like walk, but does not descend into nested function bodies"""
    stack = [node]
    first = True
    while stack:
        n = stack.pop()
        if isinstance(n, dict):
            if "type" in n:
                yield n
                if not first and n["type"] in FUNC_TYPES:
                    continue
            first = False
            for k, v in reversed(list(n.items())):
                if k in ("span", "ctxt"):
                    continue
                if isinstance(v, (dict, list)):
                    stack.append(v)
        elif isinstance(n, list):
            for v in reversed(n):
                if isinstance(v, (dict, list)):
                    stack.append(v)


def unparen(e):
    while isinstance(e, dict) and e.get("type") in ("ParenthesisExpression", "TsAsExpression", "TsNonNullExpression",
                                                     "TsTypeAssertion", "TsConstAssertion", "TsSatisfiesExpression"):
        e = e["expression"]
    return e


def s(e):
    """canonical, whitespace-free rendering of an expression (for comparing guards)"""
    if e is None:
        return ""
    e = unparen(e)
    t = e.get("type")
    if t == "Identifier":
        return e["value"]
    if t == "ThisExpression":
        return "this"
    if t == "StringLiteral":
        return json.dumps(e["value"])
    if t == "NumericLiteral":
        v = e["value"]
        return str(int(v)) if float(v).is_integer() else str(v)
    if t == "BooleanLiteral":
        return "true" if e["value"] else "false"
    if t == "NullLiteral":
        return "null"
    if t == "BigIntLiteral":
        return str(e.get("raw") or e.get("value"))
    if t == "RegExpLiteral":
        return "/%s/%s" % (e["pattern"], e["flags"])
    if t == "MemberExpression":
        p = e["property"]
        if p["type"] == "Computed":
            return "%s[%s]" % (s(e["object"]), s(p["expression"]))
        if p["type"] == "PrivateName":
            return "%s.#%s" % (s(e["object"]), p.get("id", {}).get("value"))
        return "%s.%s" % (s(e["object"]), p["value"])
    if t == "OptionalChainingExpression":
        b = e["base"]
        return s(b) + "?"
    if t == "CallExpression":
        return "%s(%s)" % (s(e["callee"]), ",".join(s(a["expression"]) if not a.get("spread") else "..." + s(a["expression"]) for a in e["arguments"]))
    if t == "NewExpression":
        return "new %s(%s)" % (s(e["callee"]), ",".join(s(a["expression"]) for a in (e.get("arguments") or [])))
    if t == "UnaryExpression":
        op = e["operator"]
        return "%s%s%s" % (op, " " if op.isalpha() else "", s(e["argument"]))
    if t == "BinaryExpression":
        return "(%s%s%s)" % (s(e["left"]), e["operator"], s(e["right"]))
    if t == "AssignmentExpression":
        return "%s%s%s" % (s(e["left"]), e["operator"], s(e["right"]))
    if t == "ConditionalExpression":
        return "(%s?%s:%s)" % (s(e["test"]), s(e["consequent"]), s(e["alternate"]))
    if t == "TemplateLiteral":
        out = []
        for i, q in enumerate(e["quasis"]):
            out.append(q.get("cooked") if q.get("cooked") is not None else q.get("raw", ""))
            if i < len(e["expressions"]):
                out.append("${%s}" % s(e["expressions"][i]))
        return "`%s`" % "".join(out)
    if t == "ArrayExpression":
        return "[%s]" % ",".join(("..." if (x or {}).get("spread") else "") + s((x or {}).get("expression")) for x in e["elements"])
    if t == "ObjectExpression":
        parts = []
        for p in e["properties"]:
            if p["type"] == "KeyValueProperty":
                parts.append("%s:%s" % (prop_key(p["key"]), s(p["value"])))
            elif p["type"] == "SpreadElement":
                parts.append("..." + s(p["arguments"]))
            elif p["type"] == "Identifier":
                parts.append(p["value"])
            else:
                parts.append("<%s>" % p["type"])
        return "{%s}" % ",".join(parts)
    if t == "Super":
        return "super"
    if t == "UpdateExpression":
        return (e["operator"] + s(e["argument"])) if e.get("prefix") else (s(e["argument"]) + e["operator"])
    if t in ("ArrowFunctionExpression", "FunctionExpression"):
        return "<fn>"
    if t == "SequenceExpression":
        return ",".join(s(x) for x in e["expressions"])
    if t == "AwaitExpression":
        return "await " + s(e["argument"])
    return "<%s>" % t


def prop_key(k):
    t = k["type"]
    if t in ("Identifier", "StringLiteral"):
        return k["value"]
    if t == "NumericLiteral":
        return s(k)
    if t == "Computed":
        return "[%s]" % s(k["expression"])
    return "<%s>" % t


def callee_name(call):
    """`foo` for foo(..), `x.m` rendering for method calls"""
    return s(call["callee"])


def method_call(e):
    """if e is `obj.m(args)` return (obj node, 'm', args) else None"""
    e = unparen(e)
    if e.get("type") != "CallExpression":
        return None
    c = unparen(e["callee"])
    if c.get("type") == "MemberExpression" and c["property"]["type"] == "Identifier":
        return c["object"], c["property"]["value"], [a["expression"] for a in e["arguments"]]
    return None


def type_str(t):
    """compact rendering of a TS type annotation node"""
    if t is None:
        return ""
    k = t.get("type")
    if k == "TsKeywordType":
        return t["kind"]
    if k == "TsTypeReference":
        n = t["typeName"]
        name = n.get("value") if n["type"] == "Identifier" else s_qual(n)
        tp = t.get("typeParams")
        if tp:
            return "%s<%s>" % (name, ",".join(type_str(p) for p in tp["params"]))
        return name
    if k == "TsArrayType":
        return type_str(t["elemType"]) + "[]"
    if k == "TsUnionType":
        return "|".join(type_str(x) for x in t["types"])
    if k == "TsIntersectionType":
        return "&".join(type_str(x) for x in t["types"])
    if k == "TsLiteralType":
        return s(t["literal"])
    if k == "TsTypeLiteral":
        return "{...}"
    if k == "TsParenthesizedType":
        return type_str(t["typeAnnotation"])
    if k == "TsTupleType":
        return "[%s]" % ",".join(type_str(x.get("ty")) for x in t["elemTypes"])
    if k == "TsFunctionType":
        return "<fn>"
    return "<%s>" % k


def s_qual(n):
    if n["type"] == "Identifier":
        return n["value"]
    if n["type"] == "TsQualifiedName":
        return s_qual(n["left"]) + "." + n["right"]["value"]
    return "?"


def literal_union(t):
    """set of literal values of a union-of-literals annotation, else None"""
    if t is None:
        return None
    if t.get("type") == "TsParenthesizedType":
        return literal_union(t["typeAnnotation"])
    if t.get("type") == "TsLiteralType":
        lit = t["literal"]
        if lit["type"] in ("StringLiteral", "NumericLiteral", "BooleanLiteral"):
            return {lit["value"]}
        return None
    if t.get("type") == "TsUnionType":
        out = set()
        for x in t["types"]:
            r = literal_union(x)
            if r is None:
                return None
            out |= r
        return out
    return None


# ---------------------------------------------------------------------------
# seeing through private helpers (opt-in, per rule)

def _fn_of(decl):
    """function node (params/body) of a ClassMethod / FunctionDeclaration / function expression"""
    if decl is None:
        return None
    if decl.get("type") in ("ClassMethod", "PrivateMethod"):
        return decl["function"]
    return decl


_ARROWS = {}


def resolve_local_call(mod, cname, call):
    """(function node, owner class name or None) when `call` is this.m(..) / C.m(..) / f(..) and the target is a
    method of class `cname` (or of the named class C) or a top-level function of the module; else None.  Interface
    methods reached through other objects (child.validate(..)) are never resolved."""
    c = unparen(call["callee"])
    if c.get("type") == "Identifier":
        d = mod.functions.get(c["value"])
        if d is None:
            # `const f = (x) => expr` / `const f = function (x) { .. }` at module level
            v = mod.vars.get(c["value"])
            init = unparen(v[1]) if v and v[1] is not None else None
            if init is not None and init.get("type") in ("ArrowFunctionExpression", "FunctionExpression") and init.get("body") is not None:
                d = _ARROWS.get(id(init))
                if d is None:
                    d = dict(init)
                    if d["body"].get("type") != "BlockStatement":
                        d["body"] = {"type": "BlockStatement", "span": d["body"].get("span"), "ctxt": 0,
                                     "stmts": [{"type": "ReturnStatement", "span": d["body"].get("span"), "argument": d["body"]}]}
                    # arrow parameters are patterns, function parameters wrap them in {pat: ..}
                    d["params"] = [p_ if "pat" in p_ else {"type": "Parameter", "span": p_.get("span"), "decorators": [], "pat": p_} for p_ in d.get("params", [])]
                    _ARROWS[id(init)] = d
        return (_fn_of(d), None) if d is not None and d.get("body") is not None else None
    if c.get("type") == "MemberExpression" and c["property"]["type"] in ("Identifier", "PrivateName"):
        o = unparen(c["object"])
        nm = c["property"]["value"] if c["property"]["type"] == "Identifier" else "#" + c["property"].get("id", {}).get("value", "?")
        owner = None
        if o.get("type") == "ThisExpression":
            owner = cname
        elif o.get("type") == "Identifier" and o["value"] in mod.classes:
            owner = o["value"]
        seen = set()
        while owner and owner in mod.classes and owner not in seen:
            seen.add(owner)
            m = mod.classes[owner].methods.get(nm)
            if m is not None:
                f = m["function"]
                return (f, owner) if f.get("body") is not None else None
            owner = mod.classes[owner].extends
    return None


def _simple_arg(e):
    e = unparen(e)
    t = e.get("type")
    if t in ("Identifier", "ThisExpression", "StringLiteral", "NumericLiteral", "BooleanLiteral", "NullLiteral"):
        return True
    if t == "MemberExpression" and e["property"]["type"] == "Identifier":
        return _simple_arg(e["object"])
    return False


def _declared_names(fn):
    out = set()
    for n in walk(fn.get("body") or {}):
        if n["type"] == "VariableDeclarator":
            for b in walk(n["id"]):
                if b["type"] == "Identifier":
                    out.add(b["value"])
        elif n["type"] in FUNC_TYPES:
            for p in n.get("params", []):
                for b in walk(p):
                    if b["type"] == "Identifier":
                        out.add(b["value"])
        elif n["type"] == "CatchClause" and n.get("param"):
            for b in walk(n["param"]):
                if b["type"] == "Identifier":
                    out.add(b["value"])
    return out


def _assigned_names(fn):
    out = set()
    for n in walk(fn.get("body") or {}):
        if n["type"] == "AssignmentExpression":
            l = unparen(n["left"])
            if l.get("type") == "Identifier":
                out.add(l["value"])
        elif n["type"] == "UpdateExpression":
            l = unparen(n["argument"])
            if l.get("type") == "Identifier":
                out.add(l["value"])
    return out


def _pure_arg(e):
    """side-effect free argument expression: what _simple_arg accepts, plus computed member reads and arithmetic /
    bitwise operators over pure operands (words[i - 15], OFFSET + 4)"""
    e = unparen(e)
    t = e.get("type")
    if _simple_arg(e):
        return True
    if t == "MemberExpression":
        if not _pure_arg(e["object"]):
            return False
        pr = e["property"]
        return pr["type"] == "Identifier" or (pr["type"] == "Computed" and _pure_arg(pr["expression"]))
    if t == "BinaryExpression" and e["operator"] in ("+", "-", "*", "/", "%", "&", "|", "^", "<<", ">>", ">>>"):
        return _pure_arg(e["left"]) and _pure_arg(e["right"])
    if t == "UnaryExpression" and e["operator"] in ("-", "+", "~"):
        return _pure_arg(e["argument"])
    return False


def inline_clone(fn, call, pure=False):
    """deep copy of the helper's body in which every parameter that receives a simple argument (identifier, this.x,
    literal), is never reassigned and cannot be captured by a local declaration is replaced by that argument.
    Parameters that cannot be substituted keep their own names (the argument stays visible at the call)."""
    import copy
    params = []
    for p in fn.get("params", []):
        pat = p.get("pat", p)
        params.append(pat["value"] if pat.get("type") == "Identifier" else None)
    args = [a["expression"] for a in call["arguments"] if not a.get("spread")]
    declared = _declared_names(fn)
    assigned = _assigned_names(fn)
    sub = {}
    for i, pn in enumerate(params):
        if pn is None or i >= len(args) or pn in assigned or not (_pure_arg(args[i]) if pure else _simple_arg(args[i])):
            continue
        free = {x["value"] for x in walk(args[i]) if x["type"] == "Identifier"}
        if free & declared:
            continue
        sub[pn] = args[i]
    body = copy.deepcopy(fn["body"])

    def rewrite(n):
        if isinstance(n, list):
            return [rewrite(x) for x in n]
        if not isinstance(n, dict):
            return n
        if n.get("type") == "Identifier" and n.get("value") in sub:
            return copy.deepcopy(sub[n["value"]])
        if n.get("type") == "MemberExpression":
            # never rewrite the property name of a non-computed member access
            out = dict(n)
            out["object"] = rewrite(n["object"])
            if n["property"].get("type") == "Computed":
                out["property"] = rewrite(n["property"])
            return out
        if n.get("type") == "KeyValueProperty":
            out = dict(n)
            out["value"] = rewrite(n["value"])
            if n["key"].get("type") == "Computed":
                out["key"] = rewrite(n["key"])
            return out
        if n.get("type") == "Identifier" or "type" not in n:
            return {k: rewrite(v) if k not in ("span",) else v for k, v in n.items()}
        return {k: (rewrite(v) if k not in ("span", "ctxt") else v) for k, v in n.items()}
    return rewrite(body), sub


def walk_inl(mod, cname, node, depth=2, _stack=(), private_only=False):
    """walk() that, at calls of local helpers (see resolve_local_call), also yields the nodes of the helper's body
    with arguments substituted for parameters (inline_clone).  `depth` levels, never recursive."""
    for n in walk(node):
        yield n
        if depth > 0 and n["type"] == "CallExpression":
            r = resolve_local_call(mod, cname, n)
            if r is None:
                continue
            fn, owner = r
            if id(fn) in _stack:
                continue
            if private_only and owner is None and unparen(n["callee"]).get("value") in mod.exports:
                continue
            body, _ = inline_clone(fn, n)
            for x in walk_inl(mod, owner or cname, body, depth - 1, _stack + (id(fn),), private_only):
                yield x



def flatten_fn(mod, cname, fn, depth=3, only=None, _stack=()):
    """A copy of the function in which calls of local helpers (module-level functions, methods of the class reached
    through `this`) are replaced by what they compute, so that rules which recognise a computation by its shape see
    it whether or not a maintainer has moved parts of it into helpers:
      * a helper whose body is `return <expr>` becomes that expression, with the arguments substituted;
      * `helper(args);` as a statement becomes a block holding the helper's body;
      * `const x = helper(args);` becomes a block with the helper's body followed by `const x = <returned expr>`
        when the helper ends in its only `return`.
    A helper is only inlined when every parameter it uses receives a side-effect free argument and is never
    reassigned; `only(helper_fn, call)` can restrict which helpers are inlined; never recursive, `depth` levels."""
    import copy

    def usable(H, call):
        if H.get("body") is None or id(H) in _stack or depth <= 0:
            return None
        if only is not None and not only(H, call):
            return None
        body, sub = inline_clone(H, call, pure=True)
        pnames = []
        for p in H.get("params", []):
            pat = p.get("pat", p)
            pnames.append(pat["value"] if pat.get("type") == "Identifier" else None)
        used = {x["value"] for x in walk(H["body"]) if x["type"] == "Identifier"}
        if any(pn is None or (pn in used and pn not in sub) for pn in pnames):
            return None
        return body

    def again(node, H, owner):
        wrap = {"type": "FunctionExpression", "params": [], "body": node if node.get("type") == "BlockStatement" else
                {"type": "BlockStatement", "span": node.get("span"), "stmts": [{"type": "ReturnStatement", "span": node.get("span"), "argument": node}]},
                "span": node.get("span")}
        out = flatten_fn(mod, owner or cname, wrap, depth - 1, only, _stack + (id(H), id(fn)))
        return out["body"] if node.get("type") == "BlockStatement" else out["body"]["stmts"][0]["argument"]

    def tx(n):
        if isinstance(n, list):
            return [tx(x) for x in n]
        if not isinstance(n, dict):
            return n
        if "stmts" in n and isinstance(n["stmts"], list):
            out = dict(n)
            out["stmts"] = block(n["stmts"])
            return out
        out = {k: (tx(v) if k not in ("span", "ctxt") else v) for k, v in n.items()}
        if out.get("type") == "CallExpression":
            r = resolve_local_call(mod, cname, out)
            if r is not None:
                H, owner = r
                st = (H.get("body") or {}).get("stmts") or []
                if len(st) == 1 and st[0]["type"] == "ReturnStatement" and st[0].get("argument") is not None:
                    body = usable(H, out)
                    if body is not None:
                        ret = again(body["stmts"][0]["argument"], H, owner)
                        return {"type": "ParenthesisExpression", "span": out.get("span"), "expression": ret}
        return out

    def block(stmts):
        res = []
        for st0 in stmts:
            st = tx(st0)
            call, decl = None, None
            if st.get("type") == "ExpressionStatement" and unparen(st["expression"]).get("type") == "CallExpression":
                call = unparen(st["expression"])
            elif st.get("type") == "VariableDeclaration" and len(st["declarations"]) == 1 and st["declarations"][0].get("init") is not None \
                    and unparen(st["declarations"][0]["init"]).get("type") == "CallExpression" and st["declarations"][0]["id"].get("type") == "Identifier":
                call, decl = unparen(st["declarations"][0]["init"]), st
            if call is not None:
                r = resolve_local_call(mod, cname, call)
                if r is not None:
                    H, owner = r
                    hst = (H.get("body") or {}).get("stmts") or []
                    single_ret = len(hst) == 1 and hst[0]["type"] == "ReturnStatement"
                    if hst and not single_ret:
                        body = usable(H, call)
                        if body is not None:
                            rets = [x for x in walk_no_nested_fn(body) if x["type"] == "ReturnStatement"]
                            if decl is None and all(x.get("argument") is None for x in rets):
                                res.append(again(body, H, owner))
                                continue
                            if decl is not None and len(rets) == 1 and body["stmts"][-1] is rets[0] and rets[0].get("argument") is not None:
                                pre = dict(body)
                                pre["stmts"] = body["stmts"][:-1]
                                res.append(again(pre, H, owner))
                                d2 = copy.deepcopy(decl)
                                d2["declarations"][0]["init"] = again(rets[0]["argument"], H, owner)
                                res.append(d2)
                                continue
            res.append(st)
        return res
    out = dict(fn)
    if fn.get("body") is not None:
        out["body"] = tx(fn["body"])
    return out
