"""Obligation bookkeeping, known findings, evidence and VIOLATION output."""
import hashlib
import json
import os
import sys
import time

VERIF = os.path.dirname(os.path.dirname(os.path.abspath(__file__)))


class Report:
    def __init__(self, pid, tier, level="other"):
        self.pid = pid
        self.tier = tier
        self.level = level
        self.t0 = time.time()
        self.rules = {}          # rule -> dict(obligations, discharged, desc)
        self.violations = []     # dict(rule,key,msg,loc)
        self.samples = []
        self.analysed = {}
        self.assumptions = []
        self.trusted = []
        self.explanation = ""
        self.notes = []
        self.extra = {}
        kf = json.load(open(os.path.join(VERIF, "known_findings.json")))
        self.known = {}
        for e in kf.get("findings", []):
            if e["property"] == pid:
                self.known[e["key"]] = e
        self.known_hit = set()

    # -- rules / obligations ------------------------------------------------
    def rule(self, rid, desc):
        self.rules.setdefault(rid, {"desc": desc, "obligations": 0, "discharged": 0, "instances": []})

    def ob(self, rid, key, ok, msg="", loc=None, sample=None):
        """one obligation of rule `rid`; key must be stable (no line numbers)"""
        r = self.rules[rid]
        r["obligations"] += 1
        if ok:
            r["discharged"] += 1
            if sample is not None and len(r["instances"]) < 6:
                r["instances"].append(sample)
            elif len(r["instances"]) < 6:
                r["instances"].append({"key": key, "loc": loc, "ok": True, **({"note": msg} if msg else {})})
        else:
            self.violation(rid, key, msg, loc)
        return ok

    def violation(self, rid, key, msg, loc=None):
        full = "%s/%s" % (rid, key)
        self.violations.append({"rule": rid, "key": full, "msg": msg, "loc": loc})

    def floor(self, rid, what, got, floor):
        """fail closed when an anchor / instance count falls below what was confirmed by hand"""
        r = self.rules[rid]
        r.setdefault("floors", []).append({"what": what, "got": got, "floor": floor})
        if got < floor:
            self.violation(rid, "floor/%s" % what,
                           "instance count for '%s' is %d, below the confirmed floor %d: anchor lost or rule would pass vacuously"
                           % (what, got, floor))

    def anchor_missing(self, rid, what, err=""):
        self.violation(rid, "anchor/%s" % what, "anchor '%s' not found in the current tree (%s); rule fails closed" % (what, err))

    def sample(self, s):
        if len(self.samples) < 40:
            self.samples.append(s)

    def finish_subrun(self):
        """self-validation sub-run on a scratch copy: no evidence, no replay files, no VIOLATION lines"""
        keys = sorted({v["key"] for v in self.violations if v["key"] not in self.known})
        print("SUBRUN-KEYS: " + json.dumps(keys))
        return 1 if keys else 0

    # -- finish -----------------------------------------------------------------
    def finish(self):
        if getattr(self, "subrun", False):
            return self.finish_subrun()
        real = []
        out_lines = []
        for v in self.violations:
            if v["key"] in self.known:
                if v["key"] not in self.known_hit:
                    self.known_hit.add(v["key"])
                    k = self.known[v["key"]]
                    out_lines.append("KNOWN-FINDING: property=%s %s -- %s [%s]" % (self.pid, v["key"], k.get("what", v["msg"]), v.get("loc") or ""))
            else:
                real.append(v)
        stale = [k for k in self.known if k not in self.known_hit]
        obligations = sum(r["obligations"] for r in self.rules.values())
        discharged = sum(r["discharged"] for r in self.rules.values())
        replay_dir = os.path.join(VERIF, "replay", self.pid)
        rc = 0
        seen = set()
        for v in real:
            if v["key"] in seen:
                continue
            seen.add(v["key"])
            os.makedirs(replay_dir, exist_ok=True)
            h = hashlib.sha1(v["key"].encode()).hexdigest()[:12]
            p = os.path.join(replay_dir, h + ".json")
            with open(p, "w") as fh:
                json.dump({"property": self.pid, **v, "rule_desc": self.rules.get(v["rule"], {}).get("desc")}, fh, indent=1)
            out_lines.append("%s: %s: %s" % (v.get("loc") or "-", v["key"], v["msg"]))
            out_lines.append("VIOLATION property=%s replay=%s" % (self.pid, p))
            rc = 1
        cov = {
            "obligations": obligations,
            "discharged": discharged,
            "explanation": self.explanation,
            "trusted_base": self.trusted,
            "checker_cmd": "./check %s --tier %s" % (self.pid, self.tier),
            "rules": {rid: {k: v for k, v in r.items()} for rid, r in self.rules.items()},
            "analysed": self.analysed,
            "samples": self.samples or [i for r in self.rules.values() for i in r["instances"]][:20] or ["(no instance recorded)"],
            "known_findings_reported": sorted(self.known_hit),
            "known_findings_not_reproduced": stale,
            "exhaustive": True,
        }
        cov.update(self.extra)
        ev = {
            "property_id": self.pid,
            "tier": self.tier,
            "seed": int(os.environ.get("VERIF_SEED", "0") or 0),
            "level": self.level,
            "coverage": cov,
            "assumptions": self.assumptions,
            "wall_s": round(time.time() - self.t0, 3),
            "violations": len(seen),
        }
        os.makedirs(os.path.join(VERIF, "evidence"), exist_ok=True)
        with open(os.path.join(VERIF, "evidence", self.pid + ".json"), "w") as fh:
            json.dump(ev, fh, indent=1, sort_keys=False)
            fh.write("\n")
        for rid, r in sorted(self.rules.items()):
            print("  %-8s %3d/%-3d  %s" % (rid, r["discharged"], r["obligations"], r["desc"]))
        for n in self.notes:
            print("  note: " + n)
        for k in stale:
            print("  note: known finding %s did not reproduce on this tree (entry suppresses nothing)" % k)
        for l in out_lines:
            print(l)
        print("%s %s: %d obligations, %d discharged, %d violation(s), %d known finding(s) [%.1fs]" % (
            self.pid, self.tier, obligations, discharged, len(seen), len(self.known_hit), time.time() - self.t0))
        sys.stdout.flush()
        return rc
