"""Intraprocedural helpers over the MIR skeleton of one function."""
import collections
import re


def op_place(op):
    if op and op.get("k") in ("copy", "move"):
        return op["place"]
    return None


def op_local(op, allow_proj=False):
    p = op_place(op)
    if p is None:
        return None
    if p["p"] and not allow_proj:
        return None
    return p["l"]


ADAPTORS = {"map", "filter", "filter_map", "cloned", "copied", "flat_map", "flatten", "chain", "peekable", "by_ref",
            "into_iter", "inspect", "map_while", "skip_while", "take_while", "fuse", "iter"}
TERMINALS_OK = {"count", "any", "all", "sum", "product", "min", "max", "len", "is_empty"}
COLLECTS = {"collect", "from_iter", "extend", "unzip", "partition"}
ORDERED_TARGET = re.compile(r"^(std::collections::(BTreeMap|BTreeSet|HashMap|HashSet|BinaryHeap)|alloc::collections::(BTreeMap|BTreeSet))\b")
SORTS = {"sort", "sort_by", "sort_by_key", "sort_unstable", "sort_unstable_by", "sort_unstable_by_key", "sort_by_cached_key"}
PASS_THROUGH = {"deref", "deref_mut", "as_mut_slice", "as_slice", "borrow", "borrow_mut", "as_mut", "as_ref", "unwrap",
                "expect", "branch", "from_residual", "into", "from", "clone"}


class FnFlow:
    def __init__(self, fn):
        self.fn = fn
        self.mir = fn.mir
        self.blocks = self.mir["blocks"]
        self._dom = None

    # -- CFG ----------------------------------------------------------------
    def succ(self, bi, unwind=False):
        t = self.blocks[bi]["term"]
        k = t["k"]
        out = []
        if k == "Goto":
            out = [t["target"]]
        elif k == "SwitchInt":
            out = [b for _, b in t["targets"]] + [t["otherwise"]]
        elif k in ("Call", "Drop", "Assert"):
            if t.get("target") is not None:
                out = [t["target"]]
            if unwind and t.get("unwind") is not None:
                out.append(t["unwind"])
        return out

    def preds(self):
        p = collections.defaultdict(list)
        for i in range(len(self.blocks)):
            for s in self.succ(i):
                p[s].append(i)
        return p

    def reachable_from(self, start, stop=None):
        """blocks reachable from block `start` along normal edges, not passing through blocks in `stop`"""
        seen = set()
        work = [start]
        stop = stop or set()
        while work:
            b = work.pop()
            if b in seen or b in stop:
                continue
            seen.add(b)
            work.extend(self.succ(b))
        return seen

    def dominators(self):
        """dom[b] = set of blocks dominating b (normal edges, entry = 0)"""
        if self._dom is not None:
            return self._dom
        n = len(self.blocks)
        reach = self.reachable_from(0)
        preds = self.preds()
        allb = set(reach)
        dom = {b: set(allb) for b in reach}
        dom[0] = {0}
        changed = True
        order = sorted(reach)
        while changed:
            changed = False
            for b in order:
                if b == 0:
                    continue
                ps = [p for p in preds[b] if p in reach]
                if not ps:
                    continue
                new = set.intersection(*(dom[p] for p in ps)) | {b}
                if new != dom[b]:
                    dom[b] = new
                    changed = True
        self._dom = dom
        return dom

    def return_blocks(self):
        return [i for i, b in enumerate(self.blocks) if b["term"]["k"] == "Return"]

    # -- def/use --------------------------------------------------------------
    def defs_of(self, local):
        """[(bb, stmt-or-term)] that assign exactly the local (no projection)"""
        out = []
        for bi, b in enumerate(self.blocks):
            for st in b["stmts"]:
                if st["k"] == "Assign" and st["place"]["l"] == local and not st["place"]["p"]:
                    out.append((bi, st))
            t = b["term"]
            if t["k"] == "Call" and t["dest"]["l"] == local and not t["dest"]["p"]:
                out.append((bi, t))
        return out

    def alias_closure(self, seeds, through_calls=PASS_THROUGH):
        """locals that hold (a move/copy/reference/pass-through-call result of) one of the seed locals"""
        A = set(seeds)
        changed = True
        while changed:
            changed = False
            for b in self.blocks:
                for st in b["stmts"]:
                    if st["k"] != "Assign" or st["place"]["p"]:
                        continue
                    L = st["place"]["l"]
                    if L in A:
                        continue
                    rv = st["rv"]
                    src = None
                    if rv["k"] in ("Use", "Cast"):
                        src = op_place(rv["op"])
                    elif rv["k"] in ("Ref", "RawPtr", "CopyForDeref"):
                        src = rv["place"]
                    if src is not None and src["l"] in A and all(p == "*" for p in src["p"]):
                        A.add(L)
                        changed = True
                t = b["term"]
                if t["k"] == "Call" and not t["dest"]["p"] and t["dest"]["l"] not in A and through_calls:
                    m = (t["callee"].get("path") or "").rsplit("::", 1)[-1]
                    if m in through_calls and t["args"]:
                        a0 = op_place(t["args"][0])
                        if a0 is not None and a0["l"] in A and all(p == "*" for p in a0["p"]):
                            A.add(t["dest"]["l"])
                            changed = True
        return A

    def closure_is_pure(self, op):
        """closure operand captures nothing by &mut (fn items are pure)"""
        if op.get("k") == "const":
            return True
        l = op_local(op)
        if l is None:
            return False
        for _, d in self.defs_of(l):
            rv = d.get("rv")
            if not rv:
                return False
            if rv["k"] == "Aggregate" and rv.get("agg") == "Closure":
                for cap in rv["ops"]:
                    cl = op_local(cap)
                    if cl is None:
                        if cap.get("k") == "const":
                            continue
                        return False
                    for _, dd in self.defs_of(cl):
                        r2 = dd.get("rv")
                        if r2 and r2["k"] == "Ref" and r2.get("mut"):
                            return False
                        if r2 is None:
                            return False
            elif rv["k"] == "Use":
                if not self.closure_is_pure(rv["op"]):
                    return False
            else:
                return False
        return True

    def call_uses(self, A):
        """[(bb, term, arg index)] call terminators taking a local of A as an argument"""
        out = []
        for bi, b in enumerate(self.blocks):
            t = b["term"]
            if t["k"] != "Call":
                continue
            for ai, a in enumerate(t["args"]):
                p = op_place(a)
                if p is not None and p["l"] in A:
                    out.append((bi, t, ai))
        return out

    # -- C10 consumer analysis ----------------------------------------------------
    def order_insensitive_consumer(self, call, closure_lookup=None):
        dest = call.term["dest"]
        if dest["p"]:
            return False, "iterator stored into a projection"
        if closure_lookup is not None:
            self.closure_lookup = closure_lookup
        m = (call.path or call.best or "").rsplit("::", 1)[-1]
        self.elem_kind = "values" if m in ("values", "values_mut", "into_values") else ("keys" if m in ("keys", "into_keys") else "pairs")
        return self._judge_iter({dest["l"]}, set(), 0)

    def _judge_iter(self, seeds, visited_calls, depth):
        if depth > 6:
            return False, "adaptor chain too deep"
        A = self.alias_closure(seeds, through_calls=None)
        uses = self.call_uses(A)
        if not uses:
            return False, "no consuming call found in the function (iterator escapes or is returned)"
        verdicts = []
        for bi, t, ai in uses:
            if id(t) in visited_calls:
                continue
            visited_calls.add(id(t))
            path = t["callee"].get("path") or "<indirect>"
            m = path.rsplit("::", 1)[-1]
            others = [a for j, a in enumerate(t["args"]) if j != ai]
            if ai != 0:
                if m in ("extend",) and self._collect_target_ok(t):
                    verdicts.append((True, "extend into ordered/hash container"))
                    continue
                return False, "iterator passed as argument %d of %s" % (ai, path)
            if m in ADAPTORS:
                if not all(self.closure_is_pure(o) for o in others):
                    return False, "adaptor %s with a closure that captures by &mut" % m
                ok, why = self._judge_iter({t["dest"]["l"]}, visited_calls, depth + 1)
                if not ok:
                    return False, why
                verdicts.append((True, "%s -> %s" % (m, why)))
            elif m in TERMINALS_OK:
                if not all(self.closure_is_pure(o) for o in others):
                    return False, "%s with a closure that captures by &mut" % m
                verdicts.append((True, m))
            elif m in COLLECTS:
                if self._collect_target_ok(t):
                    verdicts.append((True, "collect into ordered/hash container"))
                elif self._collect_is_vec(t):
                    ok, why = self.vec_sorted_before_use(t["dest"]["l"], bi, getattr(self, "elem_kind", "pairs"))
                    if not ok:
                        return False, why
                    verdicts.append((True, "collect::<Vec> then sort"))
                else:
                    return False, "collect into %s" % (t["callee"].get("targs") or ["?"])[-1]
            elif m == "next":
                return False, "explicit/for-loop iteration (next) — loop body sees hash order"
            elif m == "drop" or path.endswith("drop_in_place"):
                continue
            else:
                return False, "consumer %s is not a recognised order-insensitive one" % path
        if not verdicts:
            return False, "no consumer"
        return True, "; ".join(v for _, v in verdicts)

    def _collect_target_ok(self, t):
        targs = t["callee"].get("targs") or []
        # Iterator::collect::<B>: [Self, B]; FromIterator::from_iter: [Self(B), T, I]; Extend::extend: [Self, T, I]
        path = t["callee"].get("path") or ""
        cand = []
        if path.endswith("::collect") and len(targs) >= 2:
            cand = [targs[1]]
        elif targs:
            cand = [targs[0]]
        return any(ORDERED_TARGET.match(c.lstrip("&").replace("mut ", "")) for c in cand)

    def _collect_is_vec(self, t):
        targs = t["callee"].get("targs") or []
        return len(targs) >= 2 and targs[1].startswith("std::vec::Vec<")

    def vec_sorted_before_use(self, vlocal, from_bb, elem_kind="pairs"):
        """the collected Vec is sorted by a TOTAL key before any other use. Total = plain sort()/sort_unstable()
        of map keys or (key, value) pairs (hash-map keys are unique), or sort_by_key / sort_by whose closure only
        projects component .0 (the unique key) of the element; anything else may tie and keep hash order."""
        A = self.alias_closure({vlocal})
        uses = self.call_uses(A)
        dom = self.dominators()
        sorts = []
        others = []
        for bi, t, ai in uses:
            m = (t["callee"].get("path") or "").rsplit("::", 1)[-1]
            if m in SORTS:
                sorts.append((bi, t, m))
            elif m in PASS_THROUGH or m == "drop" or "drop_in_place" in (t["callee"].get("path") or ""):
                continue
            else:
                others.append((bi, t))
        if not sorts:
            return False, "collected Vec is never sorted"
        for bi, t, m in sorts:
            if m in ("sort", "sort_unstable"):
                if elem_kind == "values":
                    return False, "values are sorted with their own Ord: elements that compare equal keep hash order"
                continue
            ok, why = self._sort_key_is_map_key(t)
            if not ok:
                return False, why
        for bi, t in others:
            if not any(sb in dom.get(bi, ()) and sb != bi for sb, _, _ in sorts):
                return False, "collected Vec is used by %s before being sorted" % t["callee"].get("path")
        return True, "sorted by a total key before use"

    def _sort_key_is_map_key(self, t):
        """sort_by_key(|e| ..) / sort_by(|a, b| ..): the closure may only read component .0 of its element(s)"""
        if elem_kind_of(t) is None:
            pass
        clos = None
        for a in t["args"][1:]:
            l = op_local(a)
            if l is None:
                continue
            for _, d in self.defs_of(l):
                rv = d.get("rv")
                if rv and rv["k"] == "Aggregate" and rv.get("agg") == "Closure":
                    clos = rv["closure"]
        if clos is None:
            return False, "sort key is not a closure literal: cannot show that the key is total"
        cf = self.closure_lookup(clos) if hasattr(self, "closure_lookup") else None
        if cf is None or not cf.mir:
            return False, "sort key closure not found"
        argc = cf.mir["arg_count"]
        for b in cf.mir["blocks"]:
            places = []
            for st in b["stmts"]:
                if st["k"] == "Assign":
                    rv = st["rv"]
                    for k in ("op", "a", "b"):
                        if isinstance(rv.get(k), dict) and rv[k].get("place"):
                            places.append(rv[k]["place"])
                    if rv.get("place"):
                        places.append(rv["place"])
            tm = b["term"]
            for a in tm.get("args", []):
                if a.get("place"):
                    places.append(a["place"])
            for pl in places:
                if 2 <= pl["l"] <= argc:
                    fields = [x for x in pl["p"] if x.startswith("f:")]
                    if not fields or fields[0] != "f:#0":
                        return False, "sort key closure reads %s of the element, not only the (unique) map key `.0`: elements with equal keys keep hash order" % (fields[:1] or ["the whole element"])
        return True, "keyed by the map key"


def elem_kind_of(t):
    return None


# ---------------------------------------------------------------------------
# backward data-dependence closure ("origins")

def _place_roots(fn_is_closure, place):
    """base of a place: ('upvar', i) for closure captures, else ('local', l)"""
    l = place["l"]
    if fn_is_closure and l == 1:
        for p in place["p"]:
            if p == "*":
                continue
            if p.startswith("f:#"):
                return ("upvar", int(p[3:]))
            break
    return ("local", l)


class Origins:
    """may-depend-on closure of a local: params, closure upvars, calls, constants, aggregates"""

    def __init__(self, flow, keep=None):
        """keep: optional predicate on a local's type; locals whose type it rejects are not traversed (value
        provenance of one kind of payload instead of any dependence, e.g. not through a bool condition)"""
        self.keep = keep
        self.flow = flow
        self.fn = flow.fn
        self.is_closure = flow.fn.kind == "Closure"
        self.argc = flow.mir["arg_count"]
        self._defs = collections.defaultdict(list)
        for bi, b in enumerate(flow.blocks):
            for st in b["stmts"]:
                if st["k"] == "Assign":
                    self._defs[st["place"]["l"]].append(("stmt", bi, st))
            t = b["term"]
            if t["k"] == "Call":
                self._defs[t["dest"]["l"]].append(("call", bi, t))

    def of_operand(self, op):
        out = set()
        self._operand(op, out, set())
        return out

    def of_local(self, l):
        out = set()
        self._local(l, out, set())
        return out

    def _operand(self, op, out, seen):
        if op is None:
            return
        if op.get("k") == "const":
            out.add(("const", op.get("fn") or op.get("v")))
            return
        pl = op.get("place")
        if pl is not None:
            self._place(pl, out, seen)

    def _place(self, pl, out, seen):
        kind, x = _place_roots(self.is_closure, pl)
        if kind == "upvar":
            out.add(("upvar", x))
            return
        for p in pl["p"]:
            if p.startswith("[_"):
                self._local(int(p[2:-1]), out, seen)
        self._local(x, out, seen)

    def _local(self, l, out, seen):
        if l in seen:
            return
        seen.add(l)
        if self.keep is not None and not self.keep(self.flow.mir["locals"][l].get("ty") or ""):
            return
        if 1 <= l <= self.argc:
            out.add(("param", l))
        for kind, bi, d in self._defs.get(l, ()):
            if kind == "call":
                out.add(("call", d["callee"].get("resolved") or d["callee"].get("path") or "<indirect>", bi))
                for a in d["args"]:
                    self._operand(a, out, seen)
            else:
                rv = d["rv"]
                k = rv["k"]
                if k in ("Use", "Cast", "Repeat"):
                    self._operand(rv["op"], out, seen)
                elif k in ("Ref", "RawPtr", "CopyForDeref", "Discriminant"):
                    self._place(rv["place"], out, seen)
                elif k == "BinaryOp":
                    self._operand(rv["a"], out, seen)
                    self._operand(rv["b"], out, seen)
                elif k == "UnaryOp":
                    self._operand(rv["a"], out, seen)
                elif k == "Aggregate":
                    out.add(("agg", rv.get("adt") or rv.get("closure") or rv.get("agg"), rv.get("variant")))
                    for o in rv["ops"]:
                        self._operand(o, out, seen)
                elif k == "ThreadLocalRef":
                    out.add(("static", rv["static"]))


def must_pass(flow, pblocks):
    """True iff every normal path from entry to a Return passes through a block of `pblocks`
    (the P event happens at the block's terminator)"""
    seen = set()
    work = [0]
    while work:
        b = work.pop()
        if b in seen:
            continue
        seen.add(b)
        if b in pblocks:
            continue
        if flow.blocks[b]["term"]["k"] == "Return":
            return False
        work.extend(flow.succ(b))
    return True


def offending_return_path(flow, pblocks):
    """a witness path (list of blocks) from entry to Return avoiding pblocks, or None"""
    prev = {0: None}
    work = [0]
    while work:
        b = work.pop(0)
        if b in pblocks:
            continue
        if flow.blocks[b]["term"]["k"] == "Return":
            path = []
            while b is not None:
                path.append(b)
                b = prev[b]
            return list(reversed(path))
        for s in flow.succ(b):
            if s not in prev:
                prev[s] = b
                work.append(s)
    return None
