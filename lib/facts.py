"""Rust fact base (produced by engines/rsfacts) + call graph + reachability.

Ids: every local function is identified by its crate-relative def path as
rustc prints it (`frontend::FrontendCtx::<'a, R>::extract_type`).  Facts of
beff_wasm refer to beff_core items with a `beff_core::` prefix; we normalise by
stripping that prefix when linking the two crates, and keep wasm's own items
under a `beff_wasm::` prefix so the two name spaces cannot collide.
"""
import json
import os
import collections

CORE = "beff_core"
WASM = "beff_wasm"


class Fn:
    __slots__ = ("id", "crate", "raw", "mir", "calls", "name", "file", "line", "kind", "root",
                 "impl_self", "impl_trait", "impl_trait_local", "trait_default", "vis", "attrs",
                 "inputs", "output", "body_lo", "body_hi", "macros")

    def __init__(self, crate, raw, gid):
        self.crate = crate
        self.raw = raw
        self.id = gid
        self.mir = raw.get("mir")
        self.name = raw.get("name")
        self.file = raw.get("file")
        self.line = raw.get("line")
        self.kind = raw.get("kind")
        self.root = None
        self.impl_self = raw.get("impl_self")
        self.impl_trait = raw.get("impl_trait")
        self.impl_trait_local = raw.get("impl_trait_local")
        self.trait_default = raw.get("trait_default")
        self.vis = raw.get("vis", "")
        self.attrs = raw.get("attrs", [])
        self.inputs = raw.get("inputs", [])
        self.output = raw.get("output")
        self.body_lo = raw.get("body_lo")
        self.body_hi = raw.get("body_hi")
        self.macros = raw.get("macros", [])
        self.calls = []  # list of Call

    @property
    def short(self):
        return self.id

    def loc(self):
        return "%s:%s" % (self.file, self.line)


class Call:
    """One MIR call terminator."""
    __slots__ = ("fn", "bb", "term", "callee", "path", "full", "resolved", "resolved_full",
                 "local_target", "line", "file", "macros", "indirect", "trait", "targs")

    def __init__(self, fn, bb, term):
        self.fn = fn
        self.bb = bb
        self.term = term
        c = term["callee"]
        self.callee = c
        self.indirect = bool(c.get("indirect"))
        self.path = c.get("path")
        self.full = c.get("full")
        self.resolved = c.get("resolved")
        self.resolved_full = c.get("resolved_full")
        self.trait = c.get("trait")
        self.targs = c.get("targs", [])
        self.line = term.get("line")
        self.file = term.get("file")
        self.macros = term.get("macros", [])
        self.local_target = None  # global id(s) filled by Facts

    @property
    def best(self):
        """the most precise callee path known (resolved impl method if any)"""
        return self.resolved or self.path or ("<indirect %s>" % self.callee.get("ty"))

    @property
    def best_full(self):
        return self.resolved_full or self.full or self.best


def _norm_core(s):
    return s.replace("beff_core::", "") if s else s


class Facts:
    def __init__(self, facts_dir, crates=(CORE, WASM)):
        self.fns = {}          # gid -> Fn
        self.adts = {}         # gid -> adt raw
        self.impls = []
        self.statics = []
        self.traits = {}
        self.hir = {}          # gid -> tree
        self.crates = {}
        for cr in crates:
            p = os.path.join(facts_dir, cr + ".json")
            with open(p) as fh:
                d = json.load(fh)
            self.crates[cr] = d
            for raw in d["fns"]:
                gid = self.gid(cr, raw["id"])
                f = Fn(cr, raw, gid)
                if raw.get("root"):
                    f.root = self.gid(cr, raw["root"])
                self.fns[gid] = f
            for h in d["hir"]:
                self.hir[self.gid(cr, h["id"])] = h["tree"]
            for a in d["adts"]:
                a = dict(a)
                a["crate"] = cr
                self.adts[self.gid(cr, a["id"])] = a
            for i in d["impls"]:
                i = dict(i)
                i["crate"] = cr
                self.impls.append(i)
            for s in d["statics"]:
                s = dict(s)
                s["crate"] = cr
                self.statics.append(s)
            for t in d["traits"]:
                self.traits[self.gid(cr, t["id"])] = t
        self._link()

    @staticmethod
    def gid(crate, path):
        if crate == CORE:
            return path
        # wasm: own items get a prefix; references to beff_core are normalised
        return WASM + "::" + path if not path.startswith(WASM + "::") else path

    def _callee_gid(self, crate, path):
        """global id of a callee path printed inside crate `crate`"""
        if path is None:
            return None
        if crate == CORE:
            return path
        if "beff_core::" in path:
            return _norm_core(path)
        return WASM + "::" + path

    def _link(self):
        # trait method -> impl methods (local)
        self.trait_impls = collections.defaultdict(list)  # (trait path gid, method name) -> [fn gid]
        for f in self.fns.values():
            if f.impl_trait and f.name:
                tr = self._callee_gid(f.crate, f.impl_trait) if f.impl_trait_local or "beff_core::" in f.impl_trait else f.impl_trait
                self.trait_impls[(_norm_core(f.impl_trait), f.name)].append(f.id)
            if f.trait_default and f.name:
                self.trait_impls[(_norm_core(f.trait_default), f.name)].append(f.id)
        self.direct_edges = set()
        self.dispatch_only = set()   # (src, dst) edges that exist only by trait-dispatch over-approximation
        self.edges = collections.defaultdict(set)     # gid -> set(gid)
        self.edge_sites = collections.defaultdict(list)  # (src,dst) -> [(kind, line)]
        self.ext_calls = collections.defaultdict(list)   # gid -> [Call] to non-local callees
        self.all_calls = []
        for f in self.fns.values():
            if not f.mir:
                continue
            for bi, b in enumerate(f.mir["blocks"]):
                # statements: closure creation, fn-pointer reification, fn items as values
                for st in b["stmts"]:
                    if st["k"] != "Assign":
                        continue
                    rv = st["rv"]
                    self._scan_rvalue(f, rv, st.get("line"))
                t = b["term"]
                if t["k"] not in ("Call", "TailCall"):
                    continue
                c = Call(f, bi, t)
                f.calls.append(c)
                self.all_calls.append(c)
                for a in t.get("args", []):
                    self._scan_operand(f, a, t.get("line"))
                if c.indirect:
                    continue
                targets = []
                cal = c.callee
                if cal.get("resolved_local"):
                    g = self._callee_gid(f.crate, cal["resolved"])
                    if g in self.fns:
                        targets.append(g)
                        if not (cal.get("trait") and cal.get("resolved") == cal.get("path")):
                            self.direct_edges.add((f.id, g))
                elif cal.get("resolved") and _norm_core(cal["resolved"]) in self.fns and f.crate == WASM:
                    targets.append(_norm_core(cal["resolved"]))
                elif cal.get("local") or (f.crate == WASM and "beff_core::" in (cal.get("path") or "")):
                    g = self._callee_gid(f.crate, cal["path"])
                    if g in self.fns and not cal.get("trait"):
                        targets.append(g)
                # unresolved / virtual trait method calls: all local impls + default
                # (dispatch edges: followed only when the impl's self type is instantiated, RTA)
                if cal.get("trait") and (not cal.get("resolved") or cal.get("inst") == "Virtual"
                                         or cal.get("resolved") == cal.get("path")):
                    key = (_norm_core(cal["trait"]), cal["path"].rsplit("::", 1)[-1])
                    for g in self.trait_impls.get(key, []):
                        targets.append(g)
                        tf = self.fns[g]
                        if tf.impl_self and not tf.trait_default:
                            self.dispatch_only.add((f.id, g))
                    g = self._callee_gid(f.crate, cal["path"])
                    if g in self.fns:
                        targets.append(g)
                if targets:
                    c.local_target = targets
                    for g in targets:
                        self._edge(f.id, g, "call", c.line)
                else:
                    self.ext_calls[f.id].append(c)

    def _edge(self, a, b, kind, line):
        self.edges[a].add(b)
        if kind != "call":
            self.direct_edges.add((a, b))
        self.edge_sites[(a, b)].append((kind, line))

    def _scan_operand(self, f, op, line):
        if op.get("k") == "const" and op.get("fn"):
            g = self._callee_gid(f.crate, op["fn"]) if op.get("fn_local") or "beff_core::" in op["fn"] else None
            if g and g in self.fns:
                self._edge(f.id, g, "fnval", line)

    def _scan_rvalue(self, f, rv, line):
        k = rv["k"]
        if k == "Aggregate":
            if rv.get("agg") == "Closure":
                g = self._callee_gid(f.crate, rv["closure"])
                if g in self.fns:
                    self._edge(f.id, g, "closure", line)
            for op in rv.get("ops", []):
                self._scan_operand(f, op, line)
        elif k in ("Use", "Cast", "Repeat"):
            self._scan_operand(f, rv["op"], line)
        elif k == "BinaryOp":
            self._scan_operand(f, rv["a"], line)
            self._scan_operand(f, rv["b"], line)

    # ------------------------------------------------------------------
    def find(self, suffix=None, name=None, crate=None, pred=None):
        out = []
        for f in self.fns.values():
            if crate and f.crate != crate:
                continue
            if suffix and not f.id.endswith(suffix):
                continue
            if name and f.name != name:
                continue
            if pred and not pred(f):
                continue
            out.append(f)
        return out

    def one(self, **kw):
        r = self.find(**kw)
        if len(r) != 1:
            raise LookupError("anchor lookup %r matched %d functions" % (kw, len(r)))
        return r[0]

    def foreign_trait_impl_fns(self):
        """local impl methods of foreign traits (callbacks out of foreign generic code)"""
        return [f for f in self.fns.values() if f.impl_trait and f.impl_trait_local is False]

    def adt_mentions(self, f):
        """ADT paths (crate-normalised) mentioned in the local types / aggregates of fn f"""
        s = set()
        if not f.mir:
            return s
        for l in f.mir["locals"]:
            s.add(l["ty"])
        return s

    FMT_TRAITS = ("std::fmt::Debug", "std::fmt::Display", "std::fmt::LowerHex", "std::fmt::UpperHex",
                  "std::fmt::Pointer", "std::fmt::Binary", "std::fmt::Octal", "std::fmt::LowerExp", "std::fmt::UpperExp")

    def instantiations(self, f):
        """heads of the ADTs constructed (struct/variant literals) in f, crate-normalised"""
        out = set()
        if not f.mir:
            return out
        for b in f.mir["blocks"]:
            for st in b["stmts"]:
                if st["k"] == "Assign" and st["rv"]["k"] == "Aggregate" and st["rv"].get("agg") == "Adt":
                    a = st["rv"]["adt"]
                    if a.startswith("beff_core::"):
                        out.add(a[len("beff_core::"):])
                    elif f.crate == WASM:
                        out.add(WASM + "::" + a)
                    else:
                        out.add(a)
        return out

    def fmt_mentions(self, f):
        """type strings whose formatting impls may be invoked from f: arguments of format machinery
        (fmt::Argument::new_*), ToString::to_string receivers, and values coerced to `dyn Debug|Display`"""
        out = []
        if not f.mir:
            return out
        locs = f.mir["locals"]
        for b in f.mir["blocks"]:
            for st in b["stmts"]:
                if st["k"] == "Assign" and st["rv"]["k"] == "Cast" and "Unsize" in st["rv"].get("cast", ""):
                    tgt = st["rv"].get("ty", "")
                    if "dyn " in tgt:
                        pl = st["rv"]["op"].get("place")
                        if pl is not None:
                            out.append(locs[pl["l"]]["ty"])
            t = b["term"]
            if t["k"] == "Call":
                c = t["callee"]
                p = c.get("path") or ""
                if p.startswith("core::fmt::rt::Argument::<'_>::new_") or p.endswith("ToString::to_string") \
                        or p.startswith("std::fmt::") or c.get("trait", "").startswith("std::fmt::"):
                    out.extend(c.get("targs", []))
        return out

    def reachable(self, roots, foreign_callbacks=True):
        """forward reachability. With foreign_callbacks, a local impl of a foreign
        trait becomes reachable as soon as its self type's head ADT (or closure) is
        mentioned by the type of any local of a reachable body. Formatting traits are
        handled precisely: their impls become reachable only from formatting sites
        (see fmt_mentions) that mention the self type."""
        seen = set()
        work = list(roots)
        parent = {}
        # index foreign-trait impls by the head of their self type
        fti = collections.defaultdict(list)
        fti_fmt = collections.defaultdict(list)
        if foreign_callbacks:
            for f in self.foreign_trait_impl_fns():
                head = _type_head(_norm_core(f.impl_self or ""))
                if f.crate == WASM and not (f.impl_self or "").startswith("beff_core::"):
                    head = WASM + "::" + head
                if f.impl_trait in self.FMT_TRAITS:
                    fti_fmt[head].append(f.id)
                else:
                    fti[head].append(f.id)
        heads_seen = set()
        fmt_heads_seen = set()
        instantiated = set()
        pending = collections.defaultdict(list)   # self-type head -> [(src, dst)] dispatch edges waiting for an instance
        while work:
            g = work.pop()
            if g in seen or g not in self.fns:
                continue
            seen.add(g)
            f = self.fns[g]
            for head in self.instantiations(f):
                if head not in instantiated:
                    instantiated.add(head)
                    for (a, b) in pending.pop(head, ()):
                        if b not in seen:
                            parent.setdefault(b, a)
                            work.append(b)
            for h in self.edges.get(g, ()):
                if h not in seen:
                    if (g, h) in self.dispatch_only and (g, h) not in self.direct_edges:
                        hf = self.fns[h]
                        head = _type_head(_norm_core(hf.impl_self or ""))
                        if hf.crate == WASM and not (hf.impl_self or "").startswith("beff_core::"):
                            head = WASM + "::" + head
                        if head not in instantiated:
                            pending[head].append((g, h))
                            continue
                    parent.setdefault(h, g)
                    work.append(h)
            # closures defined inside are reachable through creation edges only
            if foreign_callbacks and f.mir:
                for l in f.mir["locals"]:
                    for head in _type_heads(l["ty"], f.crate):
                        if head in heads_seen:
                            continue
                        heads_seen.add(head)
                        for h in fti.get(head, ()):
                            if h not in seen:
                                parent.setdefault(h, g)
                                work.append(h)
                for ty in self.fmt_mentions(f):
                    for head in _type_heads(ty, f.crate):
                        if head in fmt_heads_seen:
                            continue
                        fmt_heads_seen.add(head)
                        for h in fti_fmt.get(head, ()):
                            if h not in seen:
                                parent.setdefault(h, g)
                                work.append(h)
        self.last_parent = parent
        return seen

    def path_to(self, g, parent=None):
        parent = parent or self.last_parent
        out = [g]
        while g in parent:
            g = parent[g]
            out.append(g)
        return list(reversed(out))

    def sccs(self, nodes):
        """Tarjan over the sub-graph induced by `nodes`; returns list of SCCs (lists)"""
        index = {}
        low = {}
        onstack = set()
        stack = []
        out = []
        counter = [0]
        nodes = set(nodes)
        for root in sorted(nodes):
            if root in index:
                continue
            work = [(root, iter(sorted(n for n in self.edges.get(root, ()) if n in nodes)))]
            index[root] = low[root] = counter[0]
            counter[0] += 1
            stack.append(root)
            onstack.add(root)
            while work:
                v, it = work[-1]
                adv = False
                for w in it:
                    if w not in index:
                        index[w] = low[w] = counter[0]
                        counter[0] += 1
                        stack.append(w)
                        onstack.add(w)
                        work.append((w, iter(sorted(n for n in self.edges.get(w, ()) if n in nodes))))
                        adv = True
                        break
                    elif w in onstack:
                        low[v] = min(low[v], index[w])
                if adv:
                    continue
                work.pop()
                if work:
                    u = work[-1][0]
                    low[u] = min(low[u], low[v])
                if low[v] == index[v]:
                    comp = []
                    while True:
                        w = stack.pop()
                        onstack.discard(w)
                        comp.append(w)
                        if w == v:
                            break
                    out.append(comp)
        return out


def _type_head(t):
    """head ADT path of a type string: strips refs, generics"""
    t = t.strip()
    while t.startswith("&") or t.startswith("*"):
        t = t.lstrip("&*").strip()
        if t.startswith("'"):
            t = t.split(" ", 1)[1] if " " in t else t
        if t.startswith("mut "):
            t = t[4:]
        if t.startswith("const "):
            t = t[6:]
    i = t.find("<")
    if i > 0:
        t = t[:i]
    if t.endswith("::"):
        t = t[:-2]
    return t


import re
_ident_path = re.compile(r"[A-Za-z_][A-Za-z0-9_]*(?:::[A-Za-z_][A-Za-z0-9_]*)*")


def _type_heads(t, crate):
    """all path-like heads mentioned inside a type string, crate-normalised"""
    out = []
    for m in _ident_path.finditer(t):
        p = m.group(0)
        if p.startswith("beff_core::"):
            out.append(p[len("beff_core::"):])
        elif crate == WASM:
            out.append(WASM + "::" + p)
            out.append(p)
        else:
            out.append(p)
    return out


# ---------------------------------------------------------------------------
# HIR tree helpers

def walk(node, fn=None):
    """pre-order generator over all dict nodes of a HIR tree"""
    stack = [node]
    while stack:
        n = stack.pop()
        if isinstance(n, dict):
            if "k" in n:
                yield n
            for v in reversed(list(n.values())):
                if isinstance(v, (dict, list)):
                    stack.append(v)
        elif isinstance(n, list):
            for v in reversed(n):
                if isinstance(v, (dict, list)):
                    stack.append(v)


def walk_inlined(F, gid, depth=2, crate=None, _seen=None, private_only=False):
    """walk() over the HIR body of function `gid` that also descends into the bodies of the local functions it calls
    (private helpers extracted by a refactoring), `depth` levels deep, each callee once.  Yields (node, owner gid).
    For rules that ask whether a body *contains* a construct; parameter bindings of the helpers are not mapped."""
    seen = _seen if _seen is not None else {gid}
    tree = F.hir.get(gid)
    if tree is None:
        return
    f = F.fns.get(gid)
    cr = crate or (f.crate if f is not None else None)
    for n in walk(tree["body"]):
        yield n, gid
        if depth > 0 and n["k"] in ("Call", "MethodCall"):
            cal = n.get("callee") if n["k"] == "Call" else (n.get("resolved") or n.get("callee"))
            if not cal:
                continue
            tg = F._callee_gid(cr, cal) if cr else cal
            if tg in F.hir and tg not in seen:
                if private_only and (F.fns.get(tg) is None or F.fns[tg].vis == "Public"):
                    continue
                seen.add(tg)
                for x in walk_inlined(F, tg, depth - 1, cr, seen, private_only):
                    yield x


def children(n):
    for v in n.values():
        if isinstance(v, dict) and "k" in v:
            yield v
        elif isinstance(v, list):
            for x in v:
                if isinstance(x, dict):
                    if "k" in x:
                        yield x
                    else:
                        for y in x.values():
                            if isinstance(y, dict) and "k" in y:
                                yield y


PANIC_MACROS = {"panic", "unreachable", "todo", "unimplemented", "assert", "assert_eq", "assert_ne",
                "debug_assert", "debug_assert_eq", "debug_assert_ne"}


def is_panic_macro_node(n):
    m = n.get("mac") or []
    return any(x in ("panic", "unreachable", "todo", "unimplemented") for x in m)


def strip_block(n):
    """peel BlockExpr with no statements"""
    while isinstance(n, dict) and n.get("k") == "BlockExpr":
        b = n["block"]
        if b["stmts"] or b["expr"] is None:
            return n
        n = b["expr"]
    return n


def hir_shape(node, _env=None):
    """structural fingerprint of a HIR subtree: node kinds, resolved callees / definitions, operators, literals and field
    names, with local bindings numbered by first occurrence (alpha-equivalent code gives equal shapes); line numbers
    and types are ignored"""
    env = _env if _env is not None else {}

    def go(n):
        if isinstance(n, list):
            return tuple(go(x) for x in n)
        if not isinstance(n, dict):
            return n if isinstance(n, (str, int, bool)) or n is None else str(n)
        if "k" not in n:
            return tuple((k, go(v)) for k, v in sorted(n.items()) if k not in ("line", "ty", "lid", "mac", "recv_ty", "resolved_full", "callee_local", "def_local"))
        items = []
        for k, v in sorted(n.items()):
            if k in ("line", "ty", "mac", "recv_ty", "resolved_full", "callee_local", "def_local", "mode"):
                continue
            if k == "lid":
                continue
            if k == "name" and n["k"] in ("Path", "P.Binding") and (n.get("res") == "local" or n["k"] == "P.Binding"):
                lid = n.get("lid")
                if lid not in env:
                    env[lid] = len(env)
                items.append(("local", env[lid]))
                continue
            if k == "def" and n["k"] == "Closure":
                continue
            items.append((k, go(v)))
        return tuple(items)
    return go(node)


def mentions_str_lit(F, node, value, crate="beff_core"):
    """the HIR subtree mentions the string literal `value`, directly or through a named constant
    (`const CLASS: &str = "..."`, whose initialiser is a body owner of its own)"""
    for n in walk(node):
        if n["k"] == "Lit" and n.get("v") == value:
            return True
        if n["k"] == "Path" and n.get("res") != "local" and n.get("def") and "Const" in (n.get("defkind") or ""):
            ct = F.hir.get(F._callee_gid(crate, n["def"])) or F.hir.get(n["def"])
            if ct is not None and not ct.get("params") and any(x["k"] == "Lit" and x.get("v") == value for x in walk(ct["body"])):
                return True
    return False


def is_str_lit(F, node, value, crate="beff_core"):
    """the expression IS the string literal `value` (through &, a named constant)"""
    while isinstance(node, dict) and node.get("k") in ("AddrOf", "DropTemps"):
        node = node["e"]
    if not isinstance(node, dict):
        return False
    if node.get("k") == "Lit":
        return node.get("v") == value
    if node.get("k") == "Path" and node.get("res") != "local" and node.get("def"):
        ct = F.hir.get(F._callee_gid(crate, node["def"])) or F.hir.get(node["def"])
        if ct is not None and not ct.get("params"):
            b = ct["body"]
            while b.get("k") == "BlockExpr" and not b["block"].get("stmts") and b["block"].get("expr"):
                b = b["block"]["expr"]
            return b.get("k") == "Lit" and b.get("v") == value
    return False
