"""E-ARM: syntax-directed abstract interpretation of function bodies (typed HIR) into Boolean
membership formulas, and exhaustive truth-table checking of every return path against the
set-semantics specification of the operation.

A value of a set-like type (Bdd, ProperSubtype, SubType, literal vectors) is interpreted as the
formula "the fixed element x is a member".  Recursive calls of the operations are interpreted by
their specification (induction hypothesis of structural induction on the operands)."""
import itertools


class Uninterpretable(Exception):
    def __init__(self, what, line):
        Exception.__init__(self, "%s at line %s" % (what, line))
        self.what = what
        self.line = line


# formulas ---------------------------------------------------------------------
def V(n):
    return ("var", n)


T = ("const", True)
Fz = ("const", False)


def AND(a, b):
    return ("and", a, b)


def OR(a, b):
    return ("or", a, b)


def NOT(a):
    return ("not", a)


def IFF(a, b):
    return ("iff", a, b)


def NODE(a, l, m, r):
    return OR(OR(AND(a, l), m), AND(NOT(a), r))


def ev(f, env):
    k = f[0]
    if k == "var":
        return env[f[1]]
    if k == "const":
        return f[1]
    if k == "and":
        return ev(f[1], env) and ev(f[2], env)
    if k == "or":
        return ev(f[1], env) or ev(f[2], env)
    if k == "not":
        return not ev(f[1], env)
    if k == "iff":
        return ev(f[1], env) == ev(f[2], env)
    raise ValueError(k)


def fvars(f, acc):
    if f[0] == "var":
        acc.add(f[1])
    elif f[0] != "const":
        for x in f[1:]:
            fvars(x, acc)
    return acc


def show(f):
    k = f[0]
    if k == "var":
        return f[1]
    if k == "const":
        return "1" if f[1] else "0"
    if k == "not":
        return "!" + show(f[1])
    op = {"and": "&", "or": "|", "iff": "<=>"}[k]
    return "(%s %s %s)" % (show(f[1]), op, show(f[2]))


class Val:
    """a value: formula (or tuple / cmp / opaque) + the set of variant/tag names used to build it"""

    def __init__(self, kind, f=None, items=None, tags=None):
        self.kind = kind      # 'f' formula | 'tuple' | 'cmp' | 'structeq' | 'emptycheck' | 'unit'
        self.f = f
        self.items = items
        self.tags = set(tags or ())

    def __repr__(self):
        return "Val(%s,%s,%s)" % (self.kind, show(self.f) if self.f else self.items, self.tags)


def F(f, tags=None):
    return Val("f", f, tags=tags)


IDENTITY_CALLS = (
    "std::clone::Clone::clone", "std::convert::Into::into", "std::convert::From::from", "std::rc::Rc::<T>::new",
    "std::borrow::ToOwned::to_owned", "std::ops::Deref::deref", "std::convert::AsRef::as_ref",
)

OPS = {"intersect": lambda a, b: AND(a, b), "union": lambda a, b: OR(a, b), "diff": lambda a, b: AND(a, NOT(b))}


class Model:
    """per-analysis configuration: how callee paths / constructors / patterns are interpreted"""

    def __init__(self):
        self.op_traits = set()        # trait paths whose intersect/union/diff/complement are interpreted by spec
        self.node_ctor = None         # (adt variant def path, from_node fn path)
        self.true_false = {}          # def path -> const formula
        self.wrap_variants = {}       # ctor def path -> tag (single payload = the membership formula)
        self.const_variants = {}      # ctor def path -> (const formula) taking a tag argument
        self.litset_structs = {}      # struct-variant def path -> (tag, flag field, values field)
        self.bool_variant = None      # def path of ProperSubtype::Boolean
        self.vec_ops = {}             # fn path -> op name
        self.litset_fns = {}          # fn path -> tag (SubType::number_subtype...)
        self.tag_enum_prefix = None   # "subtyping::subtype::SubTypeTag::"
        self.cmp_fns = set()
        self.ok_ctor = "std::result::Result::Ok"
        self.extra_identity = set()
        self.hir = None               # gid -> HIR tree of local functions (for inlining unknown helpers)


class Interp:
    def __init__(self, model, fn_id, prefix="", depth=0):
        self.m = model
        self.fn_id = fn_id
        self.returns = []     # (constraints, Val, pat_tags, line)
        self.fresh = itertools.count()
        self.prefix = prefix   # distinguishes the pattern-bound variables of an inlined callee
        self.depth = depth

    # -- helpers -------------------------------------------------------------
    def var(self, name):
        return V("%s" % name)

    def bind_fresh(self, name):
        return V("%s%s" % (self.prefix, name))

    # -- patterns ---------------------------------------------------------------
    def match_pat(self, pat, val, env, cons, ptags):
        """returns (env', cons', ptags') for the case that the pattern matches"""
        k = pat["k"]
        if k == "P.Wild":
            return env, cons, ptags
        if k == "P.Binding":
            env = dict(env)
            env[pat["name"]] = val
            if pat.get("sub"):
                return self.match_pat(pat["sub"], val, env, cons, ptags)
            return env, cons, ptags
        if k in ("P.Ref", "P.Box", "P.Deref"):
            return self.match_pat(pat["sub"], val, env, cons, ptags)
        if k == "P.Tuple":
            if val.kind != "tuple" or len(val.items) != len(pat["pats"]):
                raise Uninterpretable("tuple pattern on non-tuple", pat["line"])
            for p, v in zip(pat["pats"], val.items):
                env, cons, ptags = self.match_pat(p, v, env, cons, ptags)
            return env, cons, ptags
        if k == "P.Expr":
            if "lit" in pat:
                if val.kind != "f":
                    raise Uninterpretable("literal pattern on non-formula", pat["line"])
                b = {"true": True, "false": False}.get(pat["lit"])
                if b is None:
                    raise Uninterpretable("literal pattern %r" % pat["lit"], pat["line"])
                return env, cons + [IFF(val.f, ("const", b))], ptags
            d = pat.get("def")
            if d in self.m.true_false:
                return env, cons + [IFF(val.f, self.m.true_false[d])], ptags
            if d and d.startswith("std::cmp::Ordering::"):
                if val.kind != "cmp":
                    raise Uninterpretable("Ordering pattern on non-cmp", pat["line"])
                if d.endswith("::Equal"):
                    return env, cons + [IFF(val.items[0].f, val.items[1].f)], ptags
                return env, cons, ptags
            raise Uninterpretable("path pattern %s" % d, pat["line"])
        if k == "P.Struct":
            d = pat.get("def")
            if self.m.node_ctor and d == self.m.node_ctor[0]:
                names = {}
                env = dict(env)
                for fld in pat["fields"]:
                    sub = fld["pat"]
                    while sub["k"] in ("P.Ref",):
                        sub = sub["sub"]
                    if sub["k"] == "P.Binding":
                        nm = sub["name"]
                    elif sub["k"] == "P.Wild":
                        nm = "_%s_%d" % (fld["name"], next(self.fresh))
                    else:
                        raise Uninterpretable("nested pattern in Node", pat["line"])
                    names[fld["name"]] = self.bind_fresh(nm)
                    env[nm] = F(names[fld["name"]])
                for need in ("atom", "left", "middle", "right"):
                    if need not in names:
                        names[need] = self.bind_fresh("_%s_%d" % (need, next(self.fresh)))
                node = NODE(names["atom"], names["left"], names["middle"], names["right"])
                return env, cons + [IFF(val.f, node)], ptags
            if d in self.m.litset_structs:
                tag, ff, vf = self.m.litset_structs[d]
                env = dict(env)
                got = {}
                for fld in pat["fields"]:
                    sub = fld["pat"]
                    if sub["k"] == "P.Binding":
                        nm = sub["name"]
                    elif sub["k"] == "P.Wild":
                        nm = "_%s_%d" % (fld["name"], next(self.fresh))
                    else:
                        raise Uninterpretable("nested pattern in literal-set variant", pat["line"])
                    got[fld["name"]] = self.bind_fresh(nm)
                    env[nm] = F(got[fld["name"]])
                for need in (ff, vf):
                    if need not in got:
                        got[need] = self.bind_fresh("_%s_%d" % (need, next(self.fresh)))
                return env, cons + [IFF(val.f, IFF(got[ff], got[vf]))], ptags | {tag}
            raise Uninterpretable("struct pattern %s" % d, pat["line"])
        if k == "P.TupleStruct":
            d = pat.get("def")
            if d in self.m.wrap_variants:
                tag = self.m.wrap_variants[d]
                sub = pat["pats"][0] if pat["pats"] else None
                if sub is None:
                    return env, cons, ptags | {tag}
                e2, c2, t2 = self.match_pat(sub, F(val.f, tags=[tag]), env, cons, ptags | {tag})
                return e2, c2, t2
            if d == self.m.bool_variant:
                sub = pat["pats"][0]
                if sub["k"] == "P.Binding":
                    b = self.bind_fresh(sub["name"])
                    env = dict(env)
                    env[sub["name"]] = F(b)
                elif sub["k"] == "P.Wild":
                    b = self.bind_fresh("_b%d" % next(self.fresh))
                else:
                    raise Uninterpretable("nested pattern in Boolean", pat["line"])
                return env, cons + [IFF(val.f, IFF(V("x_is_true"), b))], ptags | {"Boolean"}
            raise Uninterpretable("tuple-struct pattern %s" % d, pat["line"])
        raise Uninterpretable("pattern %s" % k, pat["line"])

    # -- expressions ---------------------------------------------------------------
    def eval(self, e, env, cons, ptags):
        """-> list of (cons, Val, ptags) continuing paths"""
        k = e["k"]
        line = e.get("line")
        mac = e.get("mac") or []
        if any(m in ("unreachable", "panic", "todo", "unimplemented") for m in mac):
            return []   # diverges: no obligation
        if k == "Path":
            if e.get("res") == "local":
                if e["name"] not in env:
                    raise Uninterpretable("unbound local %s" % e["name"], line)
                return [(cons, env[e["name"]], ptags)]
            d = e.get("def")
            if d in self.m.true_false:
                return [(cons, F(self.m.true_false[d]), ptags)]
            if self.m.tag_enum_prefix and d and d.startswith(self.m.tag_enum_prefix):
                return [(cons, Val("tag", tags=[d[len(self.m.tag_enum_prefix):]]), ptags)]
            if d in self.m.wrap_variants or d in self.m.const_variants or d in (self.m.hir or {}):
                # a constructor / function used as a value (`helper(Tag, Variant::Ctor, x)`): applied where it is called
                return [(cons, Val("fn", items=[d]), ptags)]
            raise Uninterpretable("path %s" % d, line)
        if k == "Lit":
            if e.get("lit") == "bool":
                return [(cons, F(("const", e["v"] == "true")), ptags)]
            raise Uninterpretable("literal %s" % e.get("lit"), line)
        if k in ("AddrOf",):
            return self.eval(e["e"], env, cons, ptags)
        if k == "Unary":
            if e["op"] == "Deref":
                return self.eval(e["e"], env, cons, ptags)
            if e["op"] == "Not":
                return [(c, F(NOT(v.f), v.tags), t) for c, v, t in self.eval(e["e"], env, cons, ptags)]
            raise Uninterpretable("unary %s" % e["op"], line)
        if k == "Tup":
            outs = [(cons, [], ptags)]
            for x in e["es"]:
                nxt = []
                for c, items, t in outs:
                    for c2, v, t2 in self.eval(x, env, c, t):
                        nxt.append((c2, items + [v], t2))
                outs = nxt
            return [(c, Val("tuple", items=items), t) for c, items, t in outs]
        if k == "BlockExpr":
            return self.block(e["block"], env, cons, ptags)
        if k == "Ret":
            if e.get("e") is None:
                raise Uninterpretable("bare return", line)
            for c, v, t in self.eval(e["e"], env, cons, ptags):
                self.returns.append((c, v, t, line))
            return []
        if k == "If" and e["cond"].get("k") == "Let":
            # `if let PAT = scrut { then } else { otherwise }`: a two-armed match; when the pattern contributes one
            # constraint and binds nothing the else branch runs under its negation
            out = []
            lc = e["cond"]
            for c, sv, t in self.eval(lc["init"], env, cons, ptags):
                env2, c2, t2 = self.match_pat(lc["pat"], sv, env, c, t)
                out += self.eval(e["then"], env2, c2, t2)
                extra = c2[len(c):]
                negc = [NOT(extra[0])] if len(extra) == 1 and env2 == env else []
                if e.get("else") is not None:
                    out += self.eval(e["else"], env, c + negc, t)
                else:
                    out.append((c + negc, Val("unit"), t))
            return out
        if k == "If":
            out = []
            for c, cv, t in self.eval(e["cond"], env, cons, ptags):
                pos, neg = self.cond_constraints(cv, line)
                out += self.eval(e["then"], env, c + pos, t)
                if e.get("else") is not None:
                    out += self.eval(e["else"], env, c + neg, t)
                else:
                    out.append((c + neg, Val("unit"), t))
            return out
        if k == "Match":
            if (e.get("src") or "").startswith("TryDesugar"):
                inner = e["scrut"]
                if inner["k"] == "Call" and inner.get("args"):
                    return self.eval(inner["args"][0], env, cons, ptags)
                raise Uninterpretable("try desugaring shape", line)
            out = []
            for c, sv, t in self.eval(e["scrut"], env, cons, ptags):
                for arm in e["arms"]:
                    if arm.get("guard") is not None:
                        raise Uninterpretable("match guard", arm["line"])
                    try:
                        env2, c2, t2 = self.match_pat(arm["pat"], sv, env, c, t)
                    except Uninterpretable:
                        if arm["pat"]["k"] == "P.Wild":
                            env2, c2, t2 = env, c, t
                        else:
                            raise
                    out += self.eval(arm["body"], env2, c2, t2)
            return out
        if k == "Binary":
            ls = self.eval(e["l"], env, cons, ptags)
            out = []
            for c, lv, t in ls:
                for c2, rv, t2 in self.eval(e["r"], env, c, t):
                    if e["op"] in ("Eq", "Ne"):
                        lt = (e["l"].get("ty") or "")
                        exact = lt.replace("&", "").strip() == "bool"
                        v = Val("structeq", items=[lv, rv, exact, e["op"] == "Ne"])
                        out.append((c2, v, t2))
                    elif e["op"] in ("And", "BitAnd") and lv.kind == "f" and rv.kind == "f":
                        out.append((c2, F(AND(lv.f, rv.f)), t2))
                    elif e["op"] in ("Or", "BitOr") and lv.kind == "f" and rv.kind == "f":
                        out.append((c2, F(OR(lv.f, rv.f)), t2))
                    else:
                        raise Uninterpretable("binary %s" % e["op"], line)
            return out
        if k == "Struct":
            d = e.get("def")
            fields = {}
            outs = [(cons, {}, ptags)]
            for fld in e["fields"]:
                nxt = []
                for c, acc, t in outs:
                    for c2, v, t2 in self.eval(fld["e"], env, c, t):
                        a2 = dict(acc)
                        a2[fld["name"]] = v
                        nxt.append((c2, a2, t2))
                outs = nxt
            res = []
            for c, acc, t in outs:
                if self.m.node_ctor and d == self.m.node_ctor[0]:
                    res.append((c, F(NODE(acc["atom"].f, acc["left"].f, acc["middle"].f, acc["right"].f)), t))
                elif d in self.m.litset_structs:
                    tag, ff, vf = self.m.litset_structs[d]
                    res.append((c, F(IFF(acc[ff].f, acc[vf].f), tags=[tag]), t))
                else:
                    raise Uninterpretable("struct literal %s" % d, line)
            return res
        if k in ("Call", "MethodCall"):
            return self.call(e, env, cons, ptags)
        raise Uninterpretable("expression %s" % k, line)

    def cond_constraints(self, cv, line):
        """(constraints when true, constraints when false)"""
        if cv.kind == "f":
            return [cv.f], [NOT(cv.f)]
        if cv.kind == "structeq":
            l, r, exact, neg = cv.items
            if l.kind != "f" or r.kind != "f":
                raise Uninterpretable("comparison of non-formula values", line)
            eq = IFF(l.f, r.f)
            pos, negc = [eq], ([NOT(eq)] if exact else [])
            return (negc, pos) if neg else (pos, negc)
        if cv.kind == "emptycheck":
            return [IFF(cv.f, Fz)], []
        raise Uninterpretable("condition of kind %s" % cv.kind, line)

    def block(self, b, env, cons, ptags):
        paths = [(env, cons, ptags)]
        for st in b["stmts"]:
            nxt = []
            for env1, c1, t1 in paths:
                if st["k"] == "LetStmt":
                    if st.get("init") is None or st.get("els") is not None:
                        raise Uninterpretable("let without init / let-else", st["line"])
                    for c2, v, t2 in self.eval(st["init"], env1, c1, t1):
                        env2, c3, t3 = self.match_pat(st["pat"], v, env1, c2, t2)
                        nxt.append((env2, c3, t3))
                else:
                    for c2, v, t2 in self.eval(st["e"], env1, c1, t1):
                        nxt.append((env1, c2, t2))
            paths = nxt
        out = []
        for env1, c1, t1 in paths:
            if b.get("expr") is not None:
                out += self.eval(b["expr"], env1, c1, t1)
            else:
                out.append((c1, Val("unit"), t1))
        return out

    def call(self, e, env, cons, ptags):
        line = e.get("line")
        callee = e.get("callee") or ""
        if e["k"] == "MethodCall":
            arg_exprs = [e["recv"]] + e["args"]
        else:
            arg_exprs = e["args"]
            fexp = e.get("f") or {}
            if not callee and fexp.get("k") == "Path" and fexp.get("res") == "local" and fexp.get("name") in env and env[fexp["name"]].kind == "fn":
                callee = env[fexp["name"]].items[0]
        # evaluate arguments
        outs = [(cons, [], ptags)]
        for x in arg_exprs:
            nxt = []
            for c, items, t in outs:
                for c2, v, t2 in self.eval(x, env, c, t):
                    nxt.append((c2, items + [v], t2))
            outs = nxt
        res = []
        for c, a, t in outs:
            try:
                res.append((c, self.apply(callee, e, a, line), t))
            except Uninterpretable:
                # a local helper the table does not know: interpret its body with the arguments bound (inlining)
                tree = (self.m.hir or {}).get(callee)
                if tree is None or self.depth >= 3 or len(tree["params"]) != len(a):
                    raise
                sub = Interp(self.m, callee, prefix="%s%s$" % (self.prefix, callee.rsplit("::", 1)[-1]), depth=self.depth + 1)
                for c2, v2, t2, _line in sub.run(tree, a):
                    if v2.kind == "unit":
                        continue
                    res.append((c + c2, v2, t | t2))
        return res

    def apply(self, callee, e, a, line):
        m = self.m
        meth = callee.rsplit("::", 1)[-1]
        if callee in IDENTITY_CALLS or callee in m.extra_identity:
            return a[0]
        if callee == m.ok_ctor or callee.endswith("::Ok") or callee.endswith("::Some"):
            return a[0]
        trait = callee.rsplit("::", 1)[0]
        if trait in m.op_traits and meth in OPS:
            self._need_f(a[:2], line)
            return F(OPS[meth](a[0].f, a[1].f), a[0].tags | a[1].tags)
        if trait in m.op_traits and meth == "complement":
            self._need_f(a[:1], line)
            return F(NOT(a[0].f), a[0].tags)
        if m.node_ctor and callee == m.node_ctor[1]:
            self._need_f(a[:4], line)
            return F(NODE(a[0].f, a[1].f, a[2].f, a[3].f))
        if callee in m.vec_ops:
            self._need_f(a[:2], line)
            return F(OPS[m.vec_ops[callee]](a[0].f, a[1].f))
        if callee in m.litset_fns:
            self._need_f(a[:2], line)
            return F(IFF(a[0].f, a[1].f), tags=[m.litset_fns[callee]])
        if callee in m.wrap_variants:
            if a and a[0].kind == "f":
                return F(a[0].f, a[0].tags | ({m.wrap_variants[callee]} if m.wrap_variants[callee] else set()))
            raise Uninterpretable("wrapper ctor %s on non-formula" % callee, line)
        if callee in m.const_variants:
            tags = a[0].tags if a else set()
            return F(m.const_variants[callee], tags)
        if callee == m.bool_variant:
            self._need_f(a[:1], line)
            return F(IFF(V("x_is_true"), a[0].f), tags=["Boolean"])
        if callee in m.cmp_fns or (meth in ("cmp", "partial_cmp") and len(a) >= 2 and ("cmp::Ord" in callee or "cmp::PartialOrd" in callee or " as std::cmp::" in callee)):
            # the comparison of the two decision variables, through the project's wrapper or through Ord directly
            return Val("cmp", items=a[:2])
        if callee.endswith("::is_empty") and a and a[0].kind == "f":
            v = Val("emptycheck", f=a[0].f)
            return v
        raise Uninterpretable("call %s" % callee, line)

    def _need_f(self, vals, line):
        for v in vals:
            if v.kind != "f":
                raise Uninterpretable("operand of kind %s where a set value is needed" % v.kind, line)

    # -- driver ---------------------------------------------------------------------
    def run(self, tree, param_vals):
        env = {}
        cons0, tags0 = [], set()
        for p, v in zip(tree["params"], param_vals):
            if p["k"] == "P.Binding":
                env[p["name"]] = v
            else:
                # a destructuring parameter (`(allowed, values): (bool, &[K])`) is a pattern like any other
                env, cons0, tags0 = self.match_pat(p, v, env, cons0, tags0)
        body = tree["body"]
        for c, v, t in self.eval(body, env, cons0, tags0):
            if v.kind != "unit" or True:
                self.returns.append((c, v, t, body.get("line")))
        return self.returns


def check_path(cons, val, spec):
    """exhaustive truth table: for every assignment satisfying cons, val == spec.
    -> (ok, rows, satisfying rows, counterexample or None)"""
    if val.kind != "f":
        return False, 0, 0, {"reason": "result is not a set value (%s)" % val.kind}
    vs = set()
    for c in cons:
        fvars(c, vs)
    fvars(val.f, vs)
    fvars(spec, vs)
    vs = sorted(vs)
    if len(vs) > 16:
        return False, 0, 0, {"reason": "too many variables (%d)" % len(vs)}
    rows = sat = 0
    for bits in itertools.product((False, True), repeat=len(vs)):
        env = dict(zip(vs, bits))
        rows += 1
        if not all(ev(c, env) for c in cons):
            continue
        sat += 1
        if ev(val.f, env) != ev(spec, env):
            return False, rows, sat, {"assignment": {k: int(v) for k, v in env.items()}, "got": int(ev(val.f, env)), "want": int(ev(spec, env))}
    return True, rows, sat, None
