"""Path-sensitive "is preceded by" analysis over the typed HIR trees of the fact base.

`unpreceded_exits(F, crate, region, is_event, is_exempt_exit)` walks a HIR region (a function body or a match
arm) in evaluation order and returns the value-carrying exits of the region (explicit `return e` and the tail value,
split over if / match branches) that can be reached on a path on which no node satisfying `is_event` was evaluated.
Calls to local functions count as the event when the callee's body contains it (helpers extracted by a refactoring);
when the exit value itself is a call to such a helper, the helper is analysed the same way (depth-bounded), so a
shortcut hidden inside the helper is still found.  The `?` operator's error exits and exits for which
`is_exempt_exit(expr)` holds (diagnostic constructors) are not reported.

This is a may-analysis over the tree (branches fork the state, loops are entered with the state before them and left
with the join), i.e. an exit is reported iff SOME syntactic path reaches it without the event.
"""
from facts import walk


def _callee(F, crate, n):
    if n["k"] == "Call":
        c = n.get("callee")
    else:
        c = n.get("resolved") or n.get("callee")
    return F._callee_gid(crate, c) if c else None


def contains_event(F, crate, node, is_event, depth=3, _seen=None):
    seen = _seen if _seen is not None else set()
    for x in walk(node):
        if is_event(x):
            return True
        if depth > 0 and x["k"] in ("Call", "MethodCall"):
            g = _callee(F, crate, x)
            if g in F.hir and g not in seen:
                seen.add(g)
                if contains_event(F, crate, F.hir[g]["body"], is_event, depth - 1, seen):
                    return True
    return False


def is_residual_ret(n):
    """`return FromResidual::from_residual(..)` - the error half of `?`"""
    e = n.get("e")
    return n["k"] == "Ret" and isinstance(e, dict) and e.get("k") == "Call" and (e.get("callee") or "").endswith("from_residual")


class _Walker:
    def __init__(self, F, crate, is_event, is_exempt_exit, depth):
        self.F, self.crate, self.is_event, self.exempt, self.depth = F, crate, is_event, is_exempt_exit, depth
        self.hits = []          # (exit expression node, owner description)
        self.stack = []
        self.exclude = set()

    # evaluation of an expression for its effects: returns the set of states {True, False} after it
    def ev(self, n, st):
        if n is None or not isinstance(n, dict):
            return st
        k = n.get("k")
        if k == "Closure":
            return st           # creating a closure evaluates nothing
        if k == "BlockExpr":
            return self.block(n["block"], st, value=False)
        if k == "Block":
            return self.block(n, st, value=False)
        if k == "If":
            st = self.ev(n["cond"], st)
            a = self.ev(n["then"], st)
            b = self.ev(n.get("else"), st) if n.get("else") else st
            return a | b
        if k == "Match":
            st = self.ev(n["scrut"], st)
            out = set()
            for a in n["arms"]:
                s2 = self.ev(a.get("guard"), st) if a.get("guard") else st
                out |= self.ev(a["body"], s2)
            return out or st
        if k == "Loop":
            inner = self.ev(n["body"], st)
            return st | inner
        if k == "Ret":
            e = n.get("e")
            if e is not None:
                s2 = self.ev(e, st)
                if not is_residual_ret(n):
                    self.exit(e, s2)
            return set()        # no normal completion
        if k in ("Break", "Continue"):
            return st
        if k in ("LetStmt",):
            st = self.ev(n.get("init"), st)
            if n.get("els"):
                self.ev(n["els"], st)
            return st
        if k in ("ExprStmt", "Semi"):
            return self.ev(n.get("e"), st)
        # generic expression: operands in order, then the node itself
        for key, v in n.items():
            if key in ("pat", "ty"):
                continue
            if isinstance(v, dict) and "k" in v:
                st = self.ev(v, st)
            elif isinstance(v, list):
                for x in v:
                    if isinstance(x, dict):
                        if "k" in x:
                            st = self.ev(x, st)
                        else:
                            for y in x.values():
                                if isinstance(y, dict) and "k" in y:
                                    st = self.ev(y, st)
        if self.is_event(n):
            return {True} if st else st
        if k in ("Call", "MethodCall"):
            g = _callee(self.F, self.crate, n)
            if g in self.F.hir and g not in self.exclude and contains_event(self.F, self.crate, self.F.hir[g]["body"], self.is_event, self.depth, set(self.exclude) | {g}):
                return {True} if st else st
        return st

    def block(self, b, st, value):
        for s in b.get("stmts") or []:
            st = self.ev(s, st)
            if not st:
                return st
        e = b.get("expr")
        if e is None:
            return st
        if value:
            return self.value(e, st)
        return self.ev(e, st)

    # evaluation of an expression whose VALUE leaves the region
    def value(self, n, st):
        k = n.get("k")
        if k == "BlockExpr":
            return self.block(n["block"], st, value=True)
        if k == "If" and n.get("else"):
            st = self.ev(n["cond"], st)
            return self.value(n["then"], st) | self.value(n["else"], st)
        if k == "Match" and not (n.get("src") or "").startswith("TryDesugar"):
            st = self.ev(n["scrut"], st)
            out = set()
            for a in n["arms"]:
                s2 = self.ev(a.get("guard"), st) if a.get("guard") else st
                out |= self.value(a["body"], s2)
            return out
        s2 = self.ev(n, st)
        self.exit(n, s2)
        return s2

    def exit(self, e, st):
        if False not in st:
            return
        if self.exempt(e):
            return
        # the value is produced by a local helper that contains the event: look inside it
        inner = e
        while inner.get("k") in ("Match",) and (inner.get("src") or "").startswith("TryDesugar"):
            # `helper(..)?` as the tail: Try::branch(helper(..))
            sc = inner["scrut"]
            inner = sc["args"][0] if sc.get("k") == "Call" and sc.get("args") else sc
        if inner.get("k") in ("Call", "MethodCall") and self.depth > 0:
            g = _callee(self.F, self.crate, inner)
            if g in self.F.hir and g not in self.stack and g not in self.exclude and contains_event(self.F, self.crate, self.F.hir[g]["body"], self.is_event, self.depth, set(self.exclude) | {g}):
                w = _Walker(self.F, self.crate, self.is_event, self.exempt, self.depth - 1)
                w.exclude = self.exclude
                w.stack = self.stack + [g]
                w.value(self.F.hir[g]["body"], {False})
                self.hits.extend(w.hits)
                return
        self.hits.append(e)


def unpreceded_exits(F, crate, region, is_event, is_exempt_exit=lambda e: False, depth=3, owner=None):
    """`owner`: the function the region belongs to.  A callee counts as the event only when it contains the event on a
    route that does NOT come back through the owner: the recursive descent into the general converter
    (`self.extract_type(operand)`, which reaches every operator's handling again) is not a consultation of the engine
    about THIS operator (seed C05-q: a memo hit returned right after the operand had been converted)."""
    w = _Walker(F, crate, is_event, is_exempt_exit, depth)
    w.exclude = {owner} if owner else set()
    w.value(region, {False})
    return w.hits


def eval_sequence(node):
    """nodes of a HIR subtree in (approximate) evaluation order: operands before the operation that uses them, the
    receiver of a method call before its arguments, statements in order, a closure's body at the position where the
    closure is handed over (for `a.or_else(|| b)`: a, then b).  Returns a list; the index is the sequence number."""
    out = []

    def go(n):
        if isinstance(n, list):
            for x in n:
                go(x)
            return
        if not isinstance(n, dict):
            return
        k = n.get("k")
        if k is None:
            for v in n.values():
                if isinstance(v, (dict, list)):
                    go(v)
            return
        if k == "MethodCall":
            go(n.get("recv"))
            go(n.get("args"))
            out.append(n)
            return
        if k == "Call":
            go(n.get("args"))
            out.append(n)
            return
        if k == "Block":
            go(n.get("stmts"))
            go(n.get("expr"))
            return
        if k in ("LetStmt", "Let"):
            go(n.get("init"))
            go(n.get("els"))
            out.append(n)
            return
        if k == "If":
            go(n.get("cond"))
            out.append(n)
            go(n.get("then"))
            go(n.get("else"))
            return
        if k == "Match":
            go(n.get("scrut"))
            out.append(n)
            for a in n.get("arms") or []:
                go(a.get("guard"))
                go(a.get("body"))
            return
        out.append(n)
        for key, v in n.items():
            if key in ("pat", "params") or not isinstance(v, (dict, list)):
                continue
            go(v)
    go(node)
    return out
