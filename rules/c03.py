"""C03 — validate / safeParse / parse agree; parsed data is a faithful projection; nothing throws.

C03.1  facade shape: parse returns data only under success, otherwise throws an Error; safeParse branches on
       validate(input) and calls parseAfterValidation / reportDecodeError on the matching branch only
C03.2  no throwing sink on input-derived values in validate / parseAfterValidation / reportDecodeError and the
       helpers they reach: dictionary lookups with input keys, `in` on dictionaries, JSON.stringify
C03.3  explicit throw census in those methods
C03.4  the input is never mutated
C03.5  the two objectKeyOrder branches use the same declared-key membership test
"""
import re
import tsast
from tsast import walk, s, unparen, method_call
from rules import ts_common

LEVEL = "other"
METHODS = ("validate", "parseAfterValidation", "reportDecodeError")
MUTATORS = {"push", "pop", "shift", "unshift", "splice", "sort", "reverse", "fill", "copyWithin", "set", "add", "delete", "clear"}
HELPER_FILES = ["packages/beff-client/src/err.ts"]


def record_fields(fam, cname):
    """fields of the class annotated Record<string, ...> (plain-object dictionaries)"""
    out = set()
    for fname, (owner, ann) in fam.all_fields(cname).items():
        if ann is not None and tsast.type_str(ann).startswith("Record<"):
            out.add(fname)
    return out


def own_key_guarded(fn, node, dict_txt, key_txt):
    """a hasOwnProperty-style test for (dict, key) appears in fn before the access"""
    for n in walk(fn):
        if n["type"] == "CallExpression" and n["span"]["start"] < node["span"]["start"]:
            txt = s(n)
            if txt in ("hasOwn.call(%s,%s)" % (dict_txt, key_txt), "Object.prototype.hasOwnProperty.call(%s,%s)" % (dict_txt, key_txt),
                       "Object.hasOwn(%s,%s)" % (dict_txt, key_txt), "%s.hasOwnProperty(%s)" % (dict_txt, key_txt)):
                return True
    return False


def sinks_in(fam, mod, cname, mname, fn, T, dicts):
    """yield (kind, node, detail) for throwing sinks on tainted values"""
    for n in walk(fn):
        t = n["type"]
        if t == "MemberExpression" and n["property"]["type"] == "Computed":
            obj = s(n["object"])
            if obj.startswith("this.") and obj[5:] in dicts and ts_common.mentions(n["property"]["expression"], T):
                key = s(n["property"]["expression"])
                if not own_key_guarded(fn, n, obj, key):
                    yield "dict-lookup", n, "%s[%s]" % (obj, key)
        elif t == "BinaryExpression" and n["operator"] == "in":
            obj = s(n["right"])
            if obj.startswith("this.") and obj[5:] in dicts and ts_common.mentions(n["left"], T):
                yield "in-dict", n, "%s in %s" % (s(n["left"]), obj)
        elif t == "CallExpression" and s(n["callee"]) == "JSON.stringify" and n["arguments"]:
            a = n["arguments"][0]["expression"]
            if ts_common.mentions(a, T) and not ts_common.in_try_with_handler(fn, n):
                yield "json-stringify", n, "JSON.stringify(%s)" % s(a)


def declared_lookup_rule(fam, mod, rep, rid):
    """validate() of the object class reads a declared property with `input[k]` - through the prototype chain, so class
    instances with accessors and objects that inherit a member are accepted, as TypeScript's structural typing has it.
    parseAfterValidation() then has to copy the property from the same place.  If its only route to a declared key is
    the list of the input's OWN keys (`Object.keys(input)`, a `hasOwnProperty.call(input, k)` guard), an accepted input
    yields data without the property: safeParse succeeds and the returned value is rejected by the same validator.
    Decided per class with a record of declared members, over parseAfterValidation and the private methods it reaches:
    a COPY SITE is a call `this.F[k].parseAfterValidation(ctx, X[k])`.  When the `validate` call on `X[k]` for declared
    k runs under no own-ness test: (a) no copy site whose key ranges over the declared keys is guarded by an own-ness
    test of X; (b) next to every copy site whose key comes from somewhere else (the input's own keys) there is - in the
    same function and not in a branch excluded by it - a copy site that ranges over the declared keys."""
    from rules.c16 import schema_reachable_methods
    OWN = re.compile(r"hasOwn\w*\.call\((\w+),|Object\.hasOwn\((\w+),|Object\.keys\((\w+)\)\.includes")
    n = 0
    for cname, c in sorted(fam.classes.items()):
        mv, mp = c.methods.get("validate"), c.methods.get("parseAfterValidation")
        if not mv or not mp or mv["function"].get("body") is None or mp["function"].get("body") is None:
            continue

        def sites(fn, meth):
            """calls this.F[k].<meth>(ctx, X[k]) with the range of the key and the own-ness tests they run under"""
            al = ts_common.local_aliases(fn)
            out = []
            for call in walk(fn):
                if call["type"] != "CallExpression":
                    continue
                mc = method_call(call)
                if not mc or mc[1] != meth or len(mc[2]) < 2:
                    continue
                recv = unparen(mc[0])
                if recv.get("type") == "Identifier" and recv["value"] in al:
                    recv = unparen(al[recv["value"]])
                if not (recv.get("type") == "MemberExpression" and recv["property"]["type"] == "Computed" and s(unparen(recv["object"])).startswith("this.")):
                    continue
                fld = s(unparen(recv["object"]))[5:]
                key = s(unparen(recv["property"]["expression"]))
                a1 = unparen(mc[2][1])
                if a1.get("type") == "Identifier" and a1["value"] in al:
                    a1 = unparen(al[a1["value"]])
                if not (a1.get("type") == "MemberExpression" and a1["property"]["type"] == "Computed" and unparen(a1["object"]).get("type") == "Identifier"
                        and s(unparen(a1["property"]["expression"])) == key):
                    continue
                base = unparen(a1["object"])["value"]
                src = None
                for lp in walk(fn):
                    if lp["type"] in ("ForOfStatement", "ForInStatement") and any(x is call for x in walk(lp["body"])) and key in [x.get("value") for x in walk(lp["left"]) if x.get("type") == "Identifier"]:
                        r_ = unparen(lp["right"])
                        hops = 0
                        while r_.get("type") == "Identifier" and r_["value"] in al and hops < 3:
                            r_ = unparen(al[r_["value"]])
                            hops += 1
                        src = s(r_)
                ka = ts_common.known_atoms(fn, call)
                own = False
                for t_, pol in ka.items():
                    m_ = OWN.search(t_)
                    if pol and m_ and (m_.group(1) or m_.group(2) or m_.group(3)) == base:
                        own = True
                declared = src is not None and ("this.%s" % fld) in src and ("Object.keys(%s)" % base) not in src
                out.append({"call": call, "field": fld, "own_guard": own, "declared_range": declared, "src": src, "atoms": ka, "fn": fn})
            return out
        vs, ps_ = [], []
        for m_ in sorted(schema_reachable_methods(c, roots=("validate",))):
            vs += sites(c.methods[m_]["function"], "validate")
        units = [(m_, c.methods[m_]["function"]) for m_ in sorted(schema_reachable_methods(c, roots=("parseAfterValidation",)))]
        for m_, fn in units:
            for x in sites(fn, "parseAfterValidation"):
                x["unit"] = m_
                ps_.append(x)
        if not vs or not ps_:
            continue
        inclusive = [x for x in vs if x["declared_range"] and not x["own_guard"]]
        if not inclusive:
            continue
        fld = inclusive[0]["field"]
        here = [x for x in ps_ if x["field"] == fld]

        def exclusive(a, b):
            return any(t_ in b["atoms"] and b["atoms"][t_] != pol for t_, pol in a["atoms"].items())
        for x in here:
            n += 1
            lab = "%s.%s/%s" % (cname, x["unit"], "declared-range" if x["declared_range"] else "other-range")
            if x["declared_range"]:
                ok = not x["own_guard"]
                why = "copies the declared property only under an own-ness test of the input"
            else:
                ok = any(y is not x and y["fn"] is x["fn"] and y["declared_range"] and not y["own_guard"] and not exclusive(x, y) for y in here)
                why = "reaches declared properties through `%s` only - a list that holds the input's own keys - and no loop over the declared keys completes it" % (x["src"] or "?")[:40]
            rep.ob(rid, lab, ok,
                   "%s.validate reads declared properties with `input[k]` (own or inherited) but %s.%s %s: an input that inherits a declared property - a class instance with an accessor, Object.create(proto) - is accepted, and the returned data lacks the property, so it is rejected by the same validator" % (cname, cname, x["unit"], why),
                   mod.loc(x["call"]), sample={"class": cname, "method": x["unit"], "key_range": x["src"], "own_guard": x["own_guard"]})
    rep.floor(rid, "sites of parseAfterValidation that copy declared properties", n, 2)


def proto_safe_output_rule(fam, mod, rep, rid):
    """`o[k] = v` on an object that has Object.prototype behind it is NOT a definition of the property k when k is
    "__proto__": it calls the inherited setter, which replaces o's prototype when v is an object and does nothing
    otherwise.  JSON.parse creates own `__proto__` properties, so such keys reach validators; a parse result built
    with plain assignments loses the key (the returned data has fewer keys than the accepted input and - for a value
    that is an object - inherits that object's members).  Decided for every computed-key assignment `o[k] = ..` in the
    parseAfterValidation methods of the validator classes, and in module-level helpers they hand the object to, where o
    is a local created by an object literal (or the helper's parameter) and k is not a literal: at the site k is known
    to differ from "__proto__" (a guard `k === "__proto__"` on the other branch; the property is then defined with
    Object.defineProperty), or o was created without a prototype."""
    n = 0

    def spells_proto(fn, e):
        """the expression is the string "__proto__": the literal, or a `const` (module-level or local to fn) that is
        initialised with the literal - b102 names it `const PROTO_KEY = "__proto__"`"""
        e = unparen(e)
        while e.get("type") in ("TsAsExpression", "TsConstAssertion", "TsSatisfiesExpression"):
            e = unparen(e["expression"])
        if e.get("type") == "StringLiteral":
            return e["value"] == "__proto__"
        if e.get("type") != "Identifier":
            return False
        inits = [d_.get("init") for v_ in walk(fn) if v_["type"] == "VariableDeclaration" and v_.get("kind") == "const"
                 for d_ in v_["declarations"] if d_["id"].get("type") == "Identifier" and d_["id"]["value"] == e["value"]]
        if not inits and e["value"] not in ts_common.fn_params(fn):
            mv = mod.vars.get(e["value"])
            inits = [mv[1]] if mv and mv[0] == "const" else []
        if len(inits) != 1 or inits[0] is None:
            return False
        i_ = unparen(inits[0])
        while i_.get("type") in ("TsAsExpression", "TsConstAssertion", "TsSatisfiesExpression"):
            i_ = unparen(i_["expression"])
        return i_.get("type") == "StringLiteral" and i_["value"] == "__proto__"

    def proto_test(fn, atom, kt):
        """True when the known atom says `<k> === "__proto__"`, False when it says `<k> !== "__proto__"` (either
        operand order, the string given by a literal or a named constant), None for any other atom"""
        e = ts_common._NODES.get(atom)
        e = unparen(e) if e is not None else None
        if e is None or e.get("type") != "BinaryExpression" or e["operator"] not in ("===", "!=="):
            return None
        l, r = unparen(e["left"]), unparen(e["right"])
        if not ((s(l) == kt and spells_proto(fn, r)) or (s(r) == kt and spells_proto(fn, l))):
            return None
        return e["operator"] == "==="

    def judge(label, fn, objs):
        nonlocal n
        for a in walk(fn):
            if a["type"] != "AssignmentExpression" or a.get("operator") != "=":
                continue
            left = unparen(a["left"])
            if left.get("type") != "MemberExpression" or left["property"]["type"] != "Computed":
                continue
            o = unparen(left["object"])
            if o.get("type") != "Identifier" or o["value"] not in objs:
                continue
            k = unparen(left["property"]["expression"])
            while k.get("type") in ("TsAsExpression", "TsNonNullExpression", "TsSatisfiesExpression"):
                k = unparen(k["expression"])
            if k.get("type") in ("StringLiteral", "NumericLiteral"):
                continue
            ka = ts_common.known_atoms(fn, a)
            kt = s(k)
            safe = any((t_.strip("()") in ('%s==="__proto__"' % kt, '"__proto__"===%s' % kt) and pol is False) or
                       (t_.strip("()") in ('%s!=="__proto__"' % kt, '"__proto__"!==%s' % kt) and pol is True) or
                       proto_test(fn, t_, kt) == (not pol) for t_, pol in ka.items())
            n += 1
            rep.ob(rid, "%s/%s[%s]" % (label, o["value"], kt), safe,
                   "%s writes the parse result with `%s[%s] = ..` where the key comes from the input: for an own key `__proto__` of the input (JSON.parse creates those) the assignment sets the result's prototype instead of defining the property - the key is missing from the returned data, and an object value becomes the data's prototype" % (label, o["value"], kt),
                   mod.loc(a), sample={"site": label, "object": o["value"], "key": kt})
    from rules.c16 import schema_reachable_methods
    helpers_seen = set()

    def obj_names(fn):
        """identifiers of fn that can hold a result object: locals created by an object literal, parameters and
        destructured fields that are not created as arrays"""
        objs, arrays = set(), set()
        for d_ in walk(fn):
            if d_["type"] == "VariableDeclarator" and d_.get("init") is not None:
                i_ = unparen(d_["init"])
                while i_.get("type") in ("TsAsExpression", "TsSatisfiesExpression"):
                    i_ = unparen(i_["expression"])
                if d_["id"].get("type") == "Identifier":
                    if i_.get("type") == "ObjectExpression":
                        objs.add(d_["id"]["value"])
                    elif i_.get("type") in ("ArrayExpression",) or (i_.get("type") == "NewExpression" and s(i_["callee"]) == "Array"):
                        arrays.add(d_["id"]["value"])
                elif d_["id"].get("type") == "ObjectPattern":
                    for pp in d_["id"]["properties"]:
                        v_ = pp.get("value") if pp["type"] == "KeyValuePatternProperty" else pp.get("key")
                        if v_ is not None and v_.get("type") == "Identifier":
                            objs.add(v_["value"])
        return objs, arrays
    for cname, c in sorted(fam.classes.items()):
        mp = c.methods.get("parseAfterValidation")
        if not mp or mp["function"].get("body") is None:
            continue
        for mname in sorted(schema_reachable_methods(c, roots=("parseAfterValidation",))):
            fn = c.methods[mname]["function"]
            objs, arrays = obj_names(fn)
            if mname != "parseAfterValidation":
                # a private method of the parse path may be handed the result object
                objs |= {p_ for p_ in ts_common.fn_params(fn) if p_} - arrays
            judge("%s.%s" % (cname, mname), fn, objs)
            # module-level helpers handed one of those objects
            for call in walk(fn):
                if call["type"] == "CallExpression" and unparen(call["callee"]).get("type") == "Identifier":
                    r_ = tsast.resolve_local_call(mod, cname, call)
                    if r_ is None:
                        continue
                    hfn = r_[0]
                    hps = ts_common.fn_params(hfn)
                    handed = {hps[i_] for i_, a_ in enumerate(call["arguments"]) if i_ < len(hps) and hps[i_] and unparen(a_["expression"]).get("type") == "Identifier" and unparen(a_["expression"])["value"] in objs}
                    nm = unparen(call["callee"])["value"]
                    if handed and nm not in helpers_seen:
                        helpers_seen.add(nm)
                        judge(nm, hfn, handed)
    rep.floor(rid, "computed-key writes into parse results", n, 1)


def run(cx, rep):
    fam = ts_common.Family(cx)
    mod = fam.mod
    rep.explanation = (
        "Intraprocedural taint over the swc AST of the runtime: values derived from the `input` parameter (member reads, "
        "Object.keys elements, loop variables, callback parameters, aliases) must not reach a throwing sink - a lookup or "
        "`in` test on a plain-object dictionary field (prototype keys such as constructor / toString / __proto__), or "
        "JSON.stringify outside a try/catch (throws on bigint and cycles) - in validate / parseAfterValidation / "
        "reportDecodeError of any runtime class and in the helpers they reach (union error building, error rendering); "
        "no assignment, delete or mutator call may be rooted at an input-derived object; the facade's parse/safeParse have "
        "the agreeing shape; the two objectKeyOrder branches use the same membership test. Decides these necessary "
        "conditions for 'nothing throws / input untouched / entry points agree' for all inputs; output faithfulness is not decided.")
    rep.trusted = ["swc AST", "declared field annotations (Record<..>) of the runtime classes"]
    # ---------------------------------------------------------------- C03.1
    rep.rule("C03.1", "facade shape of parse / safeParse / validate")
    facade = [c for c in mod.classes.values() if "BeffParser" in c.implements and {"parse", "safeParse", "validate"} <= set(c.methods)]
    if len(facade) != 1:
        rep.anchor_missing("C03.1", "parser facade (class implementing BeffParser)")
    else:
        fc = facade[0]
        p = fc.methods["parse"]["function"]
        ps = ts_common.fn_params(p)
        calls = [n for n in walk(p) if n["type"] == "CallExpression" and s(n["callee"]) == "this.safeParse"]
        ok = len(calls) == 1 and [s(a["expression"]) for a in calls[0]["arguments"]] == ps[:2]
        rets = [n for n in tsast.walk_no_nested_fn(p["body"]) if n["type"] == "ReturnStatement"]
        throws = [n for n in tsast.walk_no_nested_fn(p["body"]) if n["type"] == "ThrowStatement"]

        def holds(fn_, node_, pred, pol):
            return any(pred(c_) and p_ == pol for c_, p_ in ts_common.known_conditions(fn_, node_))
        succ = lambda c_: c_.endswith(".success") or c_.endswith(".success?")
        ok = ok and len(rets) == 1 and s(rets[0]["argument"]).endswith(".data") and holds(p, rets[0], succ, True) \
            and len(throws) == 1 and s(throws[0]["argument"]).startswith("new Error(") and (holds(p, throws[0], succ, False) or (
                # `if (r.success) return r.data; throw ..`: the throw is what remains
                any(c_ for c_, p_ in [(0, 0)]) and not ts_common.known_conditions(p, throws[0]) and holds(p, rets[0], succ, True)
                and rets[0]["span"]["start"] < throws[0]["span"]["start"]))
        rep.ob("C03.1", "parse", ok, "parse must return safeParse(input, options).data exactly when .success and otherwise throw a new Error", mod.loc(p),
               sample={"returns": [s(r["argument"]) for r in rets], "throws": [s(t["argument"])[:40] for t in throws]})
        sp = fc.methods["safeParse"]["function"]
        sps = ts_common.fn_params(sp)
        v = [n for n in walk(sp) if n["type"] == "CallExpression" and s(n["callee"]) == "this.validate"]
        ok = len(v) == 1 and [s(a["expression"]) for a in v[0]["arguments"]] == sps[:2]
        pav = [n for n in walk(sp) if n["type"] == "CallExpression" and method_call(n) and method_call(n)[1] == "parseAfterValidation"]
        rde = [n for n in walk(sp) if n["type"] == "CallExpression" and method_call(n) and method_call(n)[1] == "reportDecodeError"]
        isval = lambda c_: v and c_ == s(v[0])
        ok = ok and len(pav) == 1 and len(rde) == 1 and s(pav[0]["arguments"][1]["expression"]) == sps[0] and s(rde[0]["arguments"][1]["expression"]) == sps[0] \
            and holds(sp, pav[0], isval, True) and holds(sp, rde[0], isval, False)
        rep.ob("C03.1", "safeParse", ok, "safeParse must branch on validate(input, options) and call parseAfterValidation only on success and reportDecodeError only on failure, for the same input", mod.loc(sp))
        # both contexts use the same strictness value
        objs = [n for n in walk(sp) if n["type"] == "ObjectExpression" and any(tsast.prop_key(pp["key"]) == "disallowExtraProperties" if pp["type"] == "KeyValueProperty" else pp.get("value") == "disallowExtraProperties" for pp in n["properties"])]
        rep.ob("C03.1", "safeParse/same-strictness", len(objs) == 2 and all(any(pp["type"] == "Identifier" and pp["value"] == "disallowExtraProperties" for pp in o["properties"]) for o in objs),
               "parse and report contexts must carry the same disallowExtraProperties value", mod.loc(sp))
    # ---------------------------------------------------------------- C03.2
    rep.rule("C03.2", "no throwing sink on input-derived values")
    n_methods = 0
    n_sinks_ok = 0
    for cname, mname, fn in ts_common.family_methods(fam, METHODS):
        ps = ts_common.fn_params(fn)
        if len(ps) < 2 or ps[1] is None:
            continue
        n_methods += 1
        T = ts_common.taint(fn, {ps[1]})
        dicts = record_fields(fam, cname)
        for kind, node, detail in sinks_in(fam, mod, cname, mname, fn, T, dicts):
            why = {"dict-lookup": "a key taken from the input indexes a plain-object dictionary: `constructor`, `toString`, `__proto__` hit Object.prototype and the result is used as a validator",
                   "in-dict": "`in` on a plain-object dictionary is true for inherited keys such as `toString`",
                   "json-stringify": "JSON.stringify throws a TypeError on bigint and on cyclic values"}[kind]
            rep.ob("C03.2", "%s.%s/%s/%s" % (cname, mname, kind, detail), False, "%s.%s: `%s` - %s" % (cname, mname, detail, why), mod.loc(node))
    # helpers reached: module-level functions of codegen-v2.ts / err.ts whose parameters carry error records or received values
    helpers = []
    for fname, fnode in mod.functions.items():
        if fname in ("deduplicateErrors", "buildUnionError", "buildError", "prependPath", "maxErrorDepth") or fname.startswith("deepmerge"):
            helpers.append((mod, fname, fnode))
    err = cx.ts(HELPER_FILES[0])
    for vn, (kind, init, decl) in err.vars.items():
        if init is not None and init["type"] in ("ArrowFunctionExpression", "FunctionExpression"):
            helpers.append((err, vn, init))
    for m2, fname, fnode in helpers:
        ps = [p for p in ts_common.fn_params(fnode) if p]
        T = ts_common.taint(fnode, set(ps))
        for n in walk(fnode):
            if n["type"] == "CallExpression" and s(n["callee"]) == "JSON.stringify" and n["arguments"]:
                a = n["arguments"][0]["expression"]
                if ts_common.mentions(a, T) and not ts_common.in_try_with_handler(fnode, n):
                    rep.ob("C03.2", "%s/json-stringify/%s" % (fname, s(a)), False,
                           "%s: JSON.stringify(%s) on a value that contains the rejected input (`received`): a bigint or a cyclic object makes safeParse/parse throw a TypeError instead of reporting" % (fname, s(a)),
                           m2.loc(n))
    rep.ob("C03.2", "scan", True, sample={"methods_scanned": n_methods, "helpers_scanned": len(helpers)})
    rep.floor("C03.2", "validate/parse/report methods scanned", n_methods, 60)
    # ---------------------------------------------------------------- C03.3
    rep.rule("C03.3", "explicit throws in validate / parseAfterValidation / reportDecodeError are the reviewed ones")
    tab = {(e["class"], e["method"]): e for e in cx.table("c03_throws.json")["throws"]}
    for cname, mname, fn in ts_common.family_methods(fam, METHODS):
        th = [n for n in walk(fn) if n["type"] == "ThrowStatement"]
        if th:
            e = tab.get((cname, mname))
            rep.ob("C03.3", "%s.%s" % (cname, mname), e is not None and len(th) <= e["count"],
                   "%s.%s throws explicitly (%d site(s)); not in the reviewed table of throws that cannot be reached after a successful validate" % (cname, mname, len(th)), mod.loc(th[0]),
                   sample={"site": "%s.%s" % (cname, mname), "reason": e and e["reason"]})
    # ---------------------------------------------------------------- C03.4
    rep.rule("C03.4", "the input is never mutated")
    n_scan = 0
    for cname, mname, fn in ts_common.family_methods(fam, METHODS):
        ps = ts_common.fn_params(fn)
        if len(ps) < 2 or ps[1] is None:
            continue
        n_scan += 1
        T = ts_common.taint(fn, {ps[1]})
        # values that are fresh objects although computed from tainted data are not input objects
        fresh = set()
        for n in walk(fn):
            if n["type"] == "VariableDeclarator" and n.get("init") is not None and n["id"]["type"] == "Identifier":
                it = unparen(n["init"])
                if it["type"] in ("ArrayExpression", "ObjectExpression", "NewExpression", "TemplateLiteral") or \
                        (it["type"] == "CallExpression" and (s(it["callee"]) in ("Object.keys", "Object.entries", "Object.values", "Array.from", "deepmerge") or
                                                             (method_call(it) and method_call(it)[1] in ("filter", "map", "slice", "concat", "flat", "reportDecodeError", "validate", "keys", "values", "entries")))):
                    fresh.add(n["id"]["value"])
        roots = T.names() - fresh - {p for p in ps if p != ps[1]}
        for n in walk(fn):
            tgt = None
            what = None
            if n["type"] == "AssignmentExpression" and unparen(n["left"])["type"] == "MemberExpression":
                tgt = unparen(n["left"])["object"]
                what = "assignment to %s" % s(n["left"])
            elif n["type"] == "UnaryExpression" and n["operator"] == "delete":
                tgt = unparen(n["argument"]).get("object")
                what = "delete %s" % s(n["argument"])
            elif n["type"] == "CallExpression":
                mc = method_call(n)
                if mc and mc[1] in MUTATORS:
                    tgt = mc[0]
                    what = "%s.%s(..)" % (s(mc[0]), mc[1])
                elif s(n["callee"]) in ("Object.assign", "Object.defineProperty", "Object.defineProperties", "Object.setPrototypeOf", "Object.freeze", "Object.seal",
                                        "Reflect.set", "Reflect.deleteProperty", "Reflect.defineProperty") and n["arguments"]:
                    # a child's parseAfterValidation may hand back the input object itself (opaque leaves, `any`):
                    # its result is input-derived, and writing into it writes into the caller's value
                    tgt = n["arguments"][0]["expression"]
                    what = "%s(%s, ..)" % (s(n["callee"]), s(tgt))
            if tgt is None:
                continue
            base = unparen(tgt)
            while base.get("type") == "MemberExpression":
                base = unparen(base["object"])
            if base.get("type") == "Identifier" and base["value"] in roots and base["value"] not in ("ctx",) and T.mentions(base):
                rep.ob("C03.4", "%s.%s/%s" % (cname, mname, what), False, "%s.%s mutates an input-derived object: %s" % (cname, mname, what), mod.loc(n))
    rep.ob("C03.4", "scan", True, sample={"methods_scanned": n_scan})
    # ---------------------------------------------------------------- C03.6
    rep.rule("C03.6", "the opaque-leaf predicate of deepmerge does not depend on the environment")
    def disjuncts(e):
        e = unparen(e)
        if e.get("type") == "BinaryExpression" and e["operator"] == "||":
            return disjuncts(e["left"]) + disjuncts(e["right"])
        return [e]
    n_pred = 0
    for fname, fnode in mod.functions.items():
        if not fname.startswith("deepmerge"):
            continue
        for n in walk(fnode):
            if n["type"] != "ConditionalExpression":
                continue
            test = s(n["test"])
            if "Buffer" not in test and "process" not in test and "globalThis" not in test and "window" not in test:
                continue
            def kinds(branch):
                out = set()
                for fn2 in [branch] if unparen(branch).get("type") not in ("ArrowFunctionExpression", "FunctionExpression") else [unparen(branch)["body"]]:
                    for x in walk(fn2):
                        if x["type"] == "BinaryExpression" and x["operator"] == "instanceof":
                            out.add("instanceof " + s(x["right"]))
                        if x["type"] == "CallExpression" and s(x["callee"]) in ("ArrayBuffer.isView", "Array.isArray"):
                            out.add(s(x["callee"]))
                        if x["type"] == "BinaryExpression" and unparen(x["left"]).get("type") == "UnaryExpression" and unparen(x["left"])["operator"] == "typeof":
                            out.add("typeof" + x["operator"] + s(x["right"]))
                return out
            a, b = kinds(n["consequent"]), kinds(n["alternate"])
            if not a and not b:
                continue
            n_pred += 1
            diff = {k for k in (a ^ b) if "Buffer" not in k.replace("ArrayBuffer", "")}
            rep.ob("C03.6", "%s/env-branches-agree" % fname, not diff,
                   "%s: the two environment branches of a value-kind test differ in %s: a value kind is treated as an opaque leaf in one runtime and merged key by key in the other (typed arrays, Dates lose their kind in parse output)" % (fname, sorted(diff)),
                   mod.loc(n), sample={"test": test, "then": sorted(a), "else": sorted(b)})
    rep.floor("C03.6", "environment-dependent kind tests in deepmerge", n_pred, 1)
    # ---------------------------------------------------------------- C03.18
    rep.rule("C03.18", "the runtime keeps no module-level state between calls except registries keyed by a parameter of a module-level registering function")
    # validate / safeParse / parse are functions of (validator, input, options).  A module-level container that some
    # function mutates is state shared by ALL parsers and ALL calls: a fast path keyed on it (`seen.has(input)`) makes
    # the result of one call depend on earlier calls - of other parsers too.  The only accepted shape is a registry:
    # every write is `X[k] = v` with k and v parameters of an exported top-level function (custom formats).
    n_state = 0
    for rel in ("packages/beff-client/src/codegen-v2.ts", "packages/beff-client/src/err.ts", "packages/beff-client/src/hash.ts"):
        m2 = cx.ts(rel)
        fns2 = list(m2.functions.items()) + [(vn, init) for vn, (_k, init, _d) in m2.vars.items() if init is not None and init.get("type") in ("ArrowFunctionExpression", "FunctionExpression")]
        fns2 += [("%s.%s" % (cn, mn), mm["function"]) for cn, c_ in m2.classes.items() for mn, mm in c_.methods.items()]
        for vn, (kind, init, decl) in sorted(m2.vars.items()):
            i_ = unparen(init) if init is not None else None
            if i_ is None or i_.get("type") in ("ArrowFunctionExpression", "FunctionExpression"):
                continue
            container = i_.get("type") in ("ObjectExpression", "ArrayExpression") or (i_.get("type") == "NewExpression" and s(i_["callee"]) in ("Map", "Set", "WeakMap", "WeakSet", "Array", "Object"))
            if not container and kind == "const":
                continue
            writes = []
            for fname, fn in fns2:
                if fn.get("body") is None:
                    continue
                ps = [p for p in ts_common.fn_params(fn) if p]
                if vn in ps:
                    continue        # shadowed
                for x in walk(fn):
                    t_ = x.get("type")
                    tgt = None
                    if t_ == "AssignmentExpression":
                        tgt = x["left"]
                    elif t_ == "UpdateExpression" or (t_ == "UnaryExpression" and x.get("operator") == "delete"):
                        tgt = x["argument"]
                    elif t_ == "CallExpression" and method_call(x) and method_call(x)[1] in ("add", "set", "push", "delete", "clear", "pop", "shift", "unshift", "splice", "sort") and s(method_call(x)[0]) == vn:
                        writes.append((fname, fn, x, "call"))
                    if tgt is not None:
                        tt = unparen(tgt)
                        root = tt
                        while root.get("type") == "MemberExpression":
                            root = unparen(root["object"])
                        if root.get("type") == "Identifier" and root["value"] == vn:
                            writes.append((fname, fn, x, "assign"))
            if not writes:
                continue
            n_state += 1
            bad = []
            for fname, fn, x, how in writes:
                ps = [p for p in ts_common.fn_params(fn) if p]
                ok_ = False
                if how == "assign" and x["type"] == "AssignmentExpression" and "." not in fname:
                    l_ = unparen(x["left"])
                    # a registry entry: keyed by a parameter of a module-level function (register / define / override)
                    if l_.get("type") == "MemberExpression" and l_["property"].get("type") == "Computed" and unparen(l_["object"]).get("value") == vn \
                            and s(unparen(l_["property"]["expression"])) in ps:
                        ok_ = True
                if not ok_:
                    bad.append("%s (%s)" % (fname, s(x)[:50]))
            rep.ob("C03.18", "%s/%s" % (rel.rsplit("/", 1)[-1], vn), not bad,
                   "module-level `%s` is mutated by %s: state shared by every parser and every call - a result that consults it depends on what was validated or parsed before, so validate / safeParse / parse stop being functions of (validator, input, options)" % (vn, "; ".join(bad[:3])),
                   m2.loc(decl), sample={"binding": vn, "writers": sorted({w[0] for w in writes})})
    rep.ob("C03.18", "scan", True, sample={"module_level_mutable_bindings": n_state})
    # ---------------------------------------------------------------- C03.17
    rep.rule("C03.17", "every kind of object a validator admits as a whole (instanceof K) is an opaque leaf for the deep merge of parse results")
    # which built-in kinds do validate() methods admit by `input instanceof K`?
    admitted = {}
    for cname, c in sorted(fam.classes.items()):
        m = c.methods.get("validate")
        if not m or m["function"].get("body") is None:
            continue
        ps = ts_common.fn_params(m["function"])
        inp = ps[1] if len(ps) > 1 else None
        for x in walk(m["function"]):
            if x["type"] == "BinaryExpression" and x["operator"] == "instanceof" and s(unparen(x["left"])) == inp:
                k = s(unparen(x["right"]))
                if k and k[0].isupper():
                    admitted.setdefault(k, cname)
    rep.floor("C03.17", "built-in kinds admitted by instanceof", len(admitted), 2)
    # the value-kind predicates of the deep merge: functions / arrows inside deepmerge* whose body is one boolean
    # expression over `typeof value === \"object\"`-style tests
    preds = []
    for fname, fnode in mod.functions.items():
        if not fname.startswith("deepmerge"):
            continue
        for x in walk(fnode):
            if x["type"] in ("FunctionDeclaration", "FunctionExpression", "ArrowFunctionExpression") and x is not fnode:
                body = x.get("body")
                if body is None:
                    continue
                txt = s(body) if body.get("type") != "BlockStatement" else " ".join(s(st.get("argument") or {}) for st in body["stmts"] if st["type"] == "ReturnStatement")
                if body.get("type") == "BlockStatement" and not (len(body["stmts"]) == 1 and body["stmts"][0]["type"] == "ReturnStatement"):
                    continue
                if txt.count("instanceof") >= 2:
                    nm = (x.get("identifier") or {}).get("value") or "<arrow#%d>" % len([p_ for p_ in preds if p_[0].startswith("<arrow")])
                    kinds = {s(unparen(y["right"])) for y in walk(x) if y["type"] == "BinaryExpression" and y["operator"] == "instanceof"}
                    preds.append((nm, x, kinds))
    rep.floor("C03.17", "value-kind predicates of the deep merge", len(preds), 1)
    for nm, node, kinds in preds:
        missing = sorted(k for k in admitted if k not in kinds)
        rep.ob("C03.17", "%s/opaque-kinds" % nm, not missing,
               "the deep merge of parse results decides with %s whether a value is a plain object to be rebuilt key by key; it does not except %s, which %s admits as a whole (`input instanceof %s`): such a value reaching the merge (a union member: one matching branch is enough) is rebuilt as `{}` from its enumerable keys - parse returns an empty object where the input held a %s" % (
                   nm, ", ".join(missing), ", ".join(admitted[k] for k in missing), missing[0] if missing else "", missing[0] if missing else ""),
               mod.loc(node), sample={"predicate": nm, "excepts": sorted(kinds), "admitted_by_validators": sorted(admitted)})
    # ---------------------------------------------------------------- C03.7
    rep.rule("C03.7", "index-signature validators are applied to undeclared keys only")
    # In the object class a declared property wins over the index signature: validate / parseAfterValidation /
    # reportDecodeError may hand a key to the index-signature validators only when it is known NOT to be a declared
    # key (a guard with `continue`, or a key list filtered by the negated membership test).  Otherwise the projection of
    # a declared property is overwritten by the (wider, lossy) index-signature projection, or reported twice.
    n_ix = 0
    for cname, c in sorted(fam.classes.items()):
        ixf = ts_common.index_signature_field(fam, cname)
        pfs = record_fields(fam, cname)
        if ixf is None or not pfs:
            continue
        for mname in METHODS:
            m = c.methods.get(mname)
            if m is None or m["function"].get("body") is None:
                continue
            fn = m["function"]
            al = ts_common.local_aliases(fn)
            al_all = dict(al)

            def is_declared_test(txt, key):
                txt = txt.replace(" ", "")
                for pf in pfs:
                    if txt in ("hasOwn.call(this.%s,%s)" % (pf, key), "Object.prototype.hasOwnProperty.call(this.%s,%s)" % (pf, key), "Object.hasOwn(this.%s,%s)" % (pf, key), "(%s in this.%s)" % (key, pf)):
                        return True
                mm = re.match(r"^(\w+)\.includes\(%s\)$" % re.escape(key), txt)
                if mm and mm.group(1) in al_all and any(("Object.keys(this.%s)" % pf) in s(al_all[mm.group(1)]) for pf in pfs):
                    return True
                return False
            # iterations over the index signatures: `for (const p of this.<ixf>)` or `this.<ixf>.some/forEach/..((p) => ..)`,
            # in the method itself or in private helpers it calls (seen with arguments substituted)
            # own nodes plus the bodies of the local helpers the method calls (arguments substituted); a node of a
            # helper body counts as lying wherever the call lies
            nodes = []
            clone_site = {}
            clone_root = {}    # node of a helper clone -> [(clone body, call node it was cloned for)] innermost first
            def add_nodes(root, via, depth, roots=()):
                for x_ in walk(root):
                    nodes.append(x_)
                    if via is not None:
                        clone_site[id(x_)] = via
                        clone_root[id(x_)] = roots
                    if depth > 0 and x_["type"] == "CallExpression":
                        r_ = tsast.resolve_local_call(mod, cname, x_)
                        if r_ is not None:
                            body__, _sub = tsast.inline_clone(r_[0], x_)
                            add_nodes(body__, via if via is not None else x_, depth - 1, ((body__, x_),) + tuple(roots))
            add_nodes(fn, None, 3)

            def atoms_at(site_):
                """what is known where `site_` runs: inside the helper(s) it was cloned from, and at the call(s) that
                lead there"""
                ka_ = {}
                cur = site_
                for body__, call__ in clone_root.get(id(site_), ()):
                    ka_.update(ts_common.known_atoms({"type": "FunctionExpression", "params": [], "body": body__}, cur))
                    cur = call__
                ka_.update(ts_common.known_atoms(fn, cur if id(site_) in clone_root else site_))
                return ka_

            def contains(outer_, site_):
                if any(x_ is site_ for x_ in walk(outer_)):
                    return True
                via = clone_site.get(id(site_))
                return via is not None and any(x_ is via for x_ in walk(outer_))
            iters = []   # (node that contains the per-signature code, signature variable)
            for x in nodes:
                if x["type"] == "ForOfStatement" and s(x["right"]) == "this.%s" % ixf and x["left"]["type"] == "VariableDeclaration":
                    iters.append((x, x["body"], x["left"]["declarations"][0]["id"].get("value")))
                elif x["type"] == "CallExpression":
                    mc = method_call(x)
                    if mc and s(mc[0]) == "this.%s" % ixf and mc[1] in ts_common.ITER_METHODS and mc[2] and mc[2][0].get("type") in ("ArrowFunctionExpression", "FunctionExpression"):
                        cps = ts_common.fn_params(mc[2][0])
                        if cps and cps[0]:
                            iters.append((x, mc[2][0], cps[0]))
            # all local aliases, including those of inlined helpers
            al_all = dict(al)
            for x in nodes:
                if x["type"] == "VariableDeclarator" and x["id"].get("type") == "Identifier" and x.get("init") is not None:
                    al_all.setdefault(x["id"]["value"], x["init"])

            def filtered_source(src, depth=0):
                """the expression yields only keys for which the declared-membership test is false"""
                src = unparen(src)
                if src.get("type") == "Identifier" and src["value"] in al_all and depth < 4:
                    return filtered_source(al_all[src["value"]], depth + 1)
                for fc in tsast.walk_inl(mod, cname, src):
                    mc = method_call(fc) if fc["type"] == "CallExpression" else None
                    if mc and mc[1] == "filter" and mc[2] and mc[2][0].get("type") in ("ArrowFunctionExpression", "FunctionExpression"):
                        cb = mc[2][0]
                        cps = ts_common.fn_params(cb)
                        body = cb["body"]
                        e = body if body.get("type") != "BlockStatement" else next((r_["argument"] for r_ in walk(body) if r_["type"] == "ReturnStatement"), None)
                        e = unparen(e) if e else {}
                        if e.get("type") == "UnaryExpression" and e["operator"] == "!" and cps and is_declared_test(s(e["argument"]), cps[0]):
                            return True
                return False
            for site, body_, pvar in iters:
                keys_used = set()
                for x in tsast.walk_inl(mod, cname, body_):
                    mc = method_call(x) if x["type"] == "CallExpression" else None
                    if mc and s(mc[0]) == "%s.key" % pvar and len(mc[2]) >= 2:
                        # the numeric reading of a property name (`Number(k)`, `+k`) is a question about the same key
                        ke = unparen(mc[2][1])
                        if ke.get("type") == "Identifier" and ke["value"] in al_all and unparen(al_all[ke["value"]]).get("type") in ("CallExpression", "UnaryExpression"):
                            ke = unparen(al_all[ke["value"]])       # `const numericName = Number(name)`
                        if ke.get("type") == "CallExpression" and s(ke["callee"]) in ("Number", "parseFloat", "Number.parseFloat") and ke["arguments"]:
                            ke = unparen(ke["arguments"][0]["expression"])
                        elif ke.get("type") == "UnaryExpression" and ke["operator"] == "+":
                            ke = unparen(ke["argument"])
                        keys_used.add(s(ke))
                for key in sorted(keys_used):
                    n_ix += 1
                    ka = atoms_at(site)
                    ok = any(v_ is False and is_declared_test(a_, key) for a_, v_ in ka.items())
                    if not ok:
                        # the key ranges over a filtered list: an enclosing for-of / iteration callback binds it
                        for outer in nodes:
                            if id(outer) in clone_site:
                                # a loop inside the same helper clone: it must contain the site itself
                                if not any(x_ is site for x_ in walk(outer)):
                                    continue
                            elif not contains(outer, site):
                                continue
                            if outer["type"] == "ForOfStatement" and outer["left"]["type"] == "VariableDeclaration" and outer["left"]["declarations"][0]["id"].get("value") == key:
                                ok = ok or filtered_source(outer["right"])
                            elif outer["type"] == "CallExpression":
                                mc = method_call(outer)
                                if mc and mc[1] in ts_common.ITER_METHODS and mc[2] and mc[2][0].get("type") in ("ArrowFunctionExpression", "FunctionExpression") \
                                        and (ts_common.fn_params(mc[2][0]) or [None])[0] == key and contains(mc[2][0], site):
                                    ok = ok or filtered_source(mc[0])
                    rep.ob("C03.7", "%s.%s/%s" % (cname, mname, key), ok,
                           "%s.%s applies the index-signature validators to key `%s` without knowing that it is not a declared property: a declared property is then also parsed / reported through the index signature (its projection is overwritten)" % (cname, mname, key),
                           mod.loc(site), sample={"method": mname, "key": key})
    rep.floor("C03.7", "index-signature loops in the object class", n_ix, 3)
    # ---------------------------------------------------------------- C03.5
    rep.rule("C03.5", "objectKeyOrder branches agree on the declared-key membership test")
    for cname, mname, fn in ts_common.family_methods(fam, ("parseAfterValidation",)):
        for n in walk(fn):
            if n["type"] == "IfStatement" and "objectKeyOrder" in s(n["test"]) and n.get("alternate") is not None:
                def tests(part):
                    out = set()
                    for x in walk(part):
                        if x["type"] == "BinaryExpression" and x["operator"] == "in" and s(x["right"]).startswith("this."):
                            out.add("in:" + s(x["right"]))
                        if x["type"] == "CallExpression":
                            t = s(x)
                            for pre in ("hasOwn.call(this.", "Object.prototype.hasOwnProperty.call(this.", "Object.hasOwn(this."):
                                if t.startswith(pre):
                                    out.add("hasOwn:this." + t[len(pre):].split(",")[0])
                    return out
                a, b = tests(n["consequent"]), tests(n["alternate"])
                kinds_a = {x.split(":")[0] for x in a}
                kinds_b = {x.split(":")[0] for x in b}
                rep.ob("C03.5", "%s.%s" % (cname, mname), kinds_a == kinds_b or not (a and b),
                       "%s.%s: the `input` key-order branch tests declared keys with %s, the `sorted` branch with %s: a key such as `toString` is kept in one mode and dropped in the other" % (
                           cname, mname, sorted(a), sorted(b)), mod.loc(n), sample={"input_branch": sorted(a), "sorted_branch": sorted(b)})
    # ---------------------------------------------------------------- C03.8
    rep.rule("C03.8", "parseAfterValidation() reads every constructor argument it read on the reviewed tree")
    ts_common.field_matrix_rule(cx, rep, "C03.8", ['parseAfterValidation'])
    # ---------------------------------------------------------------- C03.10
    rep.rule("C03.10", "parseAfterValidation(): every element of an array-valued constructor argument is accounted for (no fixed-size prefix)")
    ts_common.truncation_rule(cx, rep, "C03.10", ['parseAfterValidation'])
    # ---------------------------------------------------------------- C03.11
    rep.rule("C03.11", "no call is handed one argument per element of an input-sized array (spread in call position)")
    ts_common.unbounded_spread_rule(cx, rep, "C03.11", ['validate', 'parseAfterValidation', 'reportDecodeError'])
    # ---------------------------------------------------------------- C03.13
    rep.rule("C03.13", "no decision rests on comparing the number of input keys with the number of declared keys")
    ts_common.key_count_rule(cx, rep, "C03.13")
    # ---------------------------------------------------------------- C03.19
    rep.rule("C03.19", "parse copies a declared property from wherever validate read it (own or inherited): its presence test is no stricter")
    declared_lookup_rule(fam, mod, rep, "C03.19")
    # ---------------------------------------------------------------- C03.20
    rep.rule("C03.20", "a key taken from the input is never written into a parse result by plain assignment unless it is known not to be `__proto__`")
    proto_safe_output_rule(fam, mod, rep, "C03.20")
    # ---------------------------------------------------------------- C03.16
    rep.rule("C03.16", "rendering a rejected value never converts a value of unknown type to a string implicitly where it can be a symbol or an object")
    ts_common.implicit_to_string_rule(cx, rep, "C03.16")
    # ---------------------------------------------------------------- C03.15
    rep.rule("C03.15", "a throw of parseAfterValidation on non-object member results is backed by validate() rejecting non-objects")
    parse_throw_guard_rule(fam, mod, rep, "C03.15")
    # ---------------------------------------------------------------- C03.14
    rep.rule("C03.14", "validate / parseAfterValidation / reportDecodeError keep no state on the validator instances")
    from rules.c16 import instance_state_rule
    instance_state_rule(ts_common.Family(cx).mod, None, rep, "C03.14", roots=("validate", "parseAfterValidation", "reportDecodeError"), what="validate() / parseAfterValidation() / reportDecodeError()", floor=40,
                        why="the three entry points answer for one (value, options) pair at a time; an answer stored on the (shared) instance is replayed for another value or other options, and validate / safeParse / parse stop agreeing")
    # ---------------------------------------------------------------- C03.12
    rep.rule("C03.12", "validate() / reportDecodeError() touch their input only where it cannot be null or undefined")
    null_deref_rule(fam, mod, rep, "C03.12")
    # ---------------------------------------------------------------- C03.9
    rep.rule("C03.9", "parseAfterValidation delegates a value to a member only if validate() sent it through that member")
    accept_guard_rule(fam, mod, rep, "C03.9")


NULLISH = ("undefined", "null", "other")


def _nullish_atom(e):
    """(subject text, values of {undefined, null, other} for which the test is TRUE) for a nullness test, else None"""
    e = unparen(e)
    if e.get("type") != "BinaryExpression" or e["operator"] not in ("==", "!=", "===", "!=="):
        return None
    l, r = unparen(e["left"]), unparen(e["right"])
    def lit(x):
        if x.get("type") == "NullLiteral":
            return "null"
        if x.get("type") == "Identifier" and x["value"] == "undefined":
            return "undefined"
        if x.get("type") == "UnaryExpression" and x["operator"] == "void":
            return "undefined"
        return None
    if lit(r) is None and lit(l) is not None:
        l, r = r, l
    k = lit(r)
    if k is None:
        return None
    op = e["operator"]
    if op in ("==", "!="):
        yes = {"undefined", "null"}
    else:
        yes = {k}
    if op in ("!=", "!=="):
        yes = set(NULLISH) - yes
    return s(l), yes


def _allowed(fn, node, subject):
    """values of {undefined, null, other} the subject can have at `node`, and the other atoms known there"""
    allowed = set(NULLISH)
    other = {}
    for txt, pol in ts_common.known_atoms(fn, node).items():
        e = ts_common._NODES.get(txt)
        na = _nullish_atom(e) if e is not None else None
        if na is not None and na[0] == subject:
            allowed &= na[1] if pol else (set(NULLISH) - na[1])
        else:
            other[txt] = pol
    return allowed, other


def accept_guard_rule(fam, mod, rep, rid):
    """validate() of a wrapper may ACCEPT a value without showing it to the wrapped member (an optional field accepts
    null and undefined).  parseAfterValidation() must then not hand such a value to the member's parseAfterValidation:
    the member never validated it, so it dereferences null / builds a value that is not a projection of the input.
    Decided per class: for every `return true` of validate() that is guarded by tests on the input itself (not by a
    member's verdict), the guards known at every `<member>.parseAfterValidation(ctx, <same input>)` call contradict
    it - nullness tests are compared as sets over {undefined, null, other}, other tests by text and polarity."""
    n = 0
    for cname in sorted(fam.concrete()):
        _, v = fam.resolve_method(cname, "validate")
        _, p = fam.resolve_method(cname, "parseAfterValidation")
        if not v or not p or v["function"].get("body") is None or p["function"].get("body") is None:
            continue
        vf, pf = v["function"], p["function"]
        vparams, pparams = ts_common.fn_params(vf), ts_common.fn_params(pf)
        if len(vparams) < 2 or len(pparams) < 2 or not vparams[1] or not pparams[1]:
            continue
        vin, pin = vparams[1], pparams[1]
        accepts = []
        for r in walk(vf):
            if r["type"] != "ReturnStatement" or r.get("argument") is None:
                continue
            a = unparen(r["argument"])
            guards = None
            if a.get("type") == "BooleanLiteral" and a["value"] is True:
                guards = (r, None)
            elif a.get("type") == "BinaryExpression" and a["operator"] == "||":
                guards = (r, a["left"])
            if guards is None:
                continue
            allowed, other = _allowed(vf, r, vin)
            if guards[1] is not None:
                na = _nullish_atom(guards[1])
                if na is not None and na[0] == vin:
                    allowed &= na[1]
                else:
                    other[s(unparen(guards[1]))] = True
            # a guard that is a member's verdict (or a loop over members) is not an accept-without-delegation
            if any(".validate(" in t for t in other):
                continue
            if allowed == set(NULLISH) and not other:
                continue
            # the accept must precede / replace a delegation in the same function
            if not any(c["type"] == "CallExpression" and s(c["callee"]).endswith(".validate") for c in walk(vf)):
                continue
            accepts.append((r, allowed, other))
        if not accepts:
            continue
        for c in walk(pf):
            if c["type"] != "CallExpression" or not s(c["callee"]).endswith(".parseAfterValidation"):
                continue
            args = c.get("arguments") or []
            if len(args) < 2 or s(unparen(args[1]["expression"])) != pin:
                continue
            p_allowed, p_other = _allowed(pf, c, pin)
            for r, allowed, other in accepts:
                n += 1
                # rename the validate-side subject to the parse-side one for textual atoms
                contradiction = False
                if allowed != set(NULLISH) and not (allowed & p_allowed):
                    contradiction = True
                for t, pol in other.items():
                    t2 = re.sub(r"\b%s\b" % re.escape(vin), pin, t)
                    if t2 in p_other and p_other[t2] != pol:
                        contradiction = True
                leak = sorted(allowed & p_allowed) if allowed != set(NULLISH) else ["(values passing %s)" % ", ".join(sorted(other))]
                rep.ob(rid, "%s/%s" % (cname, s(c["callee"])), contradiction,
                       "%s.validate accepts `%s` in {%s} without consulting the member, but %s.parseAfterValidation hands %s to %s: the member never validated that value, so parse throws a TypeError or returns something that is not a projection of the input" % (
                           cname, vin, ", ".join(sorted(allowed)) if allowed != set(NULLISH) else ", ".join(sorted(other)), cname, ", ".join(leak), s(c["callee"])),
                       mod.loc(c), sample={"class": cname, "accepted_without_member": sorted(allowed), "reaching_member_parse": sorted(p_allowed)})
    rep.floor(rid, "accept-without-delegation guards matched with a delegating parse", n, 1)


def null_deref_rule(fam, mod, rep, rid, methods=("validate", "reportDecodeError")):
    """validate() and reportDecodeError() receive ANY value.  Reading a property of it (`input.x`, `input[k]`),
    `k in input`, `Object.keys(input)`, `for (.. of input)` throw a TypeError for null / undefined (and `in` for every
    primitive), so each such use must lie under guards that exclude them: `input == null` known false,
    `typeof input === "object"` together with a null test, `Array.isArray(input)`, `input instanceof C`.
    Decided with ts_common.known_atoms (enclosing tests and earlier guards that leave, De Morgan decomposed), nullness
    tests evaluated over {undefined, null, other}."""
    n = 0
    for cname in sorted(fam.concrete()):
        for mname in methods:
            _, m = fam.resolve_method(cname, mname)
            if not m or m["function"].get("body") is None:
                continue
            fn = m["function"]
            ps = ts_common.fn_params(fn)
            if len(ps) < 2 or not ps[1]:
                continue
            inp = ps[1]
            uses = []
            for x in walk(fn):
                t = x["type"]
                if t == "MemberExpression" and unparen(x["object"]).get("type") == "Identifier" and unparen(x["object"])["value"] == inp:
                    uses.append((x, "property read %s" % s(x)[:30]))
                elif t == "BinaryExpression" and x["operator"] == "in" and unparen(x["right"]).get("type") == "Identifier" and unparen(x["right"])["value"] == inp:
                    uses.append((x, "`in` test"))
                elif t == "CallExpression" and s(x["callee"]) in ("Object.keys", "Object.entries", "Object.values", "Object.getOwnPropertyNames") and x["arguments"] \
                        and unparen(x["arguments"][0]["expression"]).get("type") == "Identifier" and unparen(x["arguments"][0]["expression"])["value"] == inp:
                    uses.append((x, s(x["callee"])))
                elif t == "ForOfStatement" and unparen(x["right"]).get("type") == "Identifier" and unparen(x["right"])["value"] == inp:
                    uses.append((x["right"], "for..of"))
            for node, what in uses:
                n += 1
                allowed, other = _allowed(fn, node, inp)
                ok = not (allowed & {"undefined", "null"})
                if not ok:
                    for a_, v_ in other.items():
                        a2 = a_.replace("(", "").replace(")", "").replace(" ", "")
                        if v_ is True and (a2 == "Array.isArray%s" % inp or a2.startswith(inp + "instanceof") or a_.startswith("Array.isArray(" + inp)):
                            ok = True
                        if v_ is True and re.match(r"^typeof%s===?.object.$" % re.escape(inp), a2) and "null" not in allowed:
                            ok = True
                        if v_ is False and re.match(r"^typeof%s!==?.object.$" % re.escape(inp), a2) and "null" not in allowed:
                            ok = True
                        if v_ is True and (" instanceof " in a_ and a_.split(" instanceof ")[0].strip("( ") == inp):
                            ok = True
                rep.ob(rid, "%s.%s/%s" % (cname, mname, what), ok,
                       "%s.%s uses its input (%s) where it may still be %s: the method throws a TypeError for that value instead of answering" % (cname, mname, what, " or ".join(sorted(allowed & {"undefined", "null"})) or "a primitive"),
                       mod.loc(node), sample={"class": cname, "method": mname, "use": what, "input_may_be": sorted(allowed)})
    rep.floor(rid, "uses of the raw input that need a nullness guard", n, 10)


def parse_throw_guard_rule(fam, mod, rep, rid):
    """parseAfterValidation() may assume what validate() established.  A `throw` in it that fires when a member's
    result is not an object (`typeof parsed !== "object"`) is unreachable only as long as validate() itself rejects
    every non-object input; without that test an intersection of non-object types whose members all accept a string
    validates it, and safeParse / parse then throw the internal error instead of answering.  Decided: a class whose
    parseAfterValidation throws under a `typeof .. "object"` test has a validate() that tests `typeof <input> ===
    "object"` (the same atom the reporter mirror of C12.2 uses)."""
    from rules.c12 import atoms
    n = 0
    for cname in sorted(fam.concrete()):
        _, p = fam.resolve_method(cname, "parseAfterValidation")
        _, v = fam.resolve_method(cname, "validate")
        if not p or not v or p["function"].get("body") is None or v["function"].get("body") is None:
            continue
        pf = tsast.flatten_fn(mod, cname, p["function"])
        guarded = []
        # the throw may sit in a local helper that is handed the member's result (b102: `const parsed =
        # expectParsedObject(member.parseAfterValidation(ctx, input))` - flatten_fn does not inline it, the argument is
        # a call): the helpers reached from the parse step (module functions, methods through `this`) are read as well
        bodies, seen_h = [pf], set()
        # locals of the parse step that hold a member's parse result
        results = {d_["id"]["value"] for d_ in walk(pf) if d_["type"] == "VariableDeclarator" and d_["id"].get("type") == "Identifier"
                   and d_.get("init") is not None and ".parseAfterValidation(" in s(d_["init"])}
        for c_ in walk(pf):
            if c_["type"] != "CallExpression":
                continue
            r_ = tsast.resolve_local_call(mod, cname, c_)
            if r_ is None or id(r_[0]) in seen_h:
                continue
            # only a helper that receives a member's parse result (directly or through a local) can test it
            if not any(".parseAfterValidation(" in s(a_["expression"]) or
                       (unparen(a_["expression"]).get("type") == "Identifier" and unparen(a_["expression"])["value"] in results) for a_ in c_["arguments"]):
                continue
            seen_h.add(id(r_[0]))
            bodies.append(tsast.flatten_fn(mod, r_[1] or cname, r_[0]))
        for b_ in bodies:
            for i in walk(b_):
                if i["type"] == "IfStatement" and "typeof" in s(i["test"]) and '"object"' in s(i["test"]) and any(t_["type"] == "ThrowStatement" for t_ in walk(i["consequent"])):
                    guarded.append(i)
        if not guarded:
            continue
        n += 1
        vf = tsast.flatten_fn(mod, cname, v["function"])
        vin = ts_common.fn_params(vf)[1]
        av = atoms(vf, vin)
        rep.ob(rid, "%s/validate-rejects-non-objects" % cname, ("typeof", "object") in av,
               "%s.parseAfterValidation throws when a member's result is not an object, but %s.validate no longer rejects non-object inputs: for an intersection of non-object types whose members all accept the value, validate() says true and safeParse / parse throw an internal error" % (cname, cname),
               mod.loc(guarded[0]), sample={"class": cname, "validate_tests": sorted(map(str, av))})
    rep.floor(rid, "classes whose parse step throws on a non-object member result", n, 1)
