"""C15 — describe() prints TypeScript that compiles back to the same validator.

C15.1  every identifier-like token a describeTypeExpr can print is a keyword or builtin name the frontend resolves
C15.2  composite forms use the builtin spellings the frontend lowers to the same kind (Array<>, Map<,>, Set<>, ...Array<>)
C15.3  property names interpolated into type text are quoted unless they are identifiers
C15.4  recursion guards and single declaration of named types
"""
import re
import tsast
from tsast import walk, s, unparen, method_call
from facts import walk as hwalk
from rules import ts_common

LEVEL = "other"
SYNTAX_WORDS = {"K", "in", "true", "false", "type", "readonly"}


def frontend_vocabulary(F):
    kw = set()
    g = [x for x in F.hir if x.endswith("extract_ts_keyword_type")]
    for gid in g:
        for n in hwalk(F.hir[gid]["body"]):
            if n["k"] == "Match":
                for a in n["arms"]:
                    pats = a["pat"]["pats"] if a["pat"]["k"] == "P.Or" else [a["pat"]]
                    is_err = any(x["k"] == "MethodCall" and x["method"] in ("error", "box_error") for x in hwalk(a["body"]))
                    for p in pats:
                        m = re.search(r"TsKeywordTypeKind::Ts(\w+)Keyword$", p.get("def") or "")
                        if m and not is_err:
                            kw.add(m.group(1).lower())
    bi = set()
    # the builtin-name table, by role: frontend functions that answer a TsBuiltIn from a match over string literals
    g = [x for x in F.hir if F.fns.get(x) is not None and "TsBuiltIn" in (F.fns[x].output or "") and "/src/frontend/" in (F.fns[x].file or "")]
    # ... and the name tables those functions consult (a sub-table split off into its own function, e.g. the typed
    # array names): local callees, one level
    more = set()
    for gid in g:
        f = F.fns[gid]
        for n in hwalk(F.hir[gid]["body"]):
            if n["k"] in ("Call", "MethodCall"):
                cal = n.get("callee") if n["k"] == "Call" else (n.get("resolved") or n.get("callee"))
                tg = F._callee_gid(f.crate, cal) if cal else None
                if tg in F.hir and F.fns.get(tg) is not None and "/src/frontend/" in (F.fns[tg].file or ""):
                    more.add(tg)
    for gid in list(g) + sorted(more - set(g)):
        for n in hwalk(F.hir[gid]["body"]):
            if n["k"] == "Match":
                for a in n["arms"]:
                    pats = a["pat"]["pats"] if a["pat"]["k"] == "P.Or" else [a["pat"]]
                    for p in pats:
                        if p.get("lit"):
                            bi.add(p["lit"])
    return kw, bi


def _hole_values(mod, fn_name, fn, e):
    """string values a template hole can take when it is a parameter that every caller passes as a string literal
    (or a local const with a literal initialiser); None when unknown"""
    e = unparen(e)
    if e.get("type") == "StringLiteral":
        return {e["value"]}
    if e.get("type") != "Identifier":
        return None
    params = ts_common.fn_params(fn)
    if e["value"] in params and fn_name:
        idx = params.index(e["value"])
        vals = set()
        short = fn_name.rsplit(".", 1)[-1]
        for n in walk(mod.module):
            if n["type"] != "CallExpression":
                continue
            c = unparen(n["callee"])
            nm = c.get("value") if c.get("type") == "Identifier" else (c["property"].get("value") if c.get("type") == "MemberExpression" and c["property"]["type"] == "Identifier" else None)
            if nm != short or len(n["arguments"]) <= idx:
                continue
            a = unparen(n["arguments"][idx]["expression"])
            if a.get("type") == "StringLiteral":
                vals.add(a["value"])
            elif a.get("type") == "Identifier" and a["value"] == e["value"] and any(x is n for x in walk(fn)):
                continue        # the function handing its own parameter on (recursion)
            else:
                return None
        return vals or None
    for n in walk(fn):
        if n["type"] == "VariableDeclarator" and n["id"].get("value") == e["value"] and n.get("init") is not None:
            i = unparen(n["init"])
            if i.get("type") == "StringLiteral":
                return {i["value"]}
    return None


def string_constants(fn, mod=None, fn_name=None):
    """(text, node) for every string constant the function can print.  Template quasis are taken piecewise, except that
    a word glued to a hole (`${kind}Format<`) is only judged as a whole: with the values the hole can take when they
    are known (a parameter every caller passes as a literal), not at all otherwise.  String literals that are handed
    to a local helper as such a parameter are judged there, glued, and skipped here."""
    out = []
    consumed = set()
    if mod is not None:
        for n in walk(fn):
            if n["type"] != "CallExpression":
                continue
            r = tsast.resolve_local_call(mod, None, n) if unparen(n["callee"]).get("type") == "Identifier" else None
            if r is None:
                continue
            hfn = r[0]
            hp = ts_common.fn_params(hfn)
            holes = {unparen(x).get("value") for t in walk(hfn) if t["type"] == "TemplateLiteral" for x in t["expressions"] if unparen(x).get("type") == "Identifier"}
            for i, a in enumerate(n["arguments"]):
                ae = unparen(a["expression"])
                if ae.get("type") == "StringLiteral" and i < len(hp) and hp[i] in holes:
                    consumed.add(id(ae))
    for n in walk(fn):
        if n["type"] == "TsLiteralType":
            consumed.add(id(n.get("literal")))      # a literal TYPE in an annotation prints nothing
    for n in walk(fn):
        if n["type"] == "StringLiteral":
            if id(n) not in consumed:
                out.append((n["value"], n))
        elif n["type"] == "TemplateLiteral":
            qs = [q.get("cooked") or q.get("raw") or "" for q in n["quasis"]]
            variants = [""]
            for i, q in enumerate(qs):
                variants = [v + q for v in variants]
                if i < len(n["expressions"]):
                    nxt = qs[i + 1] if i + 1 < len(qs) else ""
                    glued = bool(re.search(r"[A-Za-z0-9_]$", q)) or bool(re.match(r"[A-Za-z0-9_]", nxt))
                    vals = _hole_values(mod, fn_name, fn, n["expressions"][i]) if (glued and mod is not None) else None
                    if not glued:
                        variants = [v + " " for v in variants]
                    elif vals is not None and len(vals) * len(variants) <= 16:
                        variants = [v + x for v in variants for x in sorted(vals)]
                    else:
                        # unknown glue: drop the partial word on both sides of the hole
                        variants = [re.sub(r"[A-Za-z0-9_]+$", "", v) + " \x00" for v in variants]
            for v in variants:
                v = re.sub(r"\x00[A-Za-z0-9_]*", " ", v)
                out.append((v, n))
    return out


def return_field_coverage(mod, cname, fn):
    """[(return node, fields it depends on)] and the set D of `this.<field>` the method reads at all (private helpers it
    calls are seen through).  Dependence = data (through locals, accumulators, loop variables) or control (tests of the
    enclosing conditionals and of earlier guards that leave the method)."""
    nodes = list(tsast.walk_inl(mod, cname, fn))

    def this_fields(e, env):
        out = set()
        for x in tsast.walk_inl(mod, cname, e):
            if x["type"] == "MemberExpression" and x["object"]["type"] == "ThisExpression" and x["property"]["type"] == "Identifier":
                out.add(x["property"]["value"])
            elif x["type"] == "Identifier" and x["value"] in env:
                out |= env[x["value"]]
        return out
    env = {}
    changed = True
    rounds = 0
    while changed and rounds < 8:
        changed = False
        rounds += 1
        for n in nodes:
            tgt, src = [], None
            t = n["type"]
            if t == "VariableDeclarator" and n.get("init") is not None:
                tgt, src = ts_common.binders(n["id"]), n["init"]
            elif t == "AssignmentExpression" and unparen(n["left"]).get("type") == "Identifier":
                tgt, src = [unparen(n["left"])["value"]], n["right"]
            elif t in ("ForOfStatement", "ForInStatement") and n["left"].get("type") == "VariableDeclaration":
                tgt, src = [b for d in n["left"]["declarations"] for b in ts_common.binders(d["id"])], n["right"]
            elif t == "CallExpression":
                mc = method_call(n)
                if mc and mc[1] in ("push", "unshift", "set", "add") and unparen(mc[0]).get("type") == "Identifier" and mc[2]:
                    tgt = [unparen(mc[0])["value"]]
                    src = {"type": "ArrayExpression", "elements": [{"expression": a, "spread": None} for a in mc[2]], "span": n["span"]}
            elif t in ("ArrowFunctionExpression", "FunctionExpression"):
                # callback parameters of iteration methods depend on the receiver
                continue
            if src is None:
                continue
            fs = this_fields(src, env)
            for b in tgt:
                if b and not fs <= env.get(b, set()):
                    env[b] = env.get(b, set()) | fs
                    changed = True
        # callback params: x.map((it) => ..) : it <- fields(x)
        for n in nodes:
            if n["type"] == "CallExpression":
                mc = method_call(n)
                if mc and mc[1] in ts_common.ITER_METHODS:
                    fs = this_fields(mc[0], env)
                    for a in mc[2]:
                        if a.get("type") in ("ArrowFunctionExpression", "FunctionExpression"):
                            for pn in ts_common.fn_params(a):
                                if pn and not fs <= env.get(pn, set()):
                                    env[pn] = env.get(pn, set()) | fs
                                    changed = True
    D = this_fields(fn, {}) - {"metadata"}
    body = fn.get("body")
    rets = []
    if body is None:
        return [], D

    def exits(stmt):
        if stmt["type"] in ("ReturnStatement", "ThrowStatement"):
            return True
        if stmt["type"] == "BlockStatement":
            return any(exits(x) for x in stmt["stmts"])
        return False

    def visit(stmts, cond):
        cond = set(cond)
        for st in stmts:
            t = st["type"]
            if t == "ReturnStatement":
                rets.append((st, cond | (this_fields(st["argument"], env) if st.get("argument") is not None else set())))
            elif t == "IfStatement":
                c2 = cond | this_fields(st["test"], env)
                visit([st["consequent"]] if st["consequent"]["type"] != "BlockStatement" else st["consequent"]["stmts"], c2)
                if st.get("alternate") is not None:
                    visit([st["alternate"]] if st["alternate"]["type"] != "BlockStatement" else st["alternate"]["stmts"], c2)
                if exits(st["consequent"]) or (st.get("alternate") is not None and exits(st["alternate"])):
                    cond = c2      # what follows runs only when the guard did not leave
            elif t == "BlockStatement":
                visit(st["stmts"], cond)
            elif t in ("ForOfStatement", "ForInStatement", "ForStatement", "WhileStatement", "DoWhileStatement"):
                b = st["body"]
                visit(b["stmts"] if b["type"] == "BlockStatement" else [b], cond | (this_fields(st.get("right") or st.get("test") or {"type": "x"}, env)))
            elif t == "TryStatement":
                visit(st["block"]["stmts"], cond)
                if st.get("handler"):
                    visit(st["handler"]["body"]["stmts"], cond)
                if st.get("finalizer"):
                    visit(st["finalizer"]["stmts"], cond)
            elif t == "SwitchStatement":
                c2 = cond | this_fields(st["discriminant"], env)
                for cs in st["cases"]:
                    visit(cs["consequent"], c2)
    visit(body["stmts"], set())
    return rets, D


def run(cx, rep):
    F = cx.rs
    fam = ts_common.Family(cx)
    mod = fam.mod
    rep.explanation = (
        "Writer/reader agreement between describe() (TypeScript runtime) and the compiler frontend (Rust): the vocabulary "
        "the frontend resolves is read from the typed HIR (keyword arms of extract_ts_keyword_type that do not raise a "
        "diagnostic; literal patterns of maybe_generate_ts_builtin); every identifier-like token in the string constants "
        "and template quasis of every describeTypeExpr / describe helper must belong to it (fields with declared literal "
        "unions are checked through their domain); composite classes must use the builtin spellings; property keys must "
        "pass through a quoting step; recursion guards and the single-assignment of definitions are checked as shapes. "
        "Decides that the printed text is in the language the frontend reads; equality of the second-generation "
        "validator is not decided.")
    rep.trusted = ["rustc typed HIR of the frontend", "swc AST of codegen-v2.ts"]
    kw, bi = frontend_vocabulary(F)
    rep.rule("C15.1", "printed type names are names the frontend knows")
    rep.floor("C15.1", "frontend keywords", len(kw), 10)
    rep.floor("C15.1", "frontend builtins", len(bi), 25)
    vocab = kw | bi | SYNTAX_WORDS
    n_tok = 0
    helper_fns = [(k, v) for k, v in mod.functions.items() if k.startswith("describe") or k in ("renderTypeAlias",)]
    targets = [("%s.describeTypeExpr" % cn, c.methods["describeTypeExpr"]["function"], cn) for cn, c in sorted(fam.classes.items())
               if "describeTypeExpr" in c.methods and c.methods["describeTypeExpr"]["function"].get("body") is not None]
    targets += [(k, v, None) for k, v in helper_fns]
    for name, fn, cn in targets:
        for val, node in string_constants(fn, mod, name):
            if any(t["type"] == "ThrowStatement" and any(x is node for x in walk(t)) for t in walk(fn)):
                continue
            for tok in re.findall(r"[A-Za-z_][A-Za-z0-9_]*", val):
                n_tok += 1
                rep.ob("C15.1", "%s/%s" % (name, tok), tok in vocab,
                       "%s prints `%s`, which is neither a TypeScript keyword the frontend lowers nor one of its builtin type names: compiling the description back fails or means another type" % (name, tok),
                       mod.loc(node), sample={"printer": name, "token": tok})
        # values returned from fields with a declared literal-union domain
        if cn:
            for n in walk(fn):
                if n["type"] == "ReturnStatement" and n.get("argument") is not None and s(n["argument"]).startswith("this.") and "." not in s(n["argument"])[5:]:
                    fld = s(n["argument"])[5:]
                    ann = fam.all_fields(cn).get(fld, (None, None))[1]
                    dom = tsast.literal_union(ann) if ann is not None else None
                    if dom is None and ann is not None and ann.get("type") == "TsTypeReference":
                        al = mod.type_aliases.get(tsast.type_str(ann))
                        dom = tsast.literal_union(al["typeAnnotation"]) if al else None
                    if dom is None:
                        # constructor parameter domain
                        c = fam.classes[cn]
                        for pn, pann in c.ctor_params():
                            if tsast.s(c.ctor_assignments().get(fld, {"type": "Identifier", "value": ""})) == pn:
                                dom = tsast.literal_union(pann)
                    if dom is not None:
                        rep.ob("C15.1", "%s/domain:%s" % (name, fld), set(dom) <= vocab, "%s prints this.%s whose domain %s is not within the frontend's vocabulary" % (name, fld, sorted(dom)), mod.loc(n),
                               sample={"printer": name, "field": fld, "domain": sorted(dom)})
    rep.floor("C15.1", "tokens checked", n_tok, 15)
    # ---------------------------------------------------------------- C15.2
    rep.rule("C15.2", "composite forms use builtin spellings")
    want = {"ArrayRuntype": ["Array<"], "MapRuntype": ["Map<"], "SetRuntype": ["Set<"], "TupleRuntype": ["...Array<"]}
    for cn, needles in want.items():
        c = fam.classes.get(cn)
        if c is None or "describeTypeExpr" not in c.methods:
            rep.anchor_missing("C15.2", cn + ".describeTypeExpr")
            continue
        consts = "".join(v for v, _ in string_constants(c.methods["describeTypeExpr"]["function"]))
        for nd in needles:
            rep.ob("C15.2", "%s/%s" % (cn, nd), nd in consts, "%s.describeTypeExpr no longer prints `%s...>`: the frontend lowers only that spelling to the same kind" % (cn, nd),
                   mod.loc(c.methods["describeTypeExpr"]), sample={"class": cn, "form": nd})
    # ---------------------------------------------------------------- C15.3
    rep.rule("C15.3", "property names are quoted unless they are identifiers")
    objs = [cn for cn in fam.classes if "properties" in fam.all_fields(cn) and "describeTypeExpr" in fam.classes[cn].methods]
    for cn in objs:
        fn = fam.classes[cn].methods["describeTypeExpr"]["function"]
        # identifiers that stand for a PROPERTY NAME: whatever indexes the declared-properties record
        pnames = {s(x["property"]["expression"]) for x in walk(fn) if x["type"] == "MemberExpression" and x["property"]["type"] == "Computed"
                  and s(x["object"]) == "this.properties" and unparen(x["property"]["expression"]).get("type") == "Identifier"}
        calls = [n for n in walk(fn) if n["type"] == "CallExpression" and s(n["callee"]) == "describeObjectMember"
                 and len(n["arguments"]) > 1 and any(i_["type"] == "Identifier" and i_["value"] in pnames for i_ in walk(n["arguments"][1]["expression"]))]
        rep.floor("C15.3", "object member printers", len(calls), 1)
        for c in calls:
            key = c["arguments"][1]["expression"]
            ktxt = s(key)
            quoted = "JSON.stringify" in ktxt or re.search(r"quote|printKey|propertyKey|safeKey", ktxt, re.I) is not None
            if not quoted:
                # or the helper itself quotes its key parameter
                h = mod.functions.get("describeObjectMember")
                if h:
                    ps = [p["pat"]["value"] for p in h["params"]]
                    body = "".join(mod.text(h["body"]).split())
                    quoted = ("JSON.stringify(%s)" % ps[1]) in body
            rep.ob("C15.3", "%s/quoted-keys" % cn, quoted,
                   "%s.describeTypeExpr interpolates property names into the type text unquoted: a property such as \"a-b\" prints `a-b: string`, which is not valid TypeScript" % cn,
                   mod.loc(c), sample={"class": cn, "key_expr": ktxt})
    rep.rule("C15.15", "`Record<K, V>` and `{[P in K]: V}` decide alike which members of K become declared properties")
    key_classifier_agreement_rule(cx, rep, "C15.15")
    rep.rule("C15.16", "an index signature printed next to declared properties uses index-signature syntax (a mapped member must stand alone)")
    mixed_object_member_rule(cx, rep, fam, mod, "C15.16")
    rep.rule("C15.17", "the mapped spelling describe() prints for an index signature has a lowering that evaluates the member type outside the key variable's scope")
    mapped_member_scope_rule(cx, rep, "C15.17")
    rep.rule("C15.14", "a property name is printed bare only if TypeScript reads it as an identifier")
    bare_key_rule(cx, rep, mod, "C15.14")
    rep.rule("C15.13", "a chain of members joined by | or & is parenthesised where it is built")
    infix_parenthesised_rule(cx, rep, fam, mod, "C15.13")
    rep.rule("C15.5", "describeChildren yields every child validator that describe() descends into")
    describe_children_rule(cx, rep, fam, mod)
    # ---------------------------------------------------------------- C15.6
    rep.rule("C15.6", "every way out of describeTypeExpr reflects every field the description is built from")
    n_ret = 0
    for cn, c in sorted(fam.classes.items()):
        m = c.methods.get("describeTypeExpr")
        if m is None or m["function"].get("body") is None:
            continue
        rets, D = return_field_coverage(mod, cn, m["function"])
        for r, deps in rets:
            n_ret += 1
            missing = sorted(D - deps)
            rep.ob("C15.6", "%s/%s" % (cn, "+".join(sorted(deps)) or "constant"), not missing,
                   "%s.describeTypeExpr has a return that does not depend on %s although the description reads %s elsewhere: for some validators the printed type loses that part (and compiles back to another validator)" % (
                       cn, missing, missing), mod.loc(r), sample={"class": cn, "return_depends_on": sorted(deps), "fields_described": sorted(D)})
    rep.floor("C15.6", "return sites of describeTypeExpr", n_ret, 20)
    # ---------------------------------------------------------------- C15.7
    rep.rule("C15.7", "the reference count that decides between inlining and declaring counts every occurrence")
    # describe() declares a named type (instead of pasting its text) when it is referenced more than once or
    # recursively; the count comes from a walk over describeChildren().  The walk over the children of an ANONYMOUS
    # node must not depend on what was visited before: structurally identical nodes are one shared JS object (the
    # compiler hoists them), so an identity-based `visited` skip makes the second occurrence invisible, the count too
    # small, and a shared / recursive type is inlined (twice, or forever).
    n_walk = 0
    for fname, d in sorted(mod.functions.items()):
        if d.get("body") is None:
            continue
        ps = ts_common.fn_params(d)
        loops = [l for l in walk(d) if l["type"] == "ForOfStatement" and method_call(l["right"]) and method_call(l["right"])[1] == "describeChildren"]
        iters = [c_ for c_ in walk(d) if c_["type"] == "CallExpression" and method_call(c_) and method_call(c_)[1] in ts_common.ITER_METHODS
                 and method_call(method_call(c_)[0]) and method_call(method_call(c_)[0])[1] == "describeChildren"]
        recursive = any(c_["type"] == "CallExpression" and s(c_["callee"]) == fname for c_ in walk(d))
        if not (loops or iters) or not recursive or len(ps) < 2:
            continue
        ctxp = ps[1]
        for site in loops + iters:
            n_walk += 1
            ka = ts_common.known_atoms(d, site)
            dep = sorted(a_ for a_ in ka if re.search(r"(?<![\w.])%s\b" % re.escape(ctxp), a_))
            rep.ob("C15.7", "%s/children-walk" % fname, not dep,
                   "%s walks the children of a node only under %s: whether an occurrence is counted depends on what was visited before, so types reached through a shared (hoisted) node are under-counted and inlined instead of declared" % (fname, dep),
                   mod.loc(site), sample={"fn": fname, "conditions": sorted(ka)})
    rep.floor("C15.7", "children walks of the reference-counting pass", n_walk, 1)
    # ---------------------------------------------------------------- C15.4
    rep.rule("C15.4", "recursion guards and single declaration")
    def marks_around(fn, site):
        """sets S with `S.add(k)` before and `S.delete(k)` after `site` in fn, and S.has(..) known false at the site"""
        ka = ts_common.known_atoms(fn, site)
        not_in = {a_.split(".has(")[0] for a_, v_ in ka.items() if ".has(" in a_ and v_ is False}
        added, deleted = set(), set()
        for n in walk(fn):
            mc = method_call(n) if n["type"] == "CallExpression" else None
            if not mc or not mc[2]:
                continue
            if mc[1] == "add" and n["span"]["end"] <= site["span"]["start"]:
                added.add(s(mc[0]))
            if mc[1] == "delete" and n["span"]["start"] >= site["span"]["end"]:
                deleted.add(s(mc[0]))
        return (added & deleted) & not_in, not_in
    for cn, c in sorted(fam.classes.items()):
        m = c.methods.get("collectDescribeRefs")
        if m:
            fn = m["function"]
            rec = [n for n in walk(fn) if n["type"] == "CallExpression" and s(n["callee"]) == "collectDescribeRefs"]
            # the descent runs only when the name is neither being described nor already described (however the two
            # tests are spelled), and the being-described mark is set before and cleared after the descent
            paired, not_in = marks_around(fn, rec[0]) if len(rec) == 1 else (set(), set())
            ok = len(rec) == 1 and len(paired) >= 1 and len(not_in) >= 2
            rep.ob("C15.4", "%s.collectDescribeRefs" % cn, ok, "%s.collectDescribeRefs must test the active and the visited set before descending and add/delete the active mark around the recursive call (marks paired around the descent: %s; sets known not to contain the name: %s)" % (cn, sorted(paired), sorted(not_in)), mod.loc(fn))
        d = c.methods.get("describe")
        if d and "definitions" in mod.text(d["function"]):
            fn = d["function"]
            assigns = [n for n in walk(fn) if n["type"] == "AssignmentExpression" and ".definitions[" in s(n["left"])]
            ok = len(assigns) >= 1
            ok2 = len(assigns) >= 1
            for a in assigns:
                ka = ts_common.known_atoms(fn, a)
                lhs = s(a["left"])
                absent = any((a_.replace("(", "").replace(")", "") in (lhs + "==null", lhs + "===undefined") and v_ is True) or
                             (a_.replace("(", "").replace(")", "") in (lhs + "!=null", lhs + "!==undefined") and v_ is False) for a_, v_ in ka.items())
                ok = ok and absent
                paired, _ = marks_around(fn, a["right"])
                ok2 = ok2 and len(paired) >= 1
            rep.ob("C15.4", "%s.describe/single-declaration" % cn, ok, "%s.describe must assign ctx.definitions[name] only where it is known to be absent (`== null`)" % cn, mod.loc(fn))
            rep.ob("C15.4", "%s.describe/recursion-guard" % cn, ok2, "%s.describe must describe the target of a shared reference only when the name is not being described, and mark it while it is" % cn, mod.loc(fn))
    # ---------------------------------------------------------------- C15.10
    rep.rule("C15.10", "template chunks are stored cooked and printed escaped")
    template_chunk_rule(cx, rep, "C15.10")
    rep.rule("C15.11", "placeholders and unions of a printed template literal type stand inside ${..}")
    template_placeholder_rule(cx, rep, "C15.11")
    # ---------------------------------------------------------------- C15.12
    rep.rule("C15.12", "describe() keeps no state on the validator instances (declarations are registered while walking)")
    from rules.c16 import instance_state_rule
    _m15 = ts_common.Family(cx).mod
    instance_state_rule(_m15, None, rep, "C15.12", roots=("describe", "describeTypeExpr", "describeChildren"), what="describe()", floor=25,
                        why="the declarations of named types are registered in the describe context as a side effect of walking the node; text replayed from the (shared) instance names the type without registering it, so a later describe() prints a type that is declared nowhere")
    # ---------------------------------------------------------------- C15.8
    rep.rule("C15.8", "describe methods read every constructor argument they read on the reviewed tree")
    ts_common.field_matrix_rule(cx, rep, "C15.8", ['describeTypeExpr', 'describeChildren', 'describe'])
    # ---------------------------------------------------------------- C15.9
    rep.rule("C15.9", "the describe methods: every element of an array-valued constructor argument is accounted for (no fixed-size prefix)")
    ts_common.truncation_rule(cx, rep, "C15.9", ['describeTypeExpr', 'describeChildren', 'describe'])


def _runtype_fields(fam, cn):
    out = set()
    for fname, (owner, ann) in fam.all_fields(cn).items():
        if ann is None:
            continue
        t = tsast.type_str(ann)
        if t in ("Runtype", "Runtype[]", "Array<Runtype>", "Runtype|null", "Runtype|undefined") or t.startswith("Record<string,Runtype"):
            out.add(fname)
    return out


def describe_children_rule(cx, rep, fam, mod):
    YIELDERS = {"map", "flatMap", "filter", "concat", "values", "entries", "slice"}
    n = 0
    for cn, c in sorted(fam.concrete().items()):
        rfs = _runtype_fields(fam, cn)
        if not rfs:
            continue
        _, dte = fam.resolve_method(cn, "describeTypeExpr")
        _, dsc = fam.resolve_method(cn, "describe")
        read = set()
        for m in (dte, dsc):
            if m and m["function"].get("body") is not None and (m is dte or cn in ("OptionalFieldRuntype",) or "describe" in fam.classes[cn].methods):
                read |= {f for f in ts_common.this_fields_read(m["function"], mod, cn) if f in rfs}
        _, dch = fam.resolve_method(cn, "describeChildren")
        if dch is None or not read:
            continue
        n += 1
        fn = dch["function"]
        yielded = set()
        for x in walk(fn):
            if x["type"] == "MemberExpression" and x["object"]["type"] == "ThisExpression" and x["property"].get("value") in rfs:
                # receiver of a method call that does not yield the field's own elements?
                recv_of = None
                for call in walk(fn):
                    if call["type"] == "CallExpression":
                        mc = method_call(call)
                        if mc and unparen(mc[0]) is x:
                            recv_of = mc[1]
                if recv_of is None or recv_of in YIELDERS:
                    yielded.add(x["property"]["value"])
            if x["type"] == "CallExpression" and s(x["callee"]) in ("Object.values", "Object.entries") and x["arguments"] and s(x["arguments"][0]["expression"]).startswith("this."):
                yielded.add(s(x["arguments"][0]["expression"])[5:])
        missing = read - yielded
        rep.ob("C15.5", cn, not missing,
               "%s.describeChildren does not yield this.%s although describe() descends into it: references reached only through it are not counted, so shared named types are inlined instead of declared once and recursive ones are described without a cycle guard" % (cn, sorted(missing)),
               mod.loc(fn), sample={"class": cn, "children_described": sorted(read), "children_yielded": sorted(yielded)})
    rep.floor("C15.5", "classes with child validators", n, 8)


def template_chunk_rule(cx, rep, rid):
    """A template literal type's chunks are STORED as the text they stand for (swc's `cooked`: `\\\\` is one backslash),
    because the regex the validator matches with is built from them; describe() therefore has to turn a chunk back
    into template SOURCE - escape backslash, backtick and `${` - before putting it between backticks.  Storing the raw
    source text instead makes the validator demand the escape characters themselves (repaired by 054d128); storing
    cooked text and printing it verbatim makes the description a different type or a syntax error.  Decided:
      (a) in the frontend the chunk text is read from `TplElement.cooked`; `raw` is read only in a function that also
          reads `cooked` (the fallback for chunks without a cooked form);
      (b) the function that prints a template literal type (it formats between backticks) passes StringConst chunks
          through replacements of the backslash, the backtick and `${`."""
    F = cx.rs
    cooked_fns, raw_fns = set(), {}
    for g, t in F.hir.items():
        f = F.fns.get(g)
        if f is None or "/src/frontend/" not in (f.file or ""):
            continue
        for x in hwalk(t["body"]):
            if x["k"] == "Field" and (x.get("adt") or "").endswith("TplElement"):
                if x["name"] == "cooked":
                    cooked_fns.add(g)
                elif x["name"] == "raw":
                    raw_fns.setdefault(g, x)
    rep.ob(rid, "frontend/reads-cooked", bool(cooked_fns),
           "the frontend never reads the cooked text of a template chunk: chunks keep their escape characters and the validator's regex demands them", None,
           sample={"functions_reading_cooked": sorted(cooked_fns)})
    for g, x in sorted(raw_fns.items()):
        rep.ob(rid, "frontend/raw-only-as-fallback/%s" % g.rsplit("::", 1)[-1], g in cooked_fns,
               "%s takes the RAW source text of a template chunk (escape sequences unresolved) without consulting its cooked text: `C:\\\\\\\\${string}` then only matches values with two backslashes" % g,
               "%s:%s" % (F.fns[g].file, x["line"]), sample={"fn": g})
    n = 0
    for g, t in sorted(F.hir.items()):
        f = F.fns.get(g)
        if f is None or not (f.file or "").endswith("ast/runtype.rs") or "String" not in (f.output or ""):
            continue
        lits = {x.get("v") for x in hwalk(t["body"]) if x["k"] == "Lit" and x.get("lit") in ("str", "char")}
        arms = [a for m in hwalk(t["body"]) if m["k"] == "Match" for a in m["arms"]
                if (a["pat"].get("def") or "").endswith("TplLitTypeItem::StringConst") or any((p.get("def") or "").endswith("TplLitTypeItem::StringConst") for p in hwalk(a["pat"]))]
        prints_template = any("${string}" in (v or "") for v in lits)
        if not prints_template or not arms:
            continue
        for a in arms:
            # only the arm that handles a chunk inside a longer template (the single-constant form prints a string literal)
            if any(p["k"] == "P.Slice" for p in hwalk(a["pat"])):
                continue
            n += 1
            reps = set()
            for x in hwalk(a["body"]):
                if x["k"] == "MethodCall" and x["method"] == "replace" and x["args"] and x["args"][0]["k"] == "Lit":
                    reps.add(x["args"][0].get("v"))
                if x["k"] in ("Call", "MethodCall"):
                    cal = x.get("callee") if x["k"] == "Call" else (x.get("resolved") or x.get("callee"))
                    tg = F._callee_gid(f.crate, cal) if cal else None
                    if tg in F.hir and tg != g:
                        for y in hwalk(F.hir[tg]["body"]):
                            if y["k"] == "MethodCall" and y["method"] == "replace" and y["args"] and y["args"][0]["k"] == "Lit":
                                reps.add(y["args"][0].get("v"))
            need = {"\\", "`", "${"}
            missing = sorted(need - reps)
            rep.ob(rid, "%s/chunk-escaped" % g.rsplit("::", 1)[-1], not missing,
                   "%s prints a template chunk between backticks without escaping %s: a chunk that contains one of them is printed as different template source (another type, an interpolation, or a syntax error), so the description does not compile back to the same validator" % (g, missing),
                   "%s:%s" % (f.file, a["line"]), sample={"fn": g, "escapes": sorted(reps)})
    rep.floor(rid, "chunk arms of the template printer", n, 1)


def _fmt_pieces(hexs):
    """pieces of a compiled format template (the byte string handed to fmt::Arguments::new): literal runs and None for
    a placeholder; None when the encoding is not the simple one"""
    try:
        b = bytes.fromhex(hexs)
    except ValueError:
        return None
    out, i = [], 0
    while i < len(b):
        c = b[i]
        if c == 0:
            return out
        if c == 0xC0:
            out.append(None)
            i += 1
        elif c < 0x80:
            out.append(b[i + 1:i + 1 + c].decode("utf-8", "replace"))
            i += 1 + c
        else:
            return None
    return out


def _template_item_enum(F):
    """the enum of template items, by role: an enum of the IR module with a variant whose payload is a collection of
    the enum itself (the union of alternatives) and a fieldless variant family (the placeholders)"""
    cands = []
    for gid, a in sorted(F.adts.items()):
        if not gid.startswith("ast::") or len(a["variants"]) < 3:
            continue
        for v in a["variants"]:
            for fl in v["fields"]:
                if re.search(r"(BTreeSet|Vec|HashSet)<%s>" % re.escape(gid), fl["ty"]):
                    cands.append((gid, v["name"]))
    # .. and the one a function prints as template source: an arm for one of its variants yields "${..}"
    for gid, vn in cands:
        for g, t in F.hir.items():
            for m in hwalk(t["body"]):
                if m["k"] == "Match" and any((a["pat"].get("def") or "").startswith(gid + "::") and any(
                        x["k"] == "Lit" and x.get("lit") == "str" and (x.get("v") or "").startswith("${") for x in hwalk(a["body"])) for a in m["arms"]):
                    return gid, vn
    return None, None


def template_placeholder_rule(cx, rep, rid):
    """Inside the backticks of a printed template literal type everything that is not chunk text must stand in a
    `${..}` substitution: `${string}`, `${number}`, and a union of alternatives as `${"A" | "B"}`.  Printed without
    the `${` `}` the alternatives are TEXT: `("A" | "B")` between backticks is the one string `("A" | "B")`, so the
    description compiles to a different validator.  Decided on the function of the IR module that prints template
    items (it yields "${string}"): every arm for an item that is not chunk text yields text that begins with `${` and
    ends with `}` (string literals and the literal parts of format templates)."""
    F = cx.rs
    enum, rec_variant = _template_item_enum(F)
    if enum is None:
        rep.anchor_missing(rid, "the template item enum (a variant holding a collection of the enum itself)")
        return
    n = 0
    for g, t in sorted(F.hir.items()):
        f = F.fns.get(g)
        if f is None or f.kind == "Closure" or not (f.file or "").endswith("ast/runtype.rs") or "String" not in (f.output or ""):
            continue
        for m in hwalk(t["body"]):
            if m["k"] != "Match":
                continue
            arms = [(a, (a["pat"].get("def") or "")) for a in m["arms"]]
            if not any(d.startswith(enum + "::") for _, d in arms):
                continue
            if not any(x["k"] == "Lit" and x.get("lit") == "str" and (x.get("v") or "").startswith("${") for a, _ in arms for x in hwalk(a["body"])):
                continue          # not the printer of template source (e.g. the regex builder)
            for a, d in arms:
                if not d.startswith(enum + "::"):
                    continue
                vname = d.rsplit("::", 1)[-1]
                payload_is_text = any("String" in (p.get("ty") or "") or "str" in (p.get("ty") or "") for p in hwalk(a["pat"]) if p["k"] == "P.Binding")
                if payload_is_text:
                    continue      # chunk text: C15.10
                pieces = []
                for x in hwalk(a["body"]):
                    if x["k"] == "Lit" and x.get("lit") == "str":
                        pieces.append(x.get("v") or "")
                    elif x["k"] == "Lit" and x.get("lit") == "bytes":
                        ps = _fmt_pieces(x.get("v") or "")
                        if ps:
                            pieces += [p for p in ps if p]
                # the text the arm yields: its last string-producing expression - approximated by the literal pieces
                # that are not separators of a join
                joins = {x["args"][0].get("v") for x in hwalk(a["body"]) if x["k"] == "MethodCall" and x["method"] == "join" and x["args"] and x["args"][0]["k"] == "Lit"}
                outer = [p for p in pieces if p not in joins]
                n += 1
                ok = bool(outer) and outer[0].startswith("${") and outer[-1].endswith("}")
                rep.ob(rid, "%s-in-substitution" % vname, ok,
                       "%s prints a template item of kind %s as %s between the backticks, not inside a `${..}` substitution: the printed template literal type contains it as TEXT (`%s` is one string), so describe() / the printed type compiles to a different validator" % (g, vname, " .. ".join(repr(p) for p in outer) or "nothing", "(\"A\" | \"B\")"),
                       "%s:%s" % (f.file, a.get("line", m.get("line"))), sample={"fn": g, "variant": vname, "literal_parts": outer})
    rep.floor(rid, "placeholder arms of the template printer", n, 3)


def infix_parenthesised_rule(cx, rep, fam, mod, rid):
    """`|` and `&` are infix operators with different precedence, and a printed type is pasted wherever the printer
    of the surrounding type puts it - also in place of a REFERENCE that is printed as its target's text.  The only
    place that knows a text is an infix chain is the place that builds it: every describeTypeExpr that joins member
    texts with ` | ` or ` & ` returns the joined text wrapped in parentheses (deciding later by the member's class
    misses references, optional wrappers ..: `A & U` with `type U = X | Y` referenced once printed `A & X | Y`)."""
    n = 0
    for cn, c in sorted(fam.classes.items()):
        m = c.methods.get("describeTypeExpr")
        if m is None or m["function"].get("body") is None:
            continue
        fn = tsast.flatten_fn(mod, cn, m["function"])
        al = {}
        for x in walk(fn):
            if x["type"] == "VariableDeclarator" and x["id"].get("type") == "Identifier" and x.get("init") is not None:
                al.setdefault(x["id"]["value"], x["init"])

        def is_infix_join(e, d=0):
            e = unparen(e)
            if e.get("type") == "Identifier" and e["value"] in al and d < 4:
                return is_infix_join(al[e["value"]], d + 1)
            mc = method_call(e) if e.get("type") == "CallExpression" else None
            if mc and mc[1] == "join" and mc[2] and unparen(mc[2][0]).get("type") == "StringLiteral":
                v = unparen(mc[2][0])["value"].strip()
                return v if v in ("|", "&") else None
            return None
        for r in walk(fn):
            if r["type"] != "ReturnStatement" or r.get("argument") is None:
                continue
            a = unparen(r["argument"])
            while a.get("type") == "Identifier" and a["value"] in al and is_infix_join(a) is None:
                a = unparen(al[a["value"]])
            op = is_infix_join(a)
            wrapped = None
            if op is not None:
                wrapped = False           # the bare chain is returned
            elif a.get("type") == "TemplateLiteral":
                exprs = a.get("expressions", [])
                ops = [is_infix_join(e_) for e_ in exprs]
                if any(ops):
                    op = next(o for o in ops if o)
                    q = [q_.get("raw") or q_.get("cooked") or "" for q_ in a.get("quasis", [])]
                    wrapped = len(exprs) == 1 and q and q[0].strip() == "(" and q[-1].strip() == ")"
            elif a.get("type") == "BinaryExpression" and a["operator"] == "+":
                parts = []
                def flat(e_):
                    e_ = unparen(e_)
                    if e_.get("type") == "BinaryExpression" and e_["operator"] == "+":
                        flat(e_["left"]); flat(e_["right"])
                    else:
                        parts.append(e_)
                flat(a)
                ops = [is_infix_join(e_) for e_ in parts]
                if any(ops):
                    op = next(o for o in ops if o)
                    wrapped = len(parts) == 3 and parts[0].get("type") == "StringLiteral" and parts[0]["value"].strip() == "(" and parts[2].get("type") == "StringLiteral" and parts[2]["value"].strip() == ")"
            if wrapped is None:
                continue
            n += 1
            rep.ob(rid, "%s/%s-chain-parenthesised" % (cn, "union" if op == "|" else "intersection"), bool(wrapped),
                   "%s.describeTypeExpr returns its members joined with ` %s ` without parentheses around the whole chain: pasted into a surrounding type (as a member of an intersection, or in place of a reference that is printed as its target) the operators regroup - `A & X | Y` is `(A & X) | Y` - and the description compiles to a different validator" % (cn, op),
                   mod.loc(r), sample={"class": cn, "operator": op})
    rep.floor(rid, "describeTypeExpr returns that join members with an infix operator", n, 4)


# ---------------------------------------------------------------------------------------------------- C15.14
_START_OK = {"A-Z", "a-z", "_", "$", "\\p{L}", "\\p{Lu}", "\\p{Ll}", "\\p{Lt}", "\\p{Lm}", "\\p{Lo}", "\\p{Nl}", "\\p{ID_Start}", "\\p{IDS}", "\\p{XID_Start}", "\\p{Letter}", "\\$"}
_CONT_OK = _START_OK | {"0-9", "\\d", "\\w", "\\p{Mn}", "\\p{Mc}", "\\p{Nd}", "\\p{Pc}", "\\p{ID_Continue}", "\\p{IDC}", "\\p{XID_Continue}", "\\u200c", "\\u200d", "\\u200C", "\\u200D"}


def _class_items(body):
    """items of a character class body: ranges `a-z`, escapes `\\p{..}` / `\\d` / `\\uXXXX`, single characters"""
    items, i = [], 0
    while i < len(body):
        m = re.match(r"\\[pP]\{[^}]*\}|\\u\{[0-9a-fA-F]+\}|\\u[0-9a-fA-F]{4}|\\x[0-9a-fA-F]{2}|\\.", body[i:])
        tok = m.group(0) if m else body[i]
        j = i + len(tok)
        if j + 1 < len(body) and body[j] == "-" and not tok.startswith("\\p"):
            m2 = re.match(r"\\u\{[0-9a-fA-F]+\}|\\u[0-9a-fA-F]{4}|\\x[0-9a-fA-F]{2}|\\.", body[j + 1:])
            tok2 = m2.group(0) if m2 else body[j + 1]
            items.append(tok + "-" + tok2)
            i = j + 1 + len(tok2)
        else:
            items.append(tok)
            i = j
    return items


def bare_key_rule(cx, rep, mod, rid):
    """describe() prints an object member as `key: T` or `"key": T`.  The bare form is TypeScript only if the lexer
    reads the key as ONE identifier: ID_Start ID_Continue*, i.e. letters (general category L, Nl), `_`, `$`, then also
    marks (Mn, Mc), decimal digits (Nd) and connector punctuation (Pc).  Superscripts, fractions, circled digits
    (category No, part of \\p{N}) or any punctuation are not identifier characters: `{ CO₂: number }` does not lex.
    Decided on the regular expression that chooses between the bare and the quoted form (the function that returns
    either its argument or JSON.stringify of it): it is anchored `^[start][continue]*$` and every item of the two
    character classes is within the identifier categories."""
    n = 0
    consts = {k: unparen(v[1]) for k, v in mod.vars.items() if v[1] is not None}
    fns = list(mod.functions.items()) + [(vn, init) for vn, (_k, init, _d) in mod.vars.items() if init is not None and init.get("type") in ("ArrowFunctionExpression", "FunctionExpression")]
    fns += [("%s.%s" % (cn, mn), m["function"]) for cn, c in mod.classes.items() for mn, m in c.methods.items()]
    for fname, fn in fns:
        if fn.get("body") is None:
            continue
        ps = [p for p in ts_common.fn_params(fn) if p]
        if not ps:
            continue
        txt = "".join(mod.text(fn["body"]).split()) if hasattr(mod, "text") else ""
        for pn in ps:
            if ("JSON.stringify(%s)" % pn) not in txt:
                continue
            tests = [x for x in walk(fn) if x["type"] == "CallExpression" and method_call(x) and method_call(x)[1] == "test" and method_call(x)[2] and s(method_call(x)[2][0]) == pn]
            # the bare form must also be returned
            bare = any(r_["type"] == "ReturnStatement" and r_.get("argument") is not None and s(unparen(r_["argument"])) == pn for r_ in walk(fn)) or \
                any(c_["type"] == "ConditionalExpression" and pn in (s(unparen(c_["consequent"])), s(unparen(c_["alternate"]))) for c_ in walk(fn))
            if not tests or not bare:
                continue
            for t in tests:
                rx = unparen(method_call(t)[0])
                if rx.get("type") == "Identifier" and rx["value"] in consts:
                    rx = consts[rx["value"]]
                n += 1
                if rx.get("type") != "RegExpLiteral":
                    rep.ob(rid, "%s/identifier-regex" % fname, False, "%s chooses between a bare and a quoted property name with `%s`, which is not a regular expression literal the rule can read" % (fname, s(rx)[:60]), mod.loc(t))
                    continue
                pat, flags = rx.get("pattern", ""), rx.get("flags", "")
                m = re.match(r"^\^\[((?:\\.|[^\]\\])*)\](?:\[((?:\\.|[^\]\\])*)\]\*)?\$$", pat)
                bad = []
                if not m:
                    bad.append("the pattern /%s/ is not of the form ^[start][continue]*$" % pat)
                else:
                    for it in _class_items(m.group(1)):
                        if it not in _START_OK:
                            bad.append("`%s` may start a bare key" % it)
                    for it in _class_items(m.group(2) or ""):
                        if it not in _CONT_OK:
                            bad.append("`%s` may continue a bare key" % it)
                    if "i" in flags:
                        pass
                rep.ob(rid, "%s/identifier-regex" % fname, not bad,
                       "%s prints a property name without quotes when it matches /%s/%s, but %s: characters outside ID_Start / ID_Continue (category No - superscripts, fractions, circled digits -, punctuation, ..) make the printed member `key: T` something TypeScript does not lex, so compiling the description back fails" % (
                           fname, pat, flags, "; ".join(bad)),
                       mod.loc(t), sample={"fn": fname, "pattern": pat, "flags": flags})
    rep.floor(rid, "bare-or-quoted property name tests", n, 1)


# ---------------------------------------------------------------------------------------------------- C15.17
def mapped_member_scope_rule(cx, rep, rid):
    """describe() prints EVERY index signature in the mapped spelling with one fixed key variable: `Record<string, V>`
    comes out as `{ [K in string]: V }`.  V is printed with the names of the user's types in it - a type called `K`
    included.  The text means the original type only if the compiler evaluates V of such a member OUTSIDE the scope of
    the key variable (as it does for `Record<string, V>` and `{[k: string]: V}`, which have no type-level binder).
    Decided (a necessary condition) in the frontend functions that take the mapped-type node: among the evaluations of
    the member type (`type_ann`) there is one that does not sit between a push and a pop of the type-parameter scope;
    if every evaluation runs under the binder, `{ [K in string]: K }` - what describe() prints for Record<string, K>
    with a recursive or shared user type K - compiles to Record<string, string>."""
    F = cx.rs
    n_fn = 0
    for g, t in sorted(F.hir.items()):
        f = F.fns.get(g)
        if f is None or "/src/frontend" not in (f.file or "") or f.kind == "Closure" or not any("TsMappedType" in (x or "") for x in (f.inputs or [])):
            continue
        body = t["body"]
        lets = {}
        for st in hwalk(body):
            if st["k"] == "LetStmt" and st.get("init") is not None:
                for b in hwalk(st["pat"]):
                    if b["k"] == "P.Binding":
                        lets[b.get("lid")] = st["init"]
            if st["k"] == "Match":
                for a in st["arms"]:
                    for b in hwalk(a["pat"]):
                        if b["k"] == "P.Binding":
                            lets.setdefault(b.get("lid"), st["scrut"])

        def from_type_ann(e, depth=0):
            for x in hwalk(e):
                if x["k"] == "Field" and x.get("name") == "type_ann":
                    return True
                # the annotation fetched by a helper (b63: `self.mapped_type_value_annotation(k, &anchor)?`): a local
                # function that does not itself convert (no Runtype result) and reads the field
                if x["k"] in ("Call", "MethodCall") and depth < 4:
                    tg_ = F._callee_gid(f.crate, (x.get("callee") if x["k"] == "Call" else (x.get("resolved") or x.get("callee"))) or "")
                    tf_ = F.fns.get(tg_)
                    if tf_ is not None and tg_ in F.hir and "Runtype" not in (tf_.output or "") and any(y["k"] == "Field" and y.get("name") == "type_ann" for y in hwalk(F.hir[tg_]["body"])):
                        return True
                if x["k"] == "Path" and x.get("res") == "local" and x.get("lid") in lets and depth < 4 and from_type_ann(lets[x["lid"]], depth + 1):
                    return True
            return False
        evals = []
        for c in hwalk(body):
            if c["k"] in ("Call", "MethodCall"):
                tg = F._callee_gid(f.crate, (c.get("callee") if c["k"] == "Call" else (c.get("resolved") or c.get("callee"))) or "")
                tf = F.fns.get(tg)
                if tf is not None and "/src/frontend" in (tf.file or "") and "Runtype" in (tf.output or "") and any(from_type_ann(a_) for a_ in (c.get("args") or [])):
                    evals.append(c)
        if not evals:
            continue
        n_fn += 1

        def is_scope_push(x):
            return x["k"] == "MethodCall" and x.get("method") == "push" and x["recv"]["k"] == "Field" and re.search(r"Vec<\((std::string::)?String, (\w+::)*Runtype\)>", x["recv"].get("ty") or "")
        unbound = []
        for e in evals:
            bound = False
            for blk in hwalk(body):
                if blk["k"] != "Block":
                    continue
                stmts = blk.get("stmts") or []
                idx = next((i for i, st in enumerate(stmts) if any(x is e for x in hwalk(st))), None)
                if idx is None and not (blk.get("expr") is not None and any(x is e for x in hwalk(blk["expr"]))):
                    continue
                idx = len(stmts) if idx is None else idx
                for st in stmts[:idx]:
                    # an unconditional push statement of this block
                    inner = st.get("e") if st["k"] in ("Semi", "ExprStmt") else None
                    if inner is not None and is_scope_push(inner):
                        bound = True
            if not bound:
                unbound.append(e)
        rep.ob(rid, "%s/member-type-evaluated-unbound" % f.name, bool(unbound),
               "%s evaluates the member type of a mapped type only between a push and a pop of the type-parameter scope (%d evaluation(s)): `{ [K in string]: K }`, the text describe() prints for Record<string, K> with a user type K that is printed as a named alias, then compiles to Record<string, string> - the description no longer compiles back to the type" % (g, len(evals)),
               "%s:%s" % (f.file, evals[0]["line"]), sample={"fn": f.name, "evaluations": len(evals), "outside_the_binder": len(unbound)})
    rep.floor(rid, "frontend functions that lower a mapped type", n_fn, 1)


# ---------------------------------------------------------------------------------------------------- C15.15
def key_classifier_agreement_rule(cx, rep, rid):
    """describe() prints an index signature as `[K in <key type>]: V`; compiling that text goes through the lowering of
    MAPPED types, while the validator it came from was built by the lowering of `Record<..>` (or of an index
    signature).  Both lowerings split the members of the key type into `declared property` and `index signature`;
    the text round-trips only if they split alike.  Decided for the frontend functions that classify key members with
    a function `&Runtype -> Option<String>` and build an index signature from the rest: the set of type variants for
    which the classifier yields a property name (helpers followed) is the same in all of them."""
    F = cx.rs
    from rules.c02 import _variant_defs
    import importlib
    c02 = importlib.import_module("rules.c02")
    users = {}
    for g, t in F.hir.items():
        f = F.fns.get(g)
        if f is None or "/src/frontend" not in (f.file or "") or f.kind == "Closure":
            continue
        def classifiers(tree, depth):
            out = set()
            for n in hwalk(tree["body"]):
                if n["k"] in ("Call", "MethodCall"):
                    cal = n.get("callee") if n["k"] == "Call" else (n.get("resolved") or n.get("callee"))
                    tg = F._callee_gid(f.crate, cal or "")
                    tf = F.fns.get(tg)
                    if tf is None:
                        continue
                    if (tf.output or "") == "std::option::Option<std::string::String>" and len(tf.inputs or []) == 1 and "Runtype" in tf.inputs[0]:
                        out.add(tg)
                    elif depth > 0 and tg in F.hir and "/src/frontend" in (tf.file or "") and tg != g and "String" in (tf.output or "") and "Runtype" in (tf.output or ""):
                        # a shared helper that does the split (`partition_keys(members) -> (Vec<String>, Vec<Runtype>)`)
                        out |= classifiers(F.hir[tg], depth - 1)
            return out
        cs = classifiers(t, 1)
        builds = any((n.get("def") or "").endswith("IndexedProperty") for n in hwalk(t["body"]) if n["k"] == "Struct") or \
            any(n["k"] == "Call" and (n.get("callee") or "").endswith("Runtype::record") for n in hwalk(t["body"]))
        if cs and builds:
            users[g] = cs
    rep.floor(rid, "lowerings that split a key type into declared properties and an index signature", len(users), 2)
    sig = {}
    for g, cs in users.items():
        vs = set()
        for c in cs:
            vs |= _some_variants(F, c)
        sig[g] = vs
    base = None
    for g in sorted(sig):
        if base is None:
            base = (g, sig[g])
            continue
        diff = sorted(x.split("::", 2)[-1] for x in (sig[g] ^ base[1]))
        rep.ob(rid, "%s~%s" % (base[0].rsplit("::", 1)[-1], g.rsplit("::", 1)[-1]), not diff,
               "%s and %s both split the members of a key type into declared properties and an index signature, but they disagree on %s: a validator built by one lowering describes itself as `{ [K in ..]: V }`, and that text compiled by the other lowering has declared properties where the original had an index signature (or the reverse) - different values, different hash256" % (base[0], g, ", ".join(diff)),
               F.fns[g].loc(), sample={"a": base[0], "b": g, "property_name_for": sorted(x.split("::", 2)[-1] for x in sig[g])})


def _some_variants(F, g, depth=2, seen=None):
    """enum variants matched on a path of g (a function &Runtype -> Option<String>) that yields Some"""
    seen = seen or {g}
    t = F.hir.get(g)
    out = set()
    if t is None:
        return out
    crate = F.fns[g].crate if g in F.fns else None
    def variants(pat):
        return {x["def"] for x in hwalk(pat) if x["k"] in ("P.TupleStruct", "P.Struct", "P.Expr") and "Ctor(Variant" in (x.get("defkind") or "") and not (x.get("def") or "").startswith("std::")}
    def yields_some(body):
        for x in hwalk(body):
            if x["k"] == "Call" and (x.get("callee") or "").endswith("::Some"):
                return True
            if x["k"] in ("Call", "MethodCall"):
                cal = x.get("callee") if x["k"] == "Call" else (x.get("resolved") or x.get("callee"))
                tg = F._callee_gid(crate, cal or "")
                if tg in F.hir and (F.fns.get(tg) is not None and (F.fns[tg].output or "").startswith("std::option::Option<")):
                    return True
                if x["k"] == "MethodCall" and x.get("method") in ("map", "and_then", "filter", "cloned"):
                    return True
        return False
    def visit(n, ctxv):
        if n["k"] == "Match":
            for a in n["arms"]:
                vs = variants(a["pat"])
                if yields_some(a["body"]):
                    out.update(ctxv | vs)
                for c in _kids(a["body"]):
                    visit(c, ctxv | vs)
                visit(a["body"], ctxv | vs) if a["body"].get("k") == "Match" else None
            return
        if n["k"] == "If" and n["cond"].get("k") == "Let":
            vs = variants(n["cond"]["pat"])
            if yields_some(n["then"]):
                out.update(ctxv | vs)
            visit(n["then"], ctxv | vs)
            if n.get("else"):
                visit(n["else"], ctxv)
            return
        for c in _kids(n):
            visit(c, ctxv)
    visit(t["body"], set())
    if depth > 0:
        for x in hwalk(t["body"]):
            if x["k"] in ("Call", "MethodCall"):
                cal = x.get("callee") if x["k"] == "Call" else (x.get("resolved") or x.get("callee"))
                tg = F._callee_gid(crate, cal or "")
                if tg in F.hir and tg not in seen and F.fns.get(tg) is not None and (F.fns[tg].output or "") == "std::option::Option<std::string::String>":
                    seen.add(tg)
                    out |= _some_variants(F, tg, depth - 1, seen)
    return out


def _kids(n):
    from facts import children
    return list(children(n))


# ---------------------------------------------------------------------------------------------------- C15.16
def mixed_object_member_rule(cx, rep, fam, mod, rid):
    """`{ [K in X]: T }` is a MAPPED type: TypeScript allows nothing else between the braces.  An object type with
    declared properties and an index signature has to be written `{ a: string, [k: X]: T }` (or as an intersection).
    Decided for the class that prints declared properties and index members into one pair of braces: where it prints
    an index member as a mapped member (a template whose text starts with `[` and contains ` in `), it is known at
    that point that no declared property is printed."""
    n = 0
    for cname in sorted(fam.concrete()):
        ixf = ts_common.index_signature_field(fam, cname)
        _, m = fam.resolve_method(cname, "describeTypeExpr")
        if not ixf or not m or m["function"].get("body") is None:
            continue
        fn = m["function"]
        mapped_sites = []
        for x in tsast.walk_inl(mod, cname, fn, depth=2):
            if x["type"] == "TemplateLiteral":
                qs = [q.get("raw", "") or (q.get("cooked") or "") for q in x.get("quasis", [])]
                if qs and qs[0].lstrip().startswith("[") and any(" in " in q for q in qs):
                    mapped_sites.append(x)
        if not mapped_sites:
            continue
        n += 1
        prints_props = any(x["type"] == "CallExpression" and "this.properties" in s(x) and x is not None for x in walk(fn)) or "this.properties" in s(fn["body"]) if False else any(
            y["type"] == "MemberExpression" and s(y).startswith("this.properties") for y in walk(fn))
        # is `no declared properties` established where the index members are produced?
        calls = [x for x in walk(fn) if x["type"] == "CallExpression" and ("this.%s" % ixf) in s(x)]
        guarded = False
        for c_ in calls:
            for a_, v_ in ts_common.known_atoms(fn, c_).items():
                a2 = a_.replace(" ", "")
                if ("properties" in a2 or "sortedKeys" in a2 or "props" in a2) and "length" in a2 and ((a2.endswith("===0") or a2.endswith("==0")) and v_ is True or (a2.endswith(">0") or a2.endswith("!==0")) and v_ is False):
                    guarded = True
        rep.ob(rid, "%s/mapped-member-next-to-properties" % cname, (not prints_props) or guarded,
               "%s.describeTypeExpr prints its index signatures as mapped members `[K in ..]: T` into the same braces as its declared properties: `{ a: string, [K in string]: string }` is not TypeScript (a mapped type admits no other member), so the description of an object with declared properties and an index signature does not compile back" % cname,
               mod.loc(mapped_sites[0]), sample={"class": cname})
    rep.floor(rid, "classes printing index members as mapped members", n, 1)
