"""C15 — describe() prints TypeScript that compiles back to the same validator.

C15.1  every identifier-like token a describeTypeExpr can print is a keyword or builtin name the frontend resolves
C15.2  composite forms use the builtin spellings the frontend lowers to the same kind (Array<>, Map<,>, Set<>, ...Array<>)
C15.3  property names interpolated into type text are quoted unless they are identifiers
C15.4  recursion guards and single declaration of named types
"""
import re
import tsast
from tsast import walk, s, unparen, method_call
from facts import walk as hwalk
from rules import ts_common

LEVEL = "other"
SYNTAX_WORDS = {"K", "in", "true", "false", "type", "readonly"}


def frontend_vocabulary(F):
    kw = set()
    g = [x for x in F.hir if x.endswith("extract_ts_keyword_type")]
    for gid in g:
        for n in hwalk(F.hir[gid]["body"]):
            if n["k"] == "Match":
                for a in n["arms"]:
                    pats = a["pat"]["pats"] if a["pat"]["k"] == "P.Or" else [a["pat"]]
                    is_err = any(x["k"] == "MethodCall" and x["method"] in ("error", "box_error") for x in hwalk(a["body"]))
                    for p in pats:
                        m = re.search(r"TsKeywordTypeKind::Ts(\w+)Keyword$", p.get("def") or "")
                        if m and not is_err:
                            kw.add(m.group(1).lower())
    bi = set()
    g = [x for x in F.hir if x.endswith("maybe_generate_ts_builtin")]
    for gid in g:
        for n in hwalk(F.hir[gid]["body"]):
            if n["k"] == "Match":
                for a in n["arms"]:
                    pats = a["pat"]["pats"] if a["pat"]["k"] == "P.Or" else [a["pat"]]
                    for p in pats:
                        if p.get("lit"):
                            bi.add(p["lit"])
    return kw, bi


def string_constants(fn):
    out = []
    for n in walk(fn):
        if n["type"] == "StringLiteral":
            out.append((n["value"], n))
        elif n["type"] == "TemplateLiteral":
            for q in n["quasis"]:
                out.append((q.get("cooked") or q.get("raw") or "", n))
    return out


def run(cx, rep):
    F = cx.rs
    fam = ts_common.Family(cx)
    mod = fam.mod
    rep.explanation = (
        "Writer/reader agreement between describe() (TypeScript runtime) and the compiler frontend (Rust): the vocabulary "
        "the frontend resolves is read from the typed HIR (keyword arms of extract_ts_keyword_type that do not raise a "
        "diagnostic; literal patterns of maybe_generate_ts_builtin); every identifier-like token in the string constants "
        "and template quasis of every describeTypeExpr / describe helper must belong to it (fields with declared literal "
        "unions are checked through their domain); composite classes must use the builtin spellings; property keys must "
        "pass through a quoting step; recursion guards and the single-assignment of definitions are checked as shapes. "
        "Decides that the printed text is in the language the frontend reads; equality of the second-generation "
        "validator is not decided.")
    rep.trusted = ["rustc typed HIR of the frontend", "swc AST of codegen-v2.ts"]
    kw, bi = frontend_vocabulary(F)
    rep.rule("C15.1", "printed type names are names the frontend knows")
    rep.floor("C15.1", "frontend keywords", len(kw), 10)
    rep.floor("C15.1", "frontend builtins", len(bi), 25)
    vocab = kw | bi | SYNTAX_WORDS
    n_tok = 0
    helper_fns = [(k, v) for k, v in mod.functions.items() if k.startswith("describe") or k in ("renderTypeAlias",)]
    targets = [("%s.describeTypeExpr" % cn, c.methods["describeTypeExpr"]["function"], cn) for cn, c in sorted(fam.classes.items())
               if "describeTypeExpr" in c.methods and c.methods["describeTypeExpr"]["function"].get("body") is not None]
    targets += [(k, v, None) for k, v in helper_fns]
    for name, fn, cn in targets:
        for val, node in string_constants(fn):
            if any(t["type"] == "ThrowStatement" and any(x is node for x in walk(t)) for t in walk(fn)):
                continue
            for tok in re.findall(r"[A-Za-z_][A-Za-z0-9_]*", val):
                n_tok += 1
                rep.ob("C15.1", "%s/%s" % (name, tok), tok in vocab,
                       "%s prints `%s`, which is neither a TypeScript keyword the frontend lowers nor one of its builtin type names: compiling the description back fails or means another type" % (name, tok),
                       mod.loc(node), sample={"printer": name, "token": tok})
        # values returned from fields with a declared literal-union domain
        if cn:
            for n in walk(fn):
                if n["type"] == "ReturnStatement" and n.get("argument") is not None and s(n["argument"]).startswith("this.") and "." not in s(n["argument"])[5:]:
                    fld = s(n["argument"])[5:]
                    ann = fam.all_fields(cn).get(fld, (None, None))[1]
                    dom = tsast.literal_union(ann) if ann is not None else None
                    if dom is None and ann is not None and ann.get("type") == "TsTypeReference":
                        al = mod.type_aliases.get(tsast.type_str(ann))
                        dom = tsast.literal_union(al["typeAnnotation"]) if al else None
                    if dom is None:
                        # constructor parameter domain
                        c = fam.classes[cn]
                        for pn, pann in c.ctor_params():
                            if tsast.s(c.ctor_assignments().get(fld, {"type": "Identifier", "value": ""})) == pn:
                                dom = tsast.literal_union(pann)
                    if dom is not None:
                        rep.ob("C15.1", "%s/domain:%s" % (name, fld), set(dom) <= vocab, "%s prints this.%s whose domain %s is not within the frontend's vocabulary" % (name, fld, sorted(dom)), mod.loc(n),
                               sample={"printer": name, "field": fld, "domain": sorted(dom)})
    rep.floor("C15.1", "tokens checked", n_tok, 15)
    # ---------------------------------------------------------------- C15.2
    rep.rule("C15.2", "composite forms use builtin spellings")
    want = {"ArrayRuntype": ["Array<"], "MapRuntype": ["Map<"], "SetRuntype": ["Set<"], "TupleRuntype": ["...Array<"]}
    for cn, needles in want.items():
        c = fam.classes.get(cn)
        if c is None or "describeTypeExpr" not in c.methods:
            rep.anchor_missing("C15.2", cn + ".describeTypeExpr")
            continue
        consts = "".join(v for v, _ in string_constants(c.methods["describeTypeExpr"]["function"]))
        for nd in needles:
            rep.ob("C15.2", "%s/%s" % (cn, nd), nd in consts, "%s.describeTypeExpr no longer prints `%s...>`: the frontend lowers only that spelling to the same kind" % (cn, nd),
                   mod.loc(c.methods["describeTypeExpr"]), sample={"class": cn, "form": nd})
    # ---------------------------------------------------------------- C15.3
    rep.rule("C15.3", "property names are quoted unless they are identifiers")
    objs = [cn for cn in fam.classes if "properties" in fam.all_fields(cn) and "describeTypeExpr" in fam.classes[cn].methods]
    for cn in objs:
        fn = fam.classes[cn].methods["describeTypeExpr"]["function"]
        calls = [n for n in walk(fn) if n["type"] == "CallExpression" and s(n["callee"]) == "describeObjectMember"]
        rep.floor("C15.3", "object member printers", len(calls), 1)
        for c in calls:
            key = c["arguments"][1]["expression"]
            ktxt = s(key)
            quoted = "JSON.stringify" in ktxt or re.search(r"quote|printKey|propertyKey|safeKey", ktxt, re.I) is not None
            if not quoted:
                # or the helper itself quotes its key parameter
                h = mod.functions.get("describeObjectMember")
                if h:
                    ps = [p["pat"]["value"] for p in h["params"]]
                    body = "".join(mod.text(h["body"]).split())
                    quoted = ("JSON.stringify(%s)" % ps[1]) in body
            rep.ob("C15.3", "%s/quoted-keys" % cn, quoted,
                   "%s.describeTypeExpr interpolates property names into the type text unquoted: a property such as \"a-b\" prints `a-b: string`, which is not valid TypeScript" % cn,
                   mod.loc(c), sample={"class": cn, "key_expr": ktxt})
    rep.rule("C15.5", "describeChildren yields every child validator that describe() descends into")
    describe_children_rule(cx, rep, fam, mod)
    # ---------------------------------------------------------------- C15.4
    rep.rule("C15.4", "recursion guards and single declaration")
    for cn, c in sorted(fam.classes.items()):
        m = c.methods.get("collectDescribeRefs")
        if m:
            fn = m["function"]
            txt = "".join(mod.text(fn).split())
            rec = [n for n in walk(fn) if n["type"] == "CallExpression" and s(n["callee"]) == "collectDescribeRefs"]
            guards = [n for n in walk(fn) if n["type"] == "IfStatement" and re.search(r"(activeRefs|visitedRefs)\.has\(", s(n["test"])) and any(x["type"] == "ReturnStatement" for x in walk(n["consequent"]))]
            ok = len(rec) == 1 and len(guards) >= 2 and all(g["span"]["end"] <= rec[0]["span"]["start"] for g in guards) and \
                "activeRefs.add(" in txt and "activeRefs.delete(" in txt and txt.index("activeRefs.add(") < txt.index("collectDescribeRefs(this") < txt.index("activeRefs.delete(")
            rep.ob("C15.4", "%s.collectDescribeRefs" % cn, ok, "%s.collectDescribeRefs must test activeRefs/visitedRefs before descending and add/delete the active mark around the recursive call" % cn, mod.loc(fn))
        d = c.methods.get("describe")
        if d and "definitions" in mod.text(d["function"]):
            fn = d["function"]
            assigns = [n for n in walk(fn) if n["type"] == "AssignmentExpression" and ".definitions[" in s(n["left"])]
            ok = len(assigns) >= 1
            for a in assigns:
                guarded = any(i["type"] == "IfStatement" and any(x is a for x in walk(i["consequent"])) and re.search(r"definitions\[\w+\]==null|definitions\[\w+\]===undefined", s(i["test"]).replace("(", "").replace(")", ""))
                              for i in walk(fn))
                ok = ok and guarded
            rep.ob("C15.4", "%s.describe/single-declaration" % cn, ok, "%s.describe must assign ctx.definitions[name] only under a `== null` guard" % cn, mod.loc(fn))
            txt = "".join(mod.text(fn).split())
            ok2 = "activeRefs.has(" in txt and "activeRefs.add(" in txt and "activeRefs.delete(" in txt
            rep.ob("C15.4", "%s.describe/recursion-guard" % cn, ok2, "%s.describe must guard the recursive description with activeRefs" % cn, mod.loc(fn))


def _runtype_fields(fam, cn):
    out = set()
    for fname, (owner, ann) in fam.all_fields(cn).items():
        if ann is None:
            continue
        t = tsast.type_str(ann)
        if t in ("Runtype", "Runtype[]", "Array<Runtype>", "Runtype|null", "Runtype|undefined") or t.startswith("Record<string,Runtype"):
            out.add(fname)
    return out


def describe_children_rule(cx, rep, fam, mod):
    YIELDERS = {"map", "flatMap", "filter", "concat", "values", "entries", "slice"}
    n = 0
    for cn, c in sorted(fam.concrete().items()):
        rfs = _runtype_fields(fam, cn)
        if not rfs:
            continue
        _, dte = fam.resolve_method(cn, "describeTypeExpr")
        _, dsc = fam.resolve_method(cn, "describe")
        read = set()
        for m in (dte, dsc):
            if m and m["function"].get("body") is not None and (m is dte or cn in ("OptionalFieldRuntype",) or "describe" in fam.classes[cn].methods):
                read |= {f for f in ts_common.this_fields_read(m["function"]) if f in rfs}
        _, dch = fam.resolve_method(cn, "describeChildren")
        if dch is None or not read:
            continue
        n += 1
        fn = dch["function"]
        yielded = set()
        for x in walk(fn):
            if x["type"] == "MemberExpression" and x["object"]["type"] == "ThisExpression" and x["property"].get("value") in rfs:
                # receiver of a method call that does not yield the field's own elements?
                recv_of = None
                for call in walk(fn):
                    if call["type"] == "CallExpression":
                        mc = method_call(call)
                        if mc and unparen(mc[0]) is x:
                            recv_of = mc[1]
                if recv_of is None or recv_of in YIELDERS:
                    yielded.add(x["property"]["value"])
            if x["type"] == "CallExpression" and s(x["callee"]) in ("Object.values", "Object.entries") and x["arguments"] and s(x["arguments"][0]["expression"]).startswith("this."):
                yielded.add(s(x["arguments"][0]["expression"])[5:])
        missing = read - yielded
        rep.ob("C15.5", cn, not missing,
               "%s.describeChildren does not yield this.%s although describe() descends into it: references reached only through it are not counted, so shared named types are inlined instead of declared once and recursive ones are described without a cycle guard" % (cn, sorted(missing)),
               mod.loc(fn), sample={"class": cn, "children_described": sorted(read), "children_yielded": sorted(yielded)})
    rep.floor("C15.5", "classes with child validators", n, 8)
