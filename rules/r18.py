"""Rules added after the eighteenth seed batch (registered per property through r15.run_extra).

C09.24           the search through `export *` targets is ended only by a hit
C12.16           a reporter hands its branches a fresh scratch path (no state on the validator instance)
C01.30 = C05.18  custom formats are compared as brand SETS
C16.13 = C02.25  schema() methods never assign a field of the schema context
C02.26           `null` (= unchanged) is what the null-branch remover returns whenever it removed nothing
C07.19 = C05.19  a reference the converter cannot resolve is an error, never an approximation
"""
import re
from facts import walk
import tsast
from tsast import walk as twalk, s as ts_s, unparen

CRATE = "beff_core"


def _fn_trees(F, prefix=None):
    for g in sorted(F.hir):
        f = F.fns.get(g)
        if f is None or f.crate != CRATE:
            continue
        if prefix and not (f.file or "").startswith(prefix):
            continue
        yield g, f, F.hir[g]


def _is_none(e):
    while isinstance(e, dict) and e.get("k") in ("DropTemps", "BlockExpr") and (e.get("e") or (e.get("block") or {}).get("expr")):
        e = e.get("e") or e["block"]["expr"]
    return isinstance(e, dict) and e.get("k") == "Path" and (e.get("def") or "").endswith("::None")


# ---------------------------------------------------------------------------------------------------- C09.24
def star_search_rule(cx, rep, rid):
    """A name that a module does not export itself is searched in the modules it re-exports with `export *`, one
    after the other; the search is over when a target HAS the name.  Leaving the loop over the targets with "not
    found" - because this target was seen before, because it lacks the name - abandons the targets that follow: in a
    diamond (barrel -> {A, B}, both -> shared, B -> provider) the name behind B's later `export *` is lost (seed
    C09-r: `return None` on a repeated target).  Decided: inside a `for` over the star list of SymbolsExportsModule no
    explicit `return None` / `break` occurs (`?` on a missing file is the existing, reviewed exit)."""
    F = cx.rs
    adt = next((k for k in F.adts if k.endswith("SymbolsExportsModule")), None)
    if adt is None:
        rep.anchor_missing(rid, "SymbolsExportsModule")
        return
    stars = {fl["name"] for v in F.adts[adt]["variants"] for fl in v["fields"] if re.match(r"^std::vec::Vec<.*FileName>$", fl["ty"] or "")}
    n = 0
    for g, f, t in _fn_trees(F):
        for lp in walk(t["body"]):
            if lp["k"] != "Match" or lp.get("src") != "ForLoopDesugar":
                continue
            if not any(x["k"] == "Field" and x.get("adt") == adt and x.get("name") in stars for x in walk(lp["scrut"])):
                continue
            n += 1
            bad = []
            # the existing exit - a star target whose file cannot be fetched - may be spelled `?` or as a let-else
            # (`let Some(file) = files.get_or_fetch_file(it) else { return None; }`, benign b35): both are that exit
            fetch_miss = set()
            for ls in walk(lp["arms"]):
                if ls["k"] == "LetStmt" and ls.get("els") is not None and ls.get("init") is not None and ls["init"].get("k") in ("Call", "MethodCall") \
                        and re.search(r"fetch|get_file|get_existing", (ls["init"].get("method") or ls["init"].get("callee") or "")):
                    fetch_miss |= {id(y) for y in walk(ls["els"])}
            for x in walk(lp["arms"]):
                if x["k"] == "Closure" or id(x) in fetch_miss:
                    continue
                if x["k"] == "Ret" and x.get("e") is not None and _is_none(x["e"]) and not any("desugar" in m_ for m_ in (x.get("mac") or [])):
                    bad.append(x)
                if x["k"] == "Break" and not any("desugar" in m_.lower() for m_ in (x.get("mac") or [])) and x.get("src") != "ForLoopDesugar":
                    if x.get("line") != lp.get("line"):
                        bad.append(x)
            rep.ob(rid, "%s/search-ends-on-a-hit" % f.name, not bad,
                   "%s leaves the loop over the `export *` targets of a module with `not found` (line %s): the targets that follow are never searched, so a name that only a LATER target provides is lost when an earlier one is skipped - a diamond of barrels resolves in the single-file program and not in the split one" % (g, bad[0]["line"] if bad else "?"),
                   "%s:%s" % (f.file, bad[0]["line"] if bad else lp["line"]), sample={"fn": g})
    rep.floor(rid, "loops over the star list of a module", n, 2)


# ---------------------------------------------------------------------------------------------------- C12.16
def fresh_scratch_path_rule(cx, rep, rid):
    """The union reporter resets `ctx.path` for its branches and restores it afterwards; the errors of the branches are
    relative to the union.  The scratch path has to be a FRESH array: the compiler hoists the union of a recursive type
    into one shared validator object, which is re-entered through a reference while its own report is running - an
    array kept on the instance is then "reset" to itself, still holding the segments pushed so far, and every level
    repeats them (seed C12-r: `left.left.value` reported as `left.left.left.value`).  Decided: in every
    reportDecodeError method an assignment to `ctx.path` has an array literal or a local that was initialised from
    `ctx.path` on its right-hand side - never a member of `this` or a module-level binding."""
    from rules.ts_common import Family
    fam = Family(cx)
    mod = fam.mod
    n = 0
    for cname, c in sorted(fam.classes.items()):
        for mname, m in sorted(c.methods.items()):
            fn = m.get("function") if m else None
            if fn is None or fn.get("body") is None:
                continue
            saved = set()
            for d in twalk(fn):
                if d["type"] == "VariableDeclarator" and d.get("init") is not None and d["id"].get("type") == "Identifier" and re.match(r"^\w+\.path$", ts_s(d["init"])):
                    saved.add(d["id"]["value"])
            for x in twalk(fn):
                if x["type"] == "AssignmentExpression" and x["operator"] == "=" and re.match(r"^\w+\.path$", ts_s(x["left"])) and not ts_s(x["left"]).startswith("this."):
                    n += 1
                    r = unparen(x["right"])
                    ok = r.get("type") == "ArrayExpression" or (r.get("type") == "Identifier" and r["value"] in saved)
                    rep.ob(rid, "%s.%s/scratch-path" % (cname, mname), ok,
                           "%s.%s assigns `%s` to the report context's path: the scratch path of a union's branches must be a fresh array (or the saved path being restored) - an array owned by the validator instance is shared by the re-entrant reports of a recursive type, whose errors then carry the outer segments twice and address positions that do not exist in the input" % (cname, mname, ts_s(r)[:60]),
                           mod.loc(x), sample={"class": cname, "method": mname})
    rep.floor(rid, "assignments to the report context's path", n, 2)


# ---------------------------------------------------------------------------------------------------- C01.30 = C05.18
def format_brand_set_rule(cx, rep, rid):
    """A registered custom format with extensions is a BRAND SET on the TypeScript side (`StringFormatExtends<Base, "x">`
    is `Base & {x}`): one format is assignable to another exactly when the other's brands are a subset of its own -
    the order in which the extensions were applied does not matter.  Decided: the function of the engine that compares
    two `CustomFormat` values for inclusion calls a set inclusion (`is_subset` / `is_superset`, or `all(..contains..)`)
    and no positional comparison of the brand lists (`starts_with`, `ends_with`, `zip`, `==` on the lists)."""
    F = cx.rs
    n = 0
    for g, f, t in _fn_trees(F, "packages/beff-core/src/subtyping"):
        ins = [i or "" for i in (f.inputs or [])]
        if f.kind == "Closure" or len(ins) != 2 or not all(i.lstrip("&").strip().endswith("CustomFormat") for i in ins) or (f.output or "") != "bool":
            continue
        n += 1
        calls = [(x.get("method") or (x.get("callee") or "").rsplit("::", 1)[-1]) for x in walk(t["body"]) if x["k"] in ("MethodCall", "Call")]
        setlike = any(c_ in ("is_subset", "is_superset") for c_ in calls) or ("all" in calls and "contains" in calls)
        positional = [c_ for c_ in calls if c_ in ("starts_with", "ends_with", "zip", "eq", "windows", "strip_prefix")]
        veq = [x for x in walk(t["body"]) if x["k"] == "Binary" and x.get("op") in ("Eq", "Ne") and any("Vec<" in (y.get("ty") or "") for y in walk(x) if isinstance(y, dict))]
        rep.ob(rid, "%s/brand-set-inclusion" % f.name, setlike and not positional,
               "%s decides the inclusion of two custom formats %s: formats are brand sets (`StringFormatExtends<Base, \"x\">` is `Base & {x}`), so a format whose brands include the other's in another order - `[User, Read, Write]` against `[User, Write]` - must be assignable; Exclude keeps such a member and conditional types take the wrong branch" % (
                   g, "positionally (%s)" % ", ".join(positional) if positional else "without a set inclusion"),
               f.loc(), sample={"fn": g, "calls": sorted(set(calls))[:12]})
    rep.floor(rid, "inclusion tests of two custom formats", n, 1)


# ---------------------------------------------------------------------------------------------------- C16.13 = C02.25
def schema_context_not_assigned_rule(cx, rep, rid):
    """What a schema() method prints for a type must not depend on WHERE in the walk it is printed: a named type is
    printed once per context and the stored definition serves every later reference.  A field of the schema context
    that schema() methods switch on and off around a sub-walk (`ctx.keyPosition = true; key.schema(ctx); .. = false`)
    is position state; a definition first met inside that sub-walk is stored in its position-dependent form, so the
    export depends on the order of the calls (seed C16-r).  Decided: no `schema` method of a runtime class (and no
    module function it hands the context to) assigns a field of its context parameter; the path is moved with
    pushPath / popPath only."""
    from rules.ts_common import Family, fn_params
    fam = Family(cx)
    mod = fam.mod
    n = 0
    for cname, c in sorted(fam.classes.items()):
        m = c.methods.get("schema")
        fn = m.get("function") if m else None
        if fn is None or fn.get("body") is None:
            continue
        ps = fn_params(fn)
        if not ps:
            continue
        n += 1
        ctxn = ps[0]
        bad = [x for x in twalk(fn) if x["type"] in ("AssignmentExpression", "UpdateExpression") and re.match(r"^%s\.\w+$" % re.escape(ctxn), ts_s(x.get("left") or x.get("argument") or {}) or "")]
        rep.ob(rid, "%s.schema/context-not-assigned" % cname, not bad,
               "%s.schema assigns `%s`: a field of the printing context that is switched around a sub-walk makes what is printed depend on the position - a named definition first met there is stored in that form and serves every later reference, so the exported definitions depend on the order of the calls" % (cname, ts_s(bad[0].get("left") or bad[0].get("argument")) if bad else "?"),
               mod.loc(bad[0]) if bad else mod.loc(fn), sample={"class": cname})
    rep.floor(rid, "schema() methods of the runtime classes", n, 15)


# ---------------------------------------------------------------------------------------------------- C02.26
def null_branch_contract_rule(cx, rep, rid):
    """`ObjectRuntype.schema` asks the null-branch remover about each property: `null` means "unchanged", anything else
    means "the property was nullable, its null branch is gone" - and the property is dropped from `required`.  So the
    remover must answer `null` whenever it removed nothing.  Decided on the remover (the exported function of the
    post-processing module that filters its variants with the null test): the list of non-null variants is the filter
    of the SAME list whose length it is compared with, and the comparison `kept.length === all.length` alone - not
    weakened by a further conjunct - leads to `return null` (seed C02-r flattened nested unions first and returned the
    flattened schema although no null had been removed: a required non-nullable property became optional)."""
    try:
        mod = cx.ts("packages/beff-client/src/openapi-pp.ts")
    except Exception as e:                                                  # the module is not dumped
        rep.anchor_missing(rid, "openapi-pp.ts facts", str(e)[:80])
        return
    n = 0
    fns = {}
    for name, fn in mod.functions.items():
        fns[name] = fn.get("function", fn)
    for vn, (_k, init, _d) in mod.vars.items():
        if init is not None and init.get("type") in ("ArrowFunctionExpression", "FunctionExpression"):
            fns[vn] = init
    for name, fn in sorted(fns.items()):
        filt = None
        for d in twalk(fn):
            if d["type"] == "VariableDeclarator" and d.get("init") is not None and d["id"].get("type") == "Identifier":
                i_ = unparen(d["init"])
                if i_.get("type") == "CallExpression" and ts_s(i_["callee"]).endswith(".filter") and any(y["type"] == "Identifier" and "isNull" in y["value"] for y in twalk(i_)):
                    filt = (d["id"]["value"], ts_s(i_["callee"])[:-len(".filter")])
        if filt is None or not any(x["type"] == "ReturnStatement" and ts_s(x.get("argument") or {}) == "null" for x in twalk(fn)):
            continue
        n += 1
        kept, src = filt

        def disjuncts(e):
            e = unparen(e)
            if e.get("type") == "BinaryExpression" and e["operator"] == "||":
                return disjuncts(e["left"]) + disjuncts(e["right"])
            return [e]
        ok = False
        for st in twalk(fn):
            if st["type"] != "IfStatement":
                continue
            if not any(x["type"] == "ReturnStatement" and ts_s(x.get("argument") or {}) == "null" for x in twalk(st["consequent"])):
                continue
            for dj in disjuncts(st["test"]):
                if dj.get("type") == "BinaryExpression" and dj["operator"] in ("===", "==") and {ts_s(dj["left"]), ts_s(dj["right"])} == {kept + ".length", src + ".length"}:
                    ok = True
        # the list the kept variants are compared with is the list the function was handed (its own variants)
        rep.ob(rid, "%s/null-when-nothing-removed" % name, ok,
               "%s filters the null branches out of `%s` into `%s` but does not answer `null` on the bare test `%s.length === %s.length`: a call that removed nothing can return a rewritten schema, which ObjectRuntype.schema reads as `the null branch was removed` and drops the property from `required` - the schema then accepts documents without a property the validator demands" % (name, src, kept, kept, src),
               mod.loc(fn), sample={"fn": name, "kept": kept, "of": src})
    rep.floor(rid, "null-branch removers of the post-processing module", n, 1)


# ---------------------------------------------------------------------------------------------------- C07.19 = C05.19
def unresolved_reference_rule(cx, rep, rid):
    """The converter turns a reference into the semantic type of the definition it names.  A reference whose definition
    is not among the validators it was given has NO meaning: the only sound answers are an error or a placeholder of
    the recursion scheme (a memoised atom).  Approximating it - `unknown`, `never` - is sound in one polarity only:
    under a negation (the post-pass of Exclude intersects with `Not<..>`) a widened operand makes the difference
    smaller, an inhabited member is judged empty and dropped (seed C07-r).  Decided: in the converter's function that
    matches `RuntypeKind::Ref`, no `return Ok(<top / bottom constant>)` - a call of `SemTypeContext::unknown / never /
    any` - occurs in the Ref arm or in a helper-guarded branch of it."""
    F = cx.rs
    n = 0
    TOPS = re.compile(r"SemTypeContext::(unknown|never|any|mk_unknown|mk_never)$|SemType::(new_unknown|new_never|unknown|never)$")
    for g, f, t in _fn_trees(F, "packages/beff-core/src/subtyping"):
        for x in walk(t["body"]):
            if x["k"] != "Match":
                continue
            for a in x["arms"]:
                if not any(p_.get("k") == "P.TupleStruct" and (p_.get("def") or "").endswith("RuntypeKind::Ref") for p_ in walk(a["pat"])):
                    continue
                n += 1
                bad = []
                for r in walk(a["body"]):
                    if r["k"] == "Ret" and r.get("e") is not None and not any("desugar" in m_ for m_ in (r.get("mac") or [])):
                        if any(y["k"] in ("Call", "MethodCall") and TOPS.search(y.get("resolved") or y.get("callee") or "") for y in walk(r["e"])):
                            bad.append(r)
                rep.ob(rid, "%s/Ref-arm" % f.name, not bad,
                       "%s answers a reference with a constant semantic type (line %s) instead of the type of its definition or an error: an approximation is sound in one polarity only - under the negation that Exclude's post-pass builds, a widened operand makes the difference smaller and an inhabited member is dropped" % (g, bad[0]["line"] if bad else "?"),
                       "%s:%s" % (f.file, bad[0]["line"] if bad else a["line"]), sample={"fn": g})
    rep.floor(rid, "Ref arms of the semantic converter", n, 1)


# ---------------------------------------------------------------------------------------------------- C13.15
def digest_context_pairing_rule(cx, rep, rid):
    """The digest context may carry the bookkeeping of the CURRENT path (the named types being encoded: set on entry,
    deleted on exit) - that is what makes recursion terminate and alpha-equivalent recursive types agree.  A table that
    is only ever added to remembers what was encoded EARLIER in the same call: the encoding of a type then depends on
    whether the same named type was met before, i.e. on alias boundaries (`{a: P, b: P}` vs the same type with P inlined;
    seed C13-r wrote back-references to completed encodings).  Decided: in every hash256 method each `ctx.<table>.set /
    add / push(..)` has a `ctx.<table>.delete / pop(..)` on the same table in the same method."""
    from rules.ts_common import Family, fn_params
    fam = Family(cx)
    mod = fam.mod
    n = 0
    for cname, c in sorted(fam.classes.items()):
        m = c.methods.get("hash256")
        fn = m.get("function") if m else None
        if fn is None or fn.get("body") is None:
            continue
        ps = fn_params(fn)
        if not ps:
            continue
        ctxn = ps[0]
        adds, dels = {}, set()
        for x in twalk(fn):
            if x["type"] == "CallExpression":
                mm = re.match(r"^%s\.(\w+)\.(set|add|push|delete|pop|clear)$" % re.escape(ctxn), ts_s(x["callee"]) or "")
                if mm:
                    if mm.group(2) in ("set", "add", "push"):
                        adds.setdefault(mm.group(1), x)
                    else:
                        dels.add(mm.group(1))
        for tab, x in sorted(adds.items()):
            n += 1
            rep.ob(rid, "%s.hash256/%s-paired" % (cname, tab), tab in dels,
                   "%s.hash256 adds to `%s.%s` and never removes from it: the table remembers what was encoded earlier in the same call, so the encoding of a type depends on whether a named type was met before - the digest depends on alias boundaries, and alpha-equivalent recursive types can differ" % (cname, ctxn, tab),
                   mod.loc(x), sample={"class": cname, "table": tab})
    rep.floor(rid, "tables of the digest context that hash256 methods add to", n, 1)


# ---------------------------------------------------------------------------------------------------- C08.20 = C13.16
def digest_structure_directed_rule(cx, rep, rid):
    """hash256 encodes the validator tree as it is: a class writes its own tag and hands each child to the child's own
    hash256.  A method that looks at WHAT a child is (`instanceof`) or looks through a reference itself
    (`getNamedRuntypes()[..]`) to re-shape the encoding implements one rewrite of the type algebra by hand - and only
    to the depth it was written for: seed C08-r spliced a member that names a union, one alias hop deep, so adding a
    second alias changed the digest.  Decided: outside the reference classes, no hash256 method (or private method it
    calls) contains an `instanceof` test or resolves a reference through the name table."""
    from rules.ts_common import Family
    fam = Family(cx)
    mod = fam.mod
    n = 0
    for cname, c in sorted(fam.classes.items()):
        m = c.methods.get("hash256")
        fn = m.get("function") if m else None
        if fn is None or fn.get("body") is None or "Ref" in cname:
            continue
        n += 1
        bodies = [fn]
        for x in twalk(fn):
            if x["type"] == "CallExpression" and (ts_s(x["callee"]) or "").startswith("this."):
                h = c.methods.get(ts_s(x["callee"])[5:])
                if h is not None and h.get("function") is not None and h["function"] is not fn:
                    bodies.append(h["function"])
        bad = []
        for b in bodies:
            for x in twalk(b):
                # (a test for the optional-field wrapper of one's own property is part of the class's own encoding; what
                # is ruled out is looking THROUGH a child: references and the union / intersection combinators)
                if x["type"] == "BinaryExpression" and x["operator"] == "instanceof" and re.search(r"Ref|AnyOf|AllOf", ts_s(x["right"]) or ""):
                    bad.append(x)
                if x["type"] == "CallExpression" and (ts_s(x["callee"]) or "").endswith("getNamedRuntypes"):
                    bad.append(x)
        rep.ob(rid, "%s.hash256/structure-directed" % cname, not bad,
               "%s.hash256 inspects what a child is (%s) instead of handing it to the child's own hash256: a hand-written rewrite of the encoding holds only to the depth it was written for, so two spellings of one type that differ by an alias hop get different digests" % (cname, ts_s(bad[0])[:60] if bad else "?"),
               mod.loc(bad[0]) if bad else mod.loc(fn), sample={"class": cname})
    rep.floor(rid, "hash256 methods outside the reference classes", n, 15)


# ---------------------------------------------------------------------------------------------------- C03.25
def validate_context_not_assigned_rule(cx, rep, rid):
    """validate() is called again and again with ONE context: by parse (which re-validates every branch of a union
    with the context of the whole call), by the reporters, by the key checks.  A field of the context that a validate()
    method changes is state shared by all those calls; unless every exit restores it, an input that takes the
    unrestored exit often enough changes what later validate() calls answer - inside one parse (seed C03-r: a depth
    counter not restored on `return false` made parse drop items that validate accepts).  Decided: no `validate`
    method of a runtime class assigns or updates a field of its context parameter."""
    from rules.ts_common import Family, fn_params
    fam = Family(cx)
    mod = fam.mod
    n = 0
    for cname, c in sorted(fam.classes.items()):
        m = c.methods.get("validate")
        fn = m.get("function") if m else None
        if fn is None or fn.get("body") is None:
            continue
        ps = fn_params(fn)
        if not ps:
            continue
        n += 1
        ctxn = ps[0]
        bad = [x for x in twalk(fn) if x["type"] in ("AssignmentExpression", "UpdateExpression") and re.match(r"^%s\.\w+" % re.escape(ctxn), ts_s(x.get("left") or x.get("argument") or {}) or "")]
        rep.ob(rid, "%s.validate/context-not-assigned" % cname, not bad,
               "%s.validate changes `%s`: the context is shared by every validate() call of one parse / report (parse re-validates each branch of a union with it), so a change that is not undone on EVERY exit makes later answers depend on earlier inputs - validate accepts a value and parse, validating again, drops parts of it" % (cname, ts_s(bad[0].get("left") or bad[0].get("argument")) if bad else "?"),
               mod.loc(bad[0]) if bad else mod.loc(fn), sample={"class": cname})
    rep.floor(rid, "validate() methods of the runtime classes", n, 15)


# ---------------------------------------------------------------------------------------------------- C04.15
def visitor_not_pruned_rule(cx, rep, rid):
    """The entry file is walked by a local implementation of swc's `Visit` that finds the `buildParsers<{..}>()` call.
    A `visit_*` method overridden with an EMPTY body prunes the walk at that node kind: a call written inside it is
    never seen, and compilation "succeeds" with no parser for the requested names and no diagnostic (seed C04-r: an empty
    `visit_block_stmt`).  Decided: in the visitor that discovers the special calls (the local `Visit` impl whose
    `visit_call_expr` is overridden) no overridden `visit_*` method has an empty body."""
    F = cx.rs
    n = 0
    impls = {}
    for g, f in F.fns.items():
        if f.crate == CRATE and (f.impl_trait or "").endswith("::Visit") and f.name.startswith("visit_") and g in F.hir:
            impls.setdefault(f.impl_self, []).append((g, f))
    for self_ty, ms in sorted(impls.items()):
        if not any(f.name == "visit_call_expr" for _, f in ms):
            continue
        for g, f in sorted(ms):
            n += 1
            b = F.hir[g]["body"]
            while b.get("k") == "BlockExpr":
                b = b["block"]
            empty = b.get("k") == "Block" and not (b.get("stmts") or []) and b.get("expr") is None
            rep.ob(rid, "%s/%s" % (self_ty.rsplit("::", 1)[-1], f.name), not empty,
                   "%s overrides %s with an empty body: the walk that looks for the buildParsers call never enters that kind of node, so a call written inside one is not discovered - the compiler returns a module without the requested parsers and without a diagnostic" % (self_ty, f.name),
                   f.loc(), sample={"visitor": self_ty, "method": f.name})
    rep.floor(rid, "overridden visit methods of the call-discovering visitors", n, 1)


# C06.10
def template_table_rule(cx, rep, rid):
    """The string table of the engine (literals, formats, template literals) is exact only while any two entries are
    NESTED or DISJOINT: union / intersection / difference are computed entry by entry with the inclusion test.  A
    template literal with holes can contain a literal (`"ab"` in `a${string}`) or overlap another template without
    being identical to it; the inclusion test of template literals therefore refuses what it cannot decide (an error,
    which becomes a diagnostic) - an `equal or unrelated` fallback turns overlapping entries into `disjoint` ones and the
    three operations silently return wrong sets (seed C06-r).  Decided: in the inclusion test of two template-literal
    types (Result<bool>) every catch-all arm leaves with an error - no `Ok(..)` in an arm whose pattern binds nothing."""
    F = cx.rs
    n = 0
    for g, f, t in _fn_trees(F, "packages/beff-core/src/subtyping"):
        ins = [(i or "").lstrip("&").strip() for i in (f.inputs or [])]
        if f.kind == "Closure" or len(ins) != 2 or not all(i.endswith("TplLitType") for i in ins) or "Result<bool" not in (f.output or ""):
            continue
        n += 1
        bad = []
        for x in walk(t["body"]):
            if x["k"] != "Match" or x.get("src") != "Normal":
                continue
            for a in x["arms"]:
                pats = [p_ for p_ in walk(a["pat"])]
                catch_all = all(p_["k"] in ("P.Wild", "P.Tuple") for p_ in pats if isinstance(p_, dict) and p_.get("k", "").startswith("P."))
                if catch_all and any(y["k"] == "Call" and (y.get("callee") or "").endswith("::Ok") for y in walk(a["body"])):
                    bad.append(a)
        rep.ob(rid, "%s/undecided-is-an-error" % f.name, not bad,
               "%s answers the inclusion of two template-literal types in its catch-all arm (line %s) instead of refusing: a template with holes that contains a literal, or overlaps another template, is then an entry `unrelated` to it, and the entry-wise union / intersection / difference of string tables return wrong sets (`(\"ab\" | \"c\") \\ `a${string}`` keeps \"ab\")" % (g, bad[0]["line"] if bad else "?"),
               "%s:%s" % (f.file, bad[0]["line"] if bad else f.line), sample={"fn": g})
    rep.floor(rid, "inclusion tests of two template-literal types", n, 1)


# ---------------------------------------------------------------------------------------------------- C15.20
def flat_variants_verbatim_rule(cx, rep, rid):
    """The runtime class of a discriminated union gets the variants twice: as the flat list (`schemas`: what describe()
    prints and both hashes cover) and as the dispatch tables (`mapping`: what validate / parse use).  describe() ->
    compile again is the identity on hash256 only while the flat list holds the variants AS THEY ARE: a list rebuilt
    from them (an inline variant with the tag `"square" | "rect"` listed once per literal) describes a type whose
    recompilation has other tables than the original (seed C15-r).  Decided: in the printer function that emits the
    discriminated-union class, every local `Vec<Runtype>` initialised from the set of variants it was handed is
    produced by copying adaptors only (iter / cloned / copied / into_iter / collect / to_vec) - no `map`, `flat_map`,
    `filter` on the way."""
    F = cx.rs
    n = 0
    COPY = {"iter", "cloned", "copied", "into_iter", "collect", "to_vec", "clone"}
    for g, f, t in _fn_trees(F, "packages/beff-core/src/print"):
        if f.kind == "Closure" or not any(x["k"] == "Lit" and x.get("v") == "AnyOfDiscriminatedRuntype" for x in walk(t["body"])):
            continue
        set_params = []
        for p_ in t.get("params", []):
            if "BTreeSet<ast::runtype::Runtype>" in (p_.get("ty") or ""):
                set_params += [b.get("lid") for b in walk(p_) if b["k"] == "P.Binding"]
        for x in walk(t["body"]):
            if x["k"] != "LetStmt" or x.get("init") is None:
                continue
            init = x["init"]
            if not any(y["k"] == "Path" and y.get("lid") in set_params for y in walk(init)):
                continue
            ty = next((b.get("ty") for b in walk(x["pat"]) if b["k"] == "P.Binding"), "") or ""
            chain = [y["method"] for y in walk(init) if y["k"] == "MethodCall"]
            if "Vec<" not in ty and "collect" not in chain:
                continue
            n += 1
            other = [m_ for m_ in chain if m_ not in COPY]
            rep.ob(rid, "%s/flat-list-verbatim" % f.name, not other,
                   "%s builds the flat variant list of the discriminated-union class from the variants it was handed through %s: the list is what describe() prints and the hashes cover, the dispatch tables are built from the variants themselves - a rebuilt list describes a type whose recompilation has different tables, so hash256 does not survive describe() -> compile" % (g, ", ".join(other)),
                   "%s:%s" % (f.file, x["line"]), sample={"fn": g, "adaptors": chain})
    rep.floor(rid, "flat variant lists copied out of the variant set", n, 1)


def _lift_c04_12(cx, rep, rid):
    from rules.r15 import lift_rule
    lift_rule(cx, rep, rid, "C04", ["C04.12"], "so a case of the dispatch table no longer declares the discriminator (narrowed to the entry's key): under disallowExtraProperties the closed case object rejects the discriminator itself as an extra key - every value of a shared-literal variant is rejected in strict mode")


# ---------------------------------------------------------------------------------------------------- C03.26
def no_method_of_the_input_rule(cx, rep, rid):
    """The input is arbitrary: an array may carry an OWN property called `map`, an object one called `hasOwnProperty`.
    A validator method that calls `input.m(..)` runs whatever the input stores under `m` - validate() (which looks at
    `Array.isArray` and the items) accepts `a = [1, 2]; a.map = () => "x"`, and parse returns "x", which the same
    validator rejects.  Decided: in the validate / parseAfterValidation / reportDecodeError methods of the runtime
    classes no call has the method's input parameter itself (through casts and parentheses) as the object of its
    callee; iteration uses index loops, `for..of`, or `X.prototype.m.call(input, ..)`."""
    from rules.ts_common import Family, fn_params
    fam = Family(cx)
    mod = fam.mod
    n = 0

    def strip(e):
        while isinstance(e, dict) and e.get("type") in ("ParenthesisExpression", "TsAsExpression", "TsNonNullExpression", "TsTypeAssertion", "TsConstAssertion", "TsSatisfiesExpression"):
            e = e["expression"]
        return e
    for cname, c in sorted(fam.classes.items()):
        for mname in ("validate", "parseAfterValidation", "reportDecodeError"):
            m = c.methods.get(mname)
            fn = m.get("function") if m else None
            if fn is None or fn.get("body") is None:
                continue
            ps = fn_params(fn)
            if len(ps) < 2:
                continue
            inp = ps[1]
            n += 1
            bad = []
            for x in twalk(fn):
                if x["type"] == "CallExpression" and x["callee"].get("type") == "MemberExpression":
                    o = strip(x["callee"]["object"])
                    if o.get("type") == "Identifier" and o["value"] == inp:
                        bad.append(x)
            rep.ob(rid, "%s.%s/no-method-of-the-input" % (cname, mname), not bad,
                   "%s.%s calls `%s` - a method looked up on the input itself: an input that carries an own property of that name (an array with its own `map`) has THAT called; validate() accepts the value and the result is whatever the input's function returns, which the same validator rejects" % (cname, mname, (ts_s(bad[0]["callee"]) or "?")[:50] if bad else "?"),
                   mod.loc(bad[0]) if bad else mod.loc(fn), sample={"class": cname, "method": mname})
    rep.floor(rid, "validate / parse / report methods of the runtime classes", n, 40)


REGISTRY = {
    "C11": [("C11.11", "the cases of a discriminated union's dispatch table declare the discriminator, narrowed to the case's key (C04.12 lifted): a case that drops the key rejects it as extra in strict mode", _lift_c04_12)],
    "C15": [("C15.20", "the flat variant list of a discriminated union holds the variants as they are (copying adaptors only)", flat_variants_verbatim_rule)],
    "C06": [("C06.10", "the inclusion test of template literals refuses what it cannot decide (string-table entries stay nested or disjoint)", template_table_rule)],
    "C13": [("C13.16", "hash256 is structure-directed: no instanceof on a child, no look-through of references outside the reference classes (= C08.20)", digest_structure_directed_rule),
            ("C13.15", "the digest context carries path bookkeeping only: every table added to is also removed from in the same method", digest_context_pairing_rule)],
    "C08": [("C08.20", "hash256 is structure-directed: no instanceof on a child, no look-through of references outside the reference classes", digest_structure_directed_rule)],
    "C03": [("C03.26", "no validate / parse / report method calls a method looked up on the input itself", no_method_of_the_input_rule),
            ("C03.25", "validate() methods never change a field of the context they are handed", validate_context_not_assigned_rule)],
    "C04": [("C04.15", "the visitor that discovers the buildParsers call prunes no node kind (no empty visit_* override)", visitor_not_pruned_rule)],
    "C09": [("C09.24", "the search through the `export *` targets of a module is ended only by a hit", star_search_rule)],
    "C12": [("C12.16", "a reporter hands its branches a fresh scratch path (no path state on the validator instance)", fresh_scratch_path_rule)],
    "C01": [("C01.30", "custom formats are compared as brand sets (= C05.18)", format_brand_set_rule)],
    "C05": [("C05.19", "a reference the converter cannot resolve is an error, never an approximation (= C07.19)", unresolved_reference_rule),
            ("C05.18", "custom formats are compared as brand sets: inclusion is a set inclusion, never positional", format_brand_set_rule)],
    "C07": [("C07.19", "a reference the converter cannot resolve is an error, never an approximation", unresolved_reference_rule)],
    "C16": [("C16.13", "schema() methods never assign a field of the printing context (no position state)", schema_context_not_assigned_rule)],
    "C02": [("C02.26", "the null-branch remover answers `null` whenever it removed nothing (contract with ObjectRuntype.schema's `required`)", null_branch_contract_rule),
            ("C02.25", "schema() methods never assign a field of the printing context (= C16.13)", schema_context_not_assigned_rule)],
}
