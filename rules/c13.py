"""C13 — hash256 is a structural fingerprint computed as real SHA-256.

C13.1  SHA-256 constants and shape of hash.ts (FIPS 180-4): K, H0, rotation triples on the right operands,
       ch / maj truth tables, schedule offsets, state rotation, padding, length field, endianness
C13.2  field coverage: every structural constructor field of a runtime class is read by its hash256()
C13.3  prefix-free framing: distinct leading tags, length prefix before every collection loop, both
       branches of optional parts tagged, writer primitives type-tagged and length-prefixed
C13.4  name-free / order-free digests (shared with C08.4) and cycle bookkeeping pairing
"""
import itertools
import re
import tsast
from tsast import walk, s, unparen, method_call
from rules import ts_common

LEVEL = "other"
HASH_TS = "packages/beff-client/src/hash.ts"


def primes(n):
    out = []
    c = 2
    while len(out) < n:
        if all(c % p for p in out if p * p <= c):
            out.append(c)
        c += 1
    return out


def iroot(n, k):
    lo, hi = 0, 1
    while hi ** k <= n:
        hi *= 2
    while lo < hi - 1:
        mid = (lo + hi) // 2
        if mid ** k <= n:
            lo = mid
        else:
            hi = mid
    return lo


def frac_root_bits(p, k):
    """floor(frac(p^(1/k)) * 2^32) with integer arithmetic"""
    r = iroot(p << (32 * k), k)
    return r & 0xFFFFFFFF


_CONSTS = {}


def set_consts(mod):
    """module-level `const X = <numeric expression>` of the module under analysis"""
    _CONSTS.clear()
    for name, (kind, init, decl) in mod.vars.items():
        if kind == "const" and init is not None:
            v = num(init)
            if v is not None:
                _CONSTS[name] = v


def num(e):
    """integer value of a numeric literal, a module-level numeric constant, or +,-,* over those"""
    if not isinstance(e, dict):
        return None
    e = unparen(e)
    t = e.get("type")
    if t == "NumericLiteral":
        return int(e["value"])
    if t == "Identifier" and e["value"] in _CONSTS:
        return _CONSTS[e["value"]]
    if t == "BinaryExpression" and e["operator"] in ("+", "-", "*"):
        a, b = num(e["left"]), num(e["right"])
        if a is not None and b is not None:
            return {"+": a + b, "-": a - b, "*": a * b}[e["operator"]]
    return None


def xor_terms(e):
    e = unparen(e)
    if e.get("type") == "BinaryExpression" and e["operator"] == "^":
        return xor_terms(e["left"]) + xor_terms(e["right"])
    return [e]


def rot_term(e, rot_fn):
    """('r'|'s', n, operand string) for rotateRight(x, n) / (x >>> n)"""
    e = unparen(e)
    if e.get("type") == "CallExpression" and s(e["callee"]) == rot_fn and len(e["arguments"]) == 2:
        n = num(e["arguments"][1]["expression"])
        return ("r", n, s(e["arguments"][0]["expression"]))
    if e.get("type") == "BinaryExpression" and e["operator"] == ">>>":
        n = num(e["right"])
        if n:
            return ("s", n, s(e["left"]))
    return None


def bool_table(e, vars3):
    """truth table (8 bits) of a bitwise expression over three identifiers, or None"""
    def ev(x, env):
        x = unparen(x)
        t = x.get("type")
        if t == "Identifier":
            return env[x["value"]]
        if t == "UnaryExpression" and x["operator"] == "~":
            return 1 - ev(x["argument"], env)
        if t == "BinaryExpression" and x["operator"] in ("&", "|", "^"):
            a, b = ev(x["left"], env), ev(x["right"], env)
            return {"&": a & b, "|": a | b, "^": a ^ b}[x["operator"]]
        raise ValueError
    out = []
    for bits in itertools.product((0, 1), repeat=3):
        try:
            out.append(ev(e, dict(zip(vars3, bits))))
        except (ValueError, KeyError):
            return None
    return tuple(out)


def idents(e):
    return sorted({n["value"] for n in walk(e) if n["type"] == "Identifier"})


def add_terms(e):
    e = unparen(e)
    if e.get("type") == "BinaryExpression" and e["operator"] == ">>>" and num(e["right"]) == 0:
        return add_terms(e["left"])
    if e.get("type") == "BinaryExpression" and e["operator"] == "+":
        return add_terms(e["left"]) + add_terms(e["right"])
    return [s(e)]


def run(cx, rep):
    rep.explanation = (
        "hash.ts is checked against FIPS 180-4 as values and shapes read from the swc AST: the 64 round constants and 8 "
        "initial values are recomputed with integer arithmetic (cube/square roots of the first primes); the four "
        "three-term XOR expressions must have the standard rotation/shift amounts on the right operand (schedule offsets "
        "-15 / -2, working variables identified through the state-rotation assignments, not by name); ch and maj by "
        "truth table; schedule recurrence, temp1/temp2 sums, state rotation, feed-forward, padding byte, block size, "
        "length-field position/threshold, big-endian word load and length split. Per runtime class: every structural "
        "constructor field is read by hash256(), leading tags are pairwise distinct, each collection loop is preceded by "
        "a length write, optional parts are tagged on both branches. Decides these necessary conditions of 'real SHA-256 "
        "over a prefix-free canonical encoding'; collision-freedom and buffer arithmetic across block boundaries are not "
        "decided.")
    rep.trusted = ["swc AST", "FIPS 180-4 definitions re-derived in rules/c13.py"]
    mod = cx.ts(HASH_TS)
    set_consts(mod)
    set_consts(mod)   # second pass: constants defined from other constants
    # ---------------------------------------------------------------- C13.1
    rep.rule("C13.1", "SHA-256 constants and round-function shape (FIPS 180-4)")
    K = [frac_root_bits(p, 3) for p in primes(64)]
    H = [frac_root_bits(p, 2) for p in primes(8)]
    arrays = []
    for n in walk(mod.module):
        if n["type"] == "ArrayExpression" and len(n["elements"]) == 64 and all(num(x["expression"]) is not None for x in n["elements"]):
            arrays.append(n)
    rep.ob("C13.1", "K/found", len(arrays) == 1, "expected exactly one 64-element numeric table (round constants) in hash.ts, found %d" % len(arrays), mod.rel)
    if arrays:
        got = [num(x["expression"]) for x in arrays[0]["elements"]]
        bad = [i for i in range(64) if got[i] != K[i]]
        rep.ob("C13.1", "K/values", not bad, "round constant(s) %s differ from floor(frac(cbrt(prime_i)) * 2^32): e.g. K[%s] = 0x%08x, expected 0x%08x" % (
            bad[:4], bad[0] if bad else "", got[bad[0]] if bad else 0, K[bad[0]] if bad else 0), mod.loc(arrays[0]),
            sample={"K[0..3]": ["0x%08x" % v for v in got[:4]], "recomputed_equal": not bad})
    w = mod.classes.get("Hash256Writer")
    if w is None:
        rep.anchor_missing("C13.1", "class Hash256Writer")
        return
    inits = [(fn, num(node.get("value") or {})) for fn, node in w.fields.items() if node.get("value") is not None and num(node["value"]) is not None and num(node["value"]) > 0xFFFF]
    rep.ob("C13.1", "H0/values", [v for _, v in inits] == H,
           "initial hash values %s differ from floor(frac(sqrt(prime_i)) * 2^32) = %s" % (["0x%08x" % v for _, v in inits], ["0x%08x" % v for v in H]),
           mod.loc(w.node), sample={"H": ["0x%08x" % v for _, v in inits]})
    state_fields = [fn for fn, _ in inits]
    # rotate helper
    rot = None
    for name, fnode in mod.functions.items():
        body = fnode["body"]["stmts"] if fnode.get("body") else []
        if len(body) == 1 and body[0]["type"] == "ReturnStatement":
            ps = [p["pat"]["value"] for p in fnode["params"]]
            txt = s(body[0]["argument"])
            if len(ps) == 2 and txt in ("((%s>>>%s)|(%s<<(32-%s)))" % (ps[0], ps[1], ps[0], ps[1]), "((%s<<(32-%s))|(%s>>>%s))" % (ps[0], ps[1], ps[0], ps[1])):
                rot = name
    rep.ob("C13.1", "rotr", rot is not None, "no 32-bit rotate-right helper `(v >>> n) | (v << (32 - n))` found", mod.rel, sample={"rotate_fn": rot})
    # the compression function: the method whose body - with the helpers it calls folded back in (tsast.flatten_fn),
    # except the rotate helper itself - contains the rotate-based round function AND updates the state words
    not_rot = lambda H, call: not (unparen(call["callee"]).get("type") == "Identifier" and unparen(call["callee"])["value"] == rot)
    pc = pc_orig = None
    for mname, m in w.methods.items():
        if m["function"].get("body") is None or m.get("kind") == "getter":
            continue
        flat = tsast.flatten_fn(mod, "Hash256Writer", m["function"], depth=3, only=not_rot)
        direct_state = any(n["type"] == "AssignmentExpression" and s(n["left"]).startswith("this.") and s(n["left"])[5:] in state_fields for n in walk(m["function"]))
        if direct_state and any(n["type"] == "CallExpression" and s(n["callee"]) == rot for n in walk(flat)):
            pc, pc_orig = flat, m["function"]
    if pc is None or rot is None:
        rep.anchor_missing("C13.1", "compression function (method using the rotate helper)")
        return
    # three-term xor expressions
    triples = []
    for n in walk(pc):
        if n["type"] == "VariableDeclarator" and n.get("init") is not None:
            ts_ = xor_terms(n["init"])
            if len(ts_) == 3:
                rt = [rot_term(t, rot) for t in ts_]
                if all(rt):
                    triples.append((n["id"]["value"], frozenset((k, a) for k, a, _ in rt), {o for _, _, o in rt}, n))
    want = {"sigma0": frozenset({("r", 7), ("r", 18), ("s", 3)}), "sigma1": frozenset({("r", 17), ("r", 19), ("s", 10)}),
            "Sigma1": frozenset({("r", 6), ("r", 11), ("r", 25)}), "Sigma0": frozenset({("r", 2), ("r", 13), ("r", 22)})}
    found = {}
    for name, tr, ops, node in triples:
        for wn, wt in want.items():
            if tr == wt:
                found[wn] = (name, ops, node)
    for wn in want:
        rep.ob("C13.1", "rot/%s" % wn, wn in found and len(found[wn][1]) == 1,
               "no three-term XOR with amounts %s on a single operand (found triples %s)" % (sorted(want[wn]), [sorted(t[1]) for t in triples]), mod.loc(pc),
               sample={wn: sorted(want[wn]), "operand": sorted(found[wn][1]) if wn in found else None})
    rep.ob("C13.1", "rot/exactly-four", len(triples) == 4, "expected 4 three-term rotation XORs, found %d" % len(triples), mod.loc(pc))
    # schedule operands
    def offset_of(opnd):
        m = re.match(r"^(\w+)\[\((\w+)-(\d+)\)\]$", opnd)
        return (m.group(1), int(m.group(3))) if m else None
    if "sigma0" in found and "sigma1" in found:
        pal = ts_common.local_aliases(pc)

        def through_alias(opnd):
            # `const w15 = words[i - 15]` read once into a local
            return s(pal[opnd]) if opnd in pal else opnd
        o0 = offset_of(through_alias(sorted(found["sigma0"][1])[0]))
        o1 = offset_of(through_alias(sorted(found["sigma1"][1])[0]))
        rep.ob("C13.1", "schedule/sigma-operands", o0 is not None and o1 is not None and o0[1] == 15 and o1[1] == 2 and o0[0] == o1[0],
               "message schedule: sigma0 must read W[i-15] and sigma1 W[i-2] (found %s / %s)" % (o0, o1), mod.loc(found["sigma0"][2]))
        # W[i] = W[i-16] + s0 + W[i-7] + s1
        rec = None
        for n in walk(pc):
            if n["type"] == "AssignmentExpression" and o0 and s(n["left"]).startswith(o0[0] + "["):
                terms = add_terms(n["right"])
                if len(terms) == 4:
                    rec = (terms, n)
        ok = False
        if rec and o0:
            t = set(rec[0])
            ok = t == {"%s[(i-16)]" % o0[0], "%s[(i-7)]" % o0[0], found["sigma0"][0], found["sigma1"][0]} or \
                {x for x in t if not x.startswith(o0[0])} == {found["sigma0"][0], found["sigma1"][0]} and \
                {offset_of(x)[1] for x in t if offset_of(x)} == {16, 7}
        rep.ob("C13.1", "schedule/recurrence", ok, "message schedule must be W[i] = W[i-16] + sigma0 + W[i-7] + sigma1 (found %s)" % (rec[0] if rec else None), mod.loc(pc),
               sample={"terms": rec[0] if rec else None})
    # working variables via state rotation: x = y assignments inside the round loop
    assigns = {}
    sums = {}
    for n in walk(pc):
        if n["type"] == "AssignmentExpression" and n["operator"] == "=" and n["left"]["type"] == "Identifier":
            r = unparen(n["right"])
            if r["type"] == "Identifier":
                assigns[n["left"]["value"]] = r["value"]
            else:
                sums[n["left"]["value"]] = add_terms(n["right"])
    if "Sigma1" in found and "Sigma0" in found:
        e_var = sorted(found["Sigma1"][1])[0]
        a_var = sorted(found["Sigma0"][1])[0]
        # chain: f = e, g = f, h = g ; b = a, c = b, d = c
        def nxt(v):
            return [k for k, val in assigns.items() if val == v]
        f_ = nxt(e_var)
        g_ = nxt(f_[0]) if f_ else []
        h_ = nxt(g_[0]) if g_ else []
        b_ = nxt(a_var)
        c_ = nxt(b_[0]) if b_ else []
        d_ = nxt(c_[0]) if c_ else []
        chain_ok = all(len(x) == 1 for x in (f_, g_, h_, b_, c_, d_))
        rep.ob("C13.1", "state-rotation", chain_ok, "working variables must rotate h=g, g=f, f=e, d=c, c=b, b=a (found assignments %s)" % assigns, mod.loc(pc),
               sample={"a..h": [a_var, b_ and b_[0], c_ and c_[0], d_ and d_[0], e_var, f_ and f_[0], g_ and g_[0], h_ and h_[0]]})
        if chain_ok:
            f_, g_, h_, b_, c_, d_ = f_[0], g_[0], h_[0], b_[0], c_[0], d_[0]
            ch_ok = maj_ok = False
            ch_name = maj_name = None
            for n in walk(pc):
                if n["type"] == "VariableDeclarator" and n.get("init") is not None:
                    ids = idents(n["init"])
                    if sorted(ids) == sorted([e_var, f_, g_]):
                        tt = bool_table(n["init"], [e_var, f_, g_])
                        if tt is not None:
                            ch_name = n["id"]["value"]
                            ch_ok = tt == tuple((x & y) ^ ((1 - x) & z) for x, y, z in itertools.product((0, 1), repeat=3))
                    if sorted(ids) == sorted([a_var, b_, c_]):
                        tt = bool_table(n["init"], [a_var, b_, c_])
                        if tt is not None:
                            maj_name = n["id"]["value"]
                            maj_ok = tt == tuple((x & y) ^ (x & z) ^ (y & z) for x, y, z in itertools.product((0, 1), repeat=3))
            rep.ob("C13.1", "ch", ch_ok, "Ch(e,f,g) must be (e AND f) XOR (NOT e AND g) (truth table over the rotated working variables %s)" % [e_var, f_, g_], mod.loc(pc), sample={"ch_var": ch_name})
            rep.ob("C13.1", "maj", maj_ok, "Maj(a,b,c) must be the majority function (truth table over %s)" % [a_var, b_, c_], mod.loc(pc), sample={"maj_var": maj_name})
            # temp1 = h + Sigma1 + ch + K[i] + W[i]; temp2 = Sigma0 + maj; e = d + temp1; a = temp1 + temp2
            t1 = t2 = None
            for n in walk(pc):
                if n["type"] == "VariableDeclarator" and n.get("init") is not None:
                    terms = add_terms(n["init"])
                    if len(terms) == 5:
                        t1 = (n["id"]["value"], terms)
                    if len(terms) == 2 and found["Sigma0"][0] in terms:
                        t2 = (n["id"]["value"], terms)
            kname = None
            for vn, (kind, init, decl) in mod.vars.items():
                if init is not None and arrays and any(x is arrays[0] for x in walk(init)):
                    kname = vn
            kidx = [re.match(r"^\w+\[(\w+)\]$", x).group(1) for x in (t1[1] if t1 else []) if x.startswith((kname or "?") + "[") and re.match(r"^\w+\[(\w+)\]$", x)]
            ok1 = t1 is not None and h_ in t1[1] and found["Sigma1"][0] in t1[1] and ch_name in t1[1] and len(kidx) == 1 and \
                any(re.match(r"^\w+\[%s\]$" % re.escape(kidx[0]), x) and not x.startswith((kname or "?") + "[") for x in t1[1])
            rep.ob("C13.1", "temp1", ok1, "T1 must be h + Sigma1(e) + Ch + K[i] + W[i] (found %s)" % (t1,), mod.loc(pc), sample={"T1": t1})
            ok2 = t2 is not None and set(t2[1]) == {found["Sigma0"][0], maj_name}
            rep.ob("C13.1", "temp2", ok2, "T2 must be Sigma0(a) + Maj (found %s)" % (t2,), mod.loc(pc), sample={"T2": t2})
            if t1 and t2:
                rep.ob("C13.1", "e-update", set(sums.get(e_var, [])) == {d_, t1[0]}, "e must become d + T1 (found %s)" % sums.get(e_var), mod.loc(pc))
                rep.ob("C13.1", "a-update", set(sums.get(a_var, [])) == {t1[0], t2[0]}, "a must become T1 + T2 (found %s)" % sums.get(a_var), mod.loc(pc))
            # feed-forward: this.h_k = this.h_k + var_k
            ff = {}
            for n in walk(pc):
                if n["type"] == "AssignmentExpression" and n["left"]["type"] == "MemberExpression" and n["left"]["object"]["type"] == "ThisExpression":
                    ff[n["left"]["property"]["value"]] = add_terms(n["right"])
            order = [a_var, b_, c_, d_, e_var, f_, g_, h_]
            okff = len(state_fields) == 8 and all(set(ff.get(sf, [])) == {"this." + sf, order[i]} for i, sf in enumerate(state_fields))
            rep.ob("C13.1", "feed-forward", okff, "each state word must be increased by its working variable in order a..h (found %s)" % ff, mod.loc(pc))
    # every call of the compression function is handed exactly one 64-byte block
    pc_name = [mn for mn, m in w.methods.items() if m["function"] is pc_orig][0]
    buf64 = set()
    for fn, node in w.fields.items():
        v = unparen(node["value"]) if node.get("value") is not None else None
        if v is not None and v.get("type") == "NewExpression" and s(v["callee"]) == "Uint8Array" and v.get("arguments") and num(v["arguments"][0]["expression"]) == 64:
            buf64.add(fn)
    n_pc = 0
    for mname, m in w.methods.items():
        for n in walk(m["function"]):
            if n["type"] == "CallExpression" and s(n["callee"]) == "this." + pc_name:
                n_pc += 1
                a = unparen(n["arguments"][0]["expression"])
                ok = s(a).startswith("this.") and s(a)[5:] in buf64
                mc = method_call(a)
                if mc and mc[1] == "subarray" and len(mc[2]) == 2:
                    lo, hi = s(mc[2][0]), s(mc[2][1])
                    h = unparen(mc[2][1])
                    plus64 = h.get("type") == "BinaryExpression" and h["operator"] == "+" and (
                        (s(h["left"]) == lo and num(h["right"]) == 64) or (s(h["right"]) == lo and num(h["left"]) == 64))
                    ok = plus64 or (num(mc[2][0]) == 0 and num(mc[2][1]) == 64)
                rep.ob("C13.1", "chunk-is-64-bytes/%s" % mname, ok,
                       "%s hands `%s` to the compression function: it must be the 64-byte block buffer or `x.subarray(p, p + 64)`; a shorter view is read past its end and the missing bytes are hashed as zeros" % (mname, s(a)),
                       mod.loc(n), sample={"caller": mname, "argument": s(a)})
    rep.floor("C13.1", "calls of the compression function", n_pc, 1)
    # word load big-endian
    be = False
    for n in walk(pc):
        if n["type"] == "AssignmentExpression":
            txt = s(n["right"])
            if re.search(r"<<24\)\|\(\w+\[\(\w+\+1\)\]<<16\)\)\|\(\w+\[\(\w+\+2\)\]<<8\)\)\|\w+\[\(\w+\+3\)\]", txt):
                be = True
    rep.ob("C13.1", "big-endian-load", be, "message words must be loaded big-endian: (c[j]<<24)|(c[j+1]<<16)|(c[j+2]<<8)|c[j+3]", mod.loc(pc))
    # padding / length
    dg = None
    for mname, m in w.methods.items():
        if any((n["type"] == "NumericLiteral" and int(n["value"]) == 0x80) or (n["type"] == "Identifier" and _CONSTS.get(n["value"]) == 0x80) for n in walk(m["function"])):
            dg = m["function"]
    if dg is not None:
        dg = tsast.flatten_fn(mod, "Hash256Writer", dg, depth=3, only=lambda H, call: H is not pc_orig)
    if dg is None:
        rep.ob("C13.1", "pad-byte", False, "no method appends the 0x80 padding byte", mod.loc(w.node))
    else:
        rep.ob("C13.1", "pad-byte", True, sample={"pad": "0x80"})
        thr = None
        for n in walk(dg):
            if n["type"] == "IfStatement":
                t = unparen(n["test"])
                if t["type"] == "BinaryExpression" and num(t["right"]) is not None and ("ufferLength" in s(t["left"]) or num(t["right"]) in (55, 56, 57)):
                    op, k = t["operator"], num(t["right"])
                    thr = (op, k)
        ok = thr in ((">", 56), (">=", 57))
        rep.ob("C13.1", "pad-threshold", ok, "after the 0x80 byte an extra block is needed exactly when more than 56 bytes are buffered (found `%s %s`)" % (thr or ("?", "?")), mod.loc(dg),
               sample={"threshold": thr})
        idx = {}
        for n in walk(dg):
            if n["type"] == "AssignmentExpression" and n["left"]["type"] == "MemberExpression" and n["left"]["property"]["type"] == "Computed":
                i = num(n["left"]["property"]["expression"])
                if i is not None and 56 <= i <= 63:
                    idx[i] = s(n["right"])
        okl = sorted(idx) == list(range(56, 64))
        if okl:
            hi = [idx[i] for i in range(56, 60)]
            lo = [idx[i] for i in range(60, 64)]
            def shifts(xs):
                out = []
                for x in xs:
                    m = re.search(r">>>(\d+)", x)
                    out.append(int(m.group(1)) if m else 0)
                return out
            okl = shifts(hi) == [24, 16, 8, 0] and shifts(lo) == [24, 16, 8, 0] and len({re.sub(r"[^A-Za-z]", "", x) for x in hi}) == 1 and \
                re.sub(r"[^A-Za-z]", "", hi[0]) != re.sub(r"[^A-Za-z]", "", lo[0])
        rep.ob("C13.1", "length-field", okl, "the 64-bit big-endian bit length must occupy bytes 56..63 (found %s)" % idx, mod.loc(dg), sample={"bytes": idx})
        dal = ts_common.local_aliases(dg)
        times8 = {k for k, v in dal.items() if "*8" in s(v) and "4294967296" not in s(v) and ">>>" not in s(v)}

        def expand(txt):
            for k in times8:
                txt = re.sub(r"(?<![\w.])%s(?![\w])" % re.escape(k), "(" + s(dal[k]) + ")", txt)
            return txt
        bl = [expand(s(n["init"])) for n in walk(dg) if n["type"] == "VariableDeclarator" and n.get("init") is not None and n["id"].get("value") not in times8
              and "*8" in expand(s(n["init"]))]
        rep.ob("C13.1", "bit-length", len(bl) == 2 and any("4294967296" in x for x in bl) and any(">>>0" in x for x in bl),
               "bit length = bytes*8 split into high (/2^32) and low (>>>0) words (found %s)" % bl, mod.loc(dg))
    # ---------------------------------------------------------------- C13.3 (writer primitives)
    rep.rule("C13.3", "prefix-free framing")
    # private writer primitives, discovered by role (their names are the maintainers' business):
    #   bytes_w  - the method (one parameter) that feeds the block buffer: it calls the compression function
    #   byte_w   - hands bytes_w a one-element Uint8Array.of(param)
    #   u32_w    - hands bytes_w a four-element Uint8Array.of(..) (big-endian word)
    #   utf8_w   - encodes its parameter, then u32_w(length), then bytes_w(bytes)
    def this_calls(fn):
        out = []
        fn = tsast.flatten_fn(mod, "Hash256Writer", fn, depth=2, only=lambda H, call: not H.get("params"))
        for n in walk(fn):
            if n["type"] == "CallExpression":
                mc = method_call(n)
                if mc and s(mc[0]) == "this":
                    out.append((mc[1], mc[2], n))
        return out
    priv = {mn: m for mn, m in w.methods.items() if m["function"].get("body") is not None and mn != pc_name}
    bytes_w = [mn for mn, m in priv.items() if len(m["function"]["params"]) == 1 and any(c[0] == pc_name for c in this_calls(m["function"]))
               and not any(nn["type"] == "CallExpression" and s(nn["callee"]).endswith(".encode") for nn in walk(m["function"]))]
    # (the finalisation also calls the compression function but takes no parameter)
    bytes_w = bytes_w[0] if len(bytes_w) == 1 else None
    byte_w = u32_w = utf8_w = None

    def of_len(arg):
        a = unparen(arg)
        if a.get("type") == "CallExpression" and s(a["callee"]) in ("Uint8Array.of", "Uint8Array.from"):
            if s(a["callee"]) == "Uint8Array.of":
                return len(a["arguments"])
            inner = unparen(a["arguments"][0]["expression"]) if a["arguments"] else {}
            if inner.get("type") == "ArrayExpression":
                return len(inner["elements"])
        if a.get("type") == "NewExpression" and s(a["callee"]) == "Uint8Array" and a.get("arguments"):
            inner = unparen(a["arguments"][0]["expression"])
            if inner.get("type") == "ArrayExpression":
                return len(inner["elements"])
        return None
    for mn, m in priv.items():
        tc = this_calls(m["function"])
        if bytes_w and len(tc) == 1 and tc[0][0] == bytes_w and tc[0][1]:
            k = of_len(tc[0][1][0])
            if k == 1:
                byte_w = mn
            elif k == 4:
                u32_w = mn
    for mn, m in priv.items():
        tc = [c[0] for c in this_calls(m["function"])]
        if u32_w and bytes_w and tc[:2] == [u32_w, bytes_w] and any(nn["type"] == "CallExpression" and s(nn["callee"]).endswith(".encode") for nn in walk(m["function"])):
            utf8_w = mn
    rep.ob("C13.3", "writer/roles", all([bytes_w, byte_w, u32_w, utf8_w]),
           "could not identify the writer's primitives (block feeder %s, single byte %s, big-endian word %s, length-prefixed text %s)" % (bytes_w, byte_w, u32_w, utf8_w),
           mod.loc(w.node), sample={"block_feeder": bytes_w, "byte": byte_w, "uint32": u32_w, "length_prefixed_utf8": utf8_w})
    tagbytes = {}
    publics = {mn: m for mn, m in priv.items() if m.get("accessibility") != "private" and mn not in (bytes_w, byte_w, u32_w, utf8_w)
               and any(c[0] == byte_w for c in this_calls(m["function"]))}
    for mname, m in publics.items():
        bs = []
        for cname_, args_, node_ in this_calls(m["function"]):
            if cname_ == byte_w and args_:
                for x in walk(args_[0]):
                    if x["type"] == "NumericLiteral":
                        bs.append(int(x["value"]))
                    elif x["type"] == "Identifier" and x["value"] in _CONSTS:
                        bs.append(_CONSTS[x["value"]])
        tagbytes[mname] = bs
    allb = [b for bs in tagbytes.values() for b in bs]
    rep.ob("C13.3", "writer/type-bytes-distinct", len(allb) == len(set(allb)) and all(tagbytes.values()) and len(tagbytes) >= 4,
           "every public write primitive must start with its own type byte (found %s)" % tagbytes, mod.loc(w.node), sample={"type_bytes": tagbytes})
    for mname, m in sorted(publics.items()):
        tc = [c[0] for c in this_calls(m["function"])]
        payload = [c for c in tc if c != byte_w]
        has_param = len(m["function"]["params"]) >= 1 and any(
            x["type"] == "Identifier" and x["value"] == (ts_common.fn_params(m["function"]) or [None])[0]
            for c in this_calls(m["function"]) if c[0] != byte_w for a_ in c[1] for x in walk(a_))
        if not payload:
            continue
        rep.ob("C13.3", "writer/%s-length-prefixed" % mname, all(c == utf8_w for c in payload),
               "%s writes a variable-length payload through %s: it must go through the length-prefixed text writer, otherwise two different sequences of writes give the same byte stream" % (mname, payload), mod.loc(m))
    lp = w.methods.get(utf8_w) if utf8_w else None
    if lp:
        calls = [c[0] for c in this_calls(lp["function"])]
        rep.ob("C13.3", "writer/length-before-bytes", calls[:2] == [u32_w, bytes_w], "the byte length must be written before the bytes (calls %s)" % calls, mod.loc(lp))
    # ---------------------------------------------------------------- C13.8
    rep.rule("C13.8", "text reaches the digest as the UTF-8 encoding of the whole string")
    # `TextEncoder.encodeInto(s, dest)` stops at the last whole character that fits into dest and reports how much it
    # read - it never throws.  A writer that encodes into a fixed scratch buffer digests a PREFIX of long strings (a
    # guard on `s.length` counts UTF-16 units, not bytes), so two types that differ only in the tail of a long literal,
    # property name or pattern share a digest.  Decided: hash.ts contains no bounded-destination encoding call.
    def bounded_encodes(m_):
        return [x for x in walk(m_.module) if x["type"] == "CallExpression" and method_call(x) and method_call(x)[1] == "encodeInto"]
    be = bounded_encodes(mod)
    for x in be:
        rep.ob("C13.8", "encodeInto#%d" % be.index(x), False,
               "hash.ts encodes text with encodeInto(..) into a fixed-size destination: characters that do not fit are silently dropped, so the digest covers only a prefix of long (non-ASCII) strings and validators that differ in the rest collide", mod.loc(x))
    rep.ob("C13.8", "scan", True, sample={"bounded_destination_encodings": len(be)})
    try:
        cm_ = cx.ts("canary/ts/encode.ts")
        rep.ob("C13.8", "control/canary-encodeInto", len(bounded_encodes(cm_)) == 1, "positive control: canary/ts/encode.ts must yield one encodeInto call", "canary/ts/encode.ts")
    except Exception as e:
        rep.ob("C13.8", "control/canary-encodeInto", False, "positive control could not be evaluated: %s" % e, "canary/ts/encode.ts")
    # ---------------------------------------------------------------- C13.6
    rep.rule("C13.6", "the writer's position advances by the number of bytes of every write")
    # A recursive reference is encoded as the stream position at which its target began (BaseRefRuntype.hash256 reads
    # a number-valued getter of the writer).  That identifies the target only if the position grows with EVERY byte
    # written: a counter that is advanced when a 64-byte block is compressed gives all targets that begin in the same
    # block the same id, and two recursive types that differ in which enclosing type a back-edge points to collide.
    # Decided: for every getter of the writer, the fields it reads (F): (a) in the block feeder some field of F is
    # increased by an amount derived from the feeder's argument (its length, a slice of it), and (b) a field of F
    # that the feeder resets or advances by a constant does so next to an update of another field of F (the two-counter
    # form `blocks * 64 + pending`), never alone.
    n_get = 0
    feeder = w.methods.get(bytes_w) if bytes_w else None
    for gname, gm in sorted(w.methods.items()):
        if gm.get("kind") != "getter" or gm["function"].get("body") is None:
            continue
        F_ = set(ts_common.this_fields_read(gm["function"]))
        if not F_ or feeder is None:
            continue
        ffn = tsast.flatten_fn(mod, "Hash256Writer", feeder["function"], depth=2, only=lambda H, call: not H.get("params"))
        T = ts_common.taint(ffn, [ts_common.fn_params(ffn)[0]])
        derived, const_alone = [], []
        def upd_blocks(fn):
            out = []
            for blk in walk(fn):
                if blk["type"] != "BlockStatement":
                    continue
                ups = []
                for st in blk["stmts"]:
                    if st["type"] != "ExpressionStatement":
                        continue
                    e = unparen(st["expression"])
                    if e["type"] == "AssignmentExpression" and s(e["left"]).startswith("this."):
                        ups.append((s(e["left"])[5:], e["operator"], e["right"], e))
                    elif e["type"] == "UpdateExpression" and s(e["argument"]).startswith("this."):
                        ups.append((s(e["argument"])[5:], "++", None, e))
                out.append(ups)
            return out
        for ups in upd_blocks(ffn):
            inF = [u for u in ups if u[0] in F_]
            for fld, op, rhs, node in inF:
                if op in ("+=",) and rhs is not None and ts_common.mentions(rhs, T):
                    derived.append(fld)
                elif len({u[0] for u in inF}) < 2:
                    const_alone.append((fld, node))
        n_get += 1
        ok = bool(derived) and not [c for c in const_alone if c[0] not in derived]
        rep.ob("C13.6", "writer/%s" % gname, ok,
               "the position getter `%s` of the digest writer reads {%s}, which the block feeder `%s` %s: the position is not the number of bytes written so far, so the back-reference ids that hash256 derives from it coincide for different targets and recursive types that disagree on values get the same digest" % (
                   gname, ", ".join(sorted(F_)), bytes_w, "never advances by the length of what it is given" if not derived else "also resets / advances by a constant on its own (%s)" % ", ".join(sorted({c[0] for c in const_alone}))),
               mod.loc(gm), sample={"getter": gname, "fields": sorted(F_), "advanced_by_input_length": sorted(set(derived))})
    rep.floor("C13.6", "number-valued getters of the digest writer", n_get, 1)
    # per class
    fam = ts_common.Family(cx)
    cm = fam.mod
    tags = {}
    rep.rule("C13.2", "field coverage of hash256()")
    table = cx.table("c13_derived_fields.json")["params"]
    tabled = {(e["class"], e["param"]) for e in table}
    derived = set()   # legacy (class, "<leading-tag>") markers: none
    n_cls = 0
    for cname, c in sorted(fam.classes.items()):
        defc, m = fam.resolve_method(cname, "hash256")
        if m is None or c.is_abstract and "hash256" not in c.methods:
            continue
        if "hash256" not in c.methods:
            continue
        fn = m["function"]
        if fn.get("body") is None:
            continue
        n_cls += 1
        # leading tag
        first = None
        for st in fn["body"]["stmts"]:
            if st["type"] == "ExpressionStatement":
                mc = method_call(st["expression"])
                if mc and mc[1] == "updateTag" and mc[2] and unparen(mc[2][0])["type"] == "StringLiteral":
                    first = unparen(mc[2][0])["value"]
            break
        all_tags = [unparen(method_call(n)[2][0])["value"] for n in walk(fn) if n["type"] == "CallExpression" and method_call(n) and method_call(n)[1] == "updateTag"
                    and method_call(n)[2] and unparen(method_call(n)[2][0])["type"] == "StringLiteral"]
        delegating = not all_tags and any(method_call(n) and method_call(n)[1] == "hash256" for n in walk(fn) if n["type"] == "CallExpression")
        if delegating:
            # a wrapper that writes nothing of its own is sound only if it is transparent for validation as well: its
            # validate() must be nothing but the child's validate() (an alias); a wrapper that accepts or rejects
            # anything by itself (optional, nullable, refinement) and leaves no mark in the encoding makes two
            # validators that disagree share a digest
            _, vm = fam.resolve_method(cname, "validate")
            transparent = False
            if vm is not None and vm["function"].get("body") is not None:
                stmts = [st for st in vm["function"]["body"]["stmts"] if st["type"] != "VariableDeclaration"]
                if len(stmts) == 1 and stmts[0]["type"] == "ReturnStatement" and stmts[0].get("argument") is not None:
                    mcv = method_call(stmts[0]["argument"])
                    vps = ts_common.fn_params(vm["function"])
                    transparent = bool(mcv) and mcv[1] == "validate" and [s(a) for a in mcv[2]] == vps[:2]
            rep.ob("C13.3", "%s/silent-wrapper-is-transparent" % cname, transparent,
                   "%s.hash256 writes nothing of its own and only forwards to a child, but %s.validate is not a plain forward: what the wrapper adds to or removes from the accepted values is invisible in the digest" % (cname, cname),
                   cm.loc(fn), sample={"class": cname, "validate_is_plain_forward": transparent})
        if first is None and not delegating and not (cname, "<leading-tag>") in derived:
            # a class may branch first (e.g. Nullish writes one of several tags): accept when every path starts with a tag
            starts = all_tags
            rep.ob("C13.3", "%s/leading-tag" % cname, bool(starts), "%s.hash256 writes no tag: its encoding can be confused with another class's" % cname, cm.loc(fn))
        for t in set(all_tags):
            tags.setdefault(t, set()).add(cname)
        # field coverage
        reads = ts_common.this_fields_read(fn, cm, cname)
        for fname, (owner, ann) in sorted(fam.all_fields(cname).items()):
            if fname == "metadata":
                continue
            ok = fname in reads
            why = None
            if not ok:
                # which constructor parameters is the field computed from?  It is covered when each of them is stored
                # in a field that IS read, or is tabled (class, position) with a reason
                oc = fam.classes.get(owner) or c
                pnames = [p[0] for p in oc.ctor_params()]
                rhs = oc.ctor_assignments().get(fname)
                if rhs is None and fname in pnames:
                    srcs = [fname]           # parameter property
                else:
                    srcs = sorted({x["value"] for x in walk(rhs) if x["type"] == "Identifier" and x["value"] in pnames}) if rhs is not None else []
                def covered(pn):
                    if (owner, pnames.index(pn)) in tabled or (cname, pnames.index(pn)) in tabled:
                        return "tabled"
                    for f2, r2 in oc.ctor_assignments().items():
                        if f2 != fname and f2 in reads and unparen(r2).get("type") == "Identifier" and unparen(r2)["value"] == pn:
                            return "stored in %s (hashed)" % f2
                    return None
                if srcs and all(covered(pn) for pn in srcs):
                    ok = True
                    why = {pn: covered(pn) for pn in srcs}
            rep.ob("C13.2", "%s.%s" % (cname, fname) if fname in reads else "%s#%s" % (cname, "+".join(str(x) for x in (sorted(why) if why else [fname]))), ok,
                   "%s.hash256 does not read the constructor field `%s` (nor is the field computed only from constructor parameters that are hashed through another field): two validators that differ only there get the same digest" % (cname, fname), cm.loc(fn),
                   sample={"class": cname, "field": fname, "covered_by": why or "read by hash256"})
        # loops preceded by a length write
        check_loops(rep, cm, cname, fn)
        # optional parts tagged on both branches
        for n in walk(fn):
            if n["type"] == "IfStatement" and n.get("alternate") is not None:
                wc = [x for x in walk(n["consequent"]) if x["type"] == "CallExpression" and method_call(x) and method_call(x)[1].startswith("update")]
                wa = [x for x in walk(n["alternate"]) if x["type"] == "CallExpression" and method_call(x) and method_call(x)[1].startswith("update")]
                if wc or wa:
                    rep.ob("C13.3", "%s/both-branches-tagged" % cname, bool(wc) and bool(wa),
                           "%s.hash256: an optional part is written on one branch only; absence must be encoded too" % cname, cm.loc(n))
            if n["type"] == "IfStatement" and n.get("alternate") is None:
                wc = [x for x in walk(n["consequent"]) if x["type"] == "CallExpression" and method_call(x) and (method_call(x)[1].startswith("update") or method_call(x)[1] == "hash256")]
                rets = [x for x in walk(n["consequent"]) if x["type"] == "ReturnStatement"]
                if wc and not rets:
                    rep.ob("C13.3", "%s/both-branches-tagged" % cname, False,
                           "%s.hash256: an optional part is written under `if` without an else branch; absence must be encoded too" % cname, cm.loc(n))
    rep.floor("C13.2", "classes with hash256()", n_cls, 20)
    for t, cs in sorted(tags.items()):
        rep.ob("C13.3", "tag/%s" % t, len(cs) == 1, "tag %r is written by several classes %s: their encodings are not prefix-free" % (t, sorted(cs)), cm.rel,
               sample={"tag": t, "class": sorted(cs)})
    # ---------------------------------------------------------------- C13.4
    rep.rule("C13.4", "name-free, order-free digests; cycle bookkeeping paired")
    ts_common.digest_structure_rules(cx, rep, "C13.4")
    for cname, c in sorted(fam.classes.items()):
        if "hash256" in c.methods:
            fn = c.methods["hash256"]["function"]
            sets = [n for n in walk(fn) if n["type"] == "CallExpression" and method_call(n) and s(method_call(n)[0]).endswith(".active") and method_call(n)[1] == "set"]
            dels = [n for n in walk(fn) if n["type"] == "CallExpression" and method_call(n) and s(method_call(n)[0]).endswith(".active") and method_call(n)[1] == "delete"]
            if sets or dels:
                rec = [n for n in walk(fn) if n["type"] == "CallExpression" and method_call(n) and method_call(n)[1] == "hash256"]
                ok = len(sets) == 1 and len(dels) == 1 and len(rec) == 1 and sets[0]["span"]["start"] < rec[0]["span"]["start"] < dels[0]["span"]["start"] and \
                    s(sets[0]["arguments"][0]["expression"]) == s(dels[0]["arguments"][0]["expression"])
                rep.ob("C13.4", "%s/cycle-pairing" % cname, ok, "%s.hash256: ctx.active must be set before and deleted after the recursive call, for the same key" % cname, cm.loc(fn),
                       sample={"class": cname, "set/recurse/delete": ok})
                gets = [n for n in walk(fn) if n["type"] == "CallExpression" and method_call(n) and s(method_call(n)[0]).endswith(".active") and method_call(n)[1] == "get"]
                rep.ob("C13.4", "%s/cycle-check-first" % cname, len(gets) == 1 and gets[0]["span"]["start"] < sets[0]["span"]["start"], "%s.hash256 must test ctx.active before descending" % cname, cm.loc(fn))
    # ---------------------------------------------------------------- C13.5
    rep.rule("C13.5", "hash() / hash256() read every constructor argument they read on the reviewed tree")
    ts_common.field_matrix_rule(cx, rep, "C13.5", ['hash', 'hash256'])
    # ---------------------------------------------------------------- C13.7
    rep.rule("C13.7", "hash() / hash256(): every element of an array-valued constructor argument is accounted for (no fixed-size prefix)")
    ts_common.truncation_rule(cx, rep, "C13.7", ['hash', 'hash256'])


def check_loops(rep, cm, cname, fn):
    """every for..of / forEach over a collection in hash256 is preceded, in the same block, by a
    write of that collection's length"""
    def blocks(n):
        for x in walk(n):
            if x["type"] == "BlockStatement":
                yield x["stmts"]
    for stmts in blocks(fn["body"]):
        for i, st in enumerate(stmts):
            coll = None
            if st["type"] == "ForOfStatement":
                coll = s(st["right"])
            elif st["type"] == "ExpressionStatement":
                mc = method_call(st["expression"])
                if mc and mc[1] == "forEach":
                    coll = s(mc[0])
            if coll is None:
                continue
            body_writes = any(x["type"] == "CallExpression" and method_call(x) and (method_call(x)[1].startswith("update") or method_call(x)[1] == "hash256" or "hash256" in s(x["callee"]))
                              for x in walk(st))
            if not body_writes:
                continue
            ok = False
            for prev in stmts[:i]:
                for x in walk(prev):
                    if x["type"] == "CallExpression" and method_call(x) and method_call(x)[1] == "updateNumber":
                        a = s(method_call(x)[2][0])
                        if a in (coll + ".length", coll + ".size"):
                            ok = True
            rep.ob("C13.3", "%s/length-prefix" % cname, ok,
                   "%s.hash256 writes the elements of `%s` without first writing its length: [a,b]+[c] and [a]+[b,c] would encode alike" % (cname, coll), cm.loc(st),
                   sample={"class": cname, "collection": coll})
