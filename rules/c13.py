"""C13 — hash256 is a structural fingerprint computed as real SHA-256.

C13.1  SHA-256 constants and shape of hash.ts (FIPS 180-4): K, H0, rotation triples on the right operands,
       ch / maj truth tables, schedule offsets, state rotation, padding, length field, endianness
C13.2  field coverage: every structural constructor field of a runtime class is read by its hash256()
C13.3  prefix-free framing: distinct leading tags, length prefix before every collection loop, both
       branches of optional parts tagged, writer primitives type-tagged and length-prefixed
C13.4  name-free / order-free digests (shared with C08.4) and cycle bookkeeping pairing
"""
import itertools
import re
import tsast
from tsast import walk, s, unparen, method_call
from rules import ts_common

LEVEL = "other"
HASH_TS = "packages/beff-client/src/hash.ts"


def primes(n):
    out = []
    c = 2
    while len(out) < n:
        if all(c % p for p in out if p * p <= c):
            out.append(c)
        c += 1
    return out


def iroot(n, k):
    lo, hi = 0, 1
    while hi ** k <= n:
        hi *= 2
    while lo < hi - 1:
        mid = (lo + hi) // 2
        if mid ** k <= n:
            lo = mid
        else:
            hi = mid
    return lo


def frac_root_bits(p, k):
    """floor(frac(p^(1/k)) * 2^32) with integer arithmetic"""
    r = iroot(p << (32 * k), k)
    return r & 0xFFFFFFFF


_CONSTS = {}


def set_consts(mod):
    """module-level `const X = <numeric expression>` of the module under analysis"""
    _CONSTS.clear()
    for name, (kind, init, decl) in mod.vars.items():
        if kind == "const" and init is not None:
            v = num(init)
            if v is not None:
                _CONSTS[name] = v


def num(e):
    """integer value of a numeric literal, a module-level numeric constant, or +,-,* over those"""
    if not isinstance(e, dict):
        return None
    e = unparen(e)
    t = e.get("type")
    if t == "NumericLiteral":
        return int(e["value"])
    if t == "Identifier" and e["value"] in _CONSTS:
        return _CONSTS[e["value"]]
    if t == "BinaryExpression" and e["operator"] in ("+", "-", "*"):
        a, b = num(e["left"]), num(e["right"])
        if a is not None and b is not None:
            return {"+": a + b, "-": a - b, "*": a * b}[e["operator"]]
    return None


def xor_terms(e):
    e = unparen(e)
    if e.get("type") == "BinaryExpression" and e["operator"] == "^":
        return xor_terms(e["left"]) + xor_terms(e["right"])
    return [e]


def rot_term(e, rot_fn):
    """('r'|'s', n, operand string) for rotateRight(x, n) / (x >>> n)"""
    e = unparen(e)
    if e.get("type") == "CallExpression" and s(e["callee"]) == rot_fn and len(e["arguments"]) == 2:
        n = num(e["arguments"][1]["expression"])
        return ("r", n, s(e["arguments"][0]["expression"]))
    if e.get("type") == "BinaryExpression" and e["operator"] == ">>>":
        n = num(e["right"])
        if n:
            return ("s", n, s(e["left"]))
    return None


def bool_table(e, vars3):
    """truth table (8 bits) of a bitwise expression over three identifiers, or None"""
    def ev(x, env):
        x = unparen(x)
        t = x.get("type")
        if t == "Identifier":
            return env[x["value"]]
        if t == "UnaryExpression" and x["operator"] == "~":
            return 1 - ev(x["argument"], env)
        if t == "BinaryExpression" and x["operator"] in ("&", "|", "^"):
            a, b = ev(x["left"], env), ev(x["right"], env)
            return {"&": a & b, "|": a | b, "^": a ^ b}[x["operator"]]
        raise ValueError
    out = []
    for bits in itertools.product((0, 1), repeat=3):
        try:
            out.append(ev(e, dict(zip(vars3, bits))))
        except (ValueError, KeyError):
            return None
    return tuple(out)


def idents(e):
    return sorted({n["value"] for n in walk(e) if n["type"] == "Identifier"})


def add_terms(e):
    e = unparen(e)
    if e.get("type") == "BinaryExpression" and e["operator"] == ">>>" and num(e["right"]) == 0:
        return add_terms(e["left"])
    if e.get("type") == "BinaryExpression" and e["operator"] == "+":
        return add_terms(e["left"]) + add_terms(e["right"])
    return [s(e)]


def run(cx, rep):
    rep.explanation = (
        "hash.ts is checked against FIPS 180-4 as values and shapes read from the swc AST: the 64 round constants and 8 "
        "initial values are recomputed with integer arithmetic (cube/square roots of the first primes); the four "
        "three-term XOR expressions must have the standard rotation/shift amounts on the right operand (schedule offsets "
        "-15 / -2, working variables identified through the state-rotation assignments, not by name); ch and maj by "
        "truth table; schedule recurrence, temp1/temp2 sums, state rotation, feed-forward, padding byte, block size, "
        "length-field position/threshold, big-endian word load and length split. Per runtime class: every structural "
        "constructor field is read by hash256(), leading tags are pairwise distinct, each collection loop is preceded by "
        "a length write, optional parts are tagged on both branches. Decides these necessary conditions of 'real SHA-256 "
        "over a prefix-free canonical encoding'; collision-freedom and buffer arithmetic across block boundaries are not "
        "decided.")
    rep.trusted = ["swc AST", "FIPS 180-4 definitions re-derived in rules/c13.py"]
    mod = cx.ts(HASH_TS)
    set_consts(mod)
    set_consts(mod)   # second pass: constants defined from other constants
    # ---------------------------------------------------------------- C13.1
    rep.rule("C13.1", "SHA-256 constants and round-function shape (FIPS 180-4)")
    K = [frac_root_bits(p, 3) for p in primes(64)]
    H = [frac_root_bits(p, 2) for p in primes(8)]
    arrays = []
    for n in walk(mod.module):
        if n["type"] == "ArrayExpression" and len(n["elements"]) == 64 and all(num(x["expression"]) is not None for x in n["elements"]):
            arrays.append(n)
    rep.ob("C13.1", "K/found", len(arrays) == 1, "expected exactly one 64-element numeric table (round constants) in hash.ts, found %d" % len(arrays), mod.rel)
    if arrays:
        got = [num(x["expression"]) for x in arrays[0]["elements"]]
        bad = [i for i in range(64) if got[i] != K[i]]
        rep.ob("C13.1", "K/values", not bad, "round constant(s) %s differ from floor(frac(cbrt(prime_i)) * 2^32): e.g. K[%s] = 0x%08x, expected 0x%08x" % (
            bad[:4], bad[0] if bad else "", got[bad[0]] if bad else 0, K[bad[0]] if bad else 0), mod.loc(arrays[0]),
            sample={"K[0..3]": ["0x%08x" % v for v in got[:4]], "recomputed_equal": not bad})
    w = mod.classes.get("Hash256Writer")
    if w is None:
        rep.anchor_missing("C13.1", "class Hash256Writer")
        return
    inits = [(fn, num(node.get("value") or {})) for fn, node in w.fields.items() if node.get("value") is not None and num(node["value"]) is not None and num(node["value"]) > 0xFFFF]
    rep.ob("C13.1", "H0/values", [v for _, v in inits] == H,
           "initial hash values %s differ from floor(frac(sqrt(prime_i)) * 2^32) = %s" % (["0x%08x" % v for _, v in inits], ["0x%08x" % v for v in H]),
           mod.loc(w.node), sample={"H": ["0x%08x" % v for _, v in inits]})
    state_fields = [fn for fn, _ in inits]
    # rotate helper
    rot = None
    for name, fnode in mod.functions.items():
        body = fnode["body"]["stmts"] if fnode.get("body") else []
        if len(body) == 1 and body[0]["type"] == "ReturnStatement":
            ps = [p["pat"]["value"] for p in fnode["params"]]
            txt = s(body[0]["argument"])
            if len(ps) == 2 and txt in ("((%s>>>%s)|(%s<<(32-%s)))" % (ps[0], ps[1], ps[0], ps[1]), "((%s<<(32-%s))|(%s>>>%s))" % (ps[0], ps[1], ps[0], ps[1])):
                rot = name
    rep.ob("C13.1", "rotr", rot is not None, "no 32-bit rotate-right helper `(v >>> n) | (v << (32 - n))` found", mod.rel, sample={"rotate_fn": rot})
    # the compression function: the method whose body - with the helpers it calls folded back in (tsast.flatten_fn),
    # except the rotate helper itself - contains the rotate-based round function AND updates the state words
    not_rot = lambda H, call: not (unparen(call["callee"]).get("type") == "Identifier" and unparen(call["callee"])["value"] == rot)
    pc = pc_orig = None
    for mname, m in w.methods.items():
        if m["function"].get("body") is None or m.get("kind") == "getter":
            continue
        flat = tsast.flatten_fn(mod, "Hash256Writer", m["function"], depth=3, only=not_rot)
        direct_state = any(n["type"] == "AssignmentExpression" and s(n["left"]).startswith("this.") and s(n["left"])[5:] in state_fields for n in walk(m["function"]))
        if direct_state and any(n["type"] == "CallExpression" and s(n["callee"]) == rot for n in walk(flat)):
            pc, pc_orig = flat, m["function"]
    if pc is None or rot is None:
        rep.anchor_missing("C13.1", "compression function (method using the rotate helper)")
        return
    # ---- the round function, the schedule and the feed-forward, by symbolic evaluation (lib/symjs.py) -------------
    # The flattened compression function is executed on symbols: one iteration of the round loop with the eight
    # working variables free, one iteration of the schedule loop, the statements after the loops.  What each variable
    # / array element / state word ends up holding is a canonical term (sums flattened and sorted, XORs of rotations of
    # one operand as a set of amounts, bitwise functions as truth tables) and is compared with the term FIPS 180-4
    # prescribes - whatever the names, temporaries and helper functions of the implementation are.
    import symjs
    from symjs import mk_sum, mk_bit
    kname = None
    for vn, (kind, init, decl) in mod.vars.items():
        if init is not None and arrays and any(x is arrays[0] for x in walk(init)):
            kname = vn
    work = {}
    for d in walk(pc):
        if d["type"] == "VariableDeclarator" and d["id"].get("type") == "Identifier" and d.get("init") is not None:
            t_ = s(unparen(d["init"]))
            if t_.startswith("this.") and t_[5:] in state_fields:
                work[t_[5:]] = d["id"]["value"]
    wv = [work.get(sf) for sf in state_fields]
    rep.ob("C13.1", "working-variables", len(state_fields) == 8 and all(wv) and len(set(wv)) == 8,
           "the compression function must copy the eight state words into eight working variables (found %s)" % work, mod.loc(pc_orig),
           sample={"a..h": wv})
    loops = [n for n in walk(pc) if n["type"] in ("ForStatement", "WhileStatement", "ForOfStatement")]

    def assigned_locals(node):
        return {unparen(x["left"])["value"] for x in walk(node) if x["type"] == "AssignmentExpression" and unparen(x["left"]).get("type") == "Identifier"}

    def body_stmts(loop):
        b_ = loop["body"]
        return b_["stmts"] if b_.get("type") == "BlockStatement" else [b_]
    round_loop = None
    if all(wv):
        for lp in loops:
            if len(assigned_locals(lp["body"]) & set(wv)) >= 6:
                round_loop = lp
    rep.ob("C13.1", "round-loop", round_loop is not None, "no loop in the compression function updates the working variables", mod.loc(pc_orig))
    if round_loop is not None:
        va, vb, vc, vd, ve, vf, vg, vh = [("var", x) for x in wv]
        sy = symjs.Sym(_CONSTS, rot)
        sy.run(body_stmts(round_loop))
        got = {x: sy.env.get(x, ("var", x)) for x in wv}
        # locate K[i] / W[i] in what `e` became
        idxs = [t_ for t_ in (got[wv[4]][1] if got[wv[4]][0] == "sum" else ()) if t_[0] == "idx"]
        kterm = [t_ for t_ in idxs if t_[1] == kname]
        wterm = [t_ for t_ in idxs if t_[1] != kname and kterm and t_[2] == kterm[0][2]]
        rep.ob("C13.1", "round/K-and-W", len(kterm) == 1 and len(wterm) == 1,
               "the new value of the fifth working variable must add K[i] and W[i] for the same i (found %s)" % symjs.show(got[wv[4]]), mod.loc(round_loop),
               sample={"e'": symjs.show(got[wv[4]])})
        if len(kterm) == 1 and len(wterm) == 1:
            S1 = ("sigma", ve, frozenset({("r", 6), ("r", 11), ("r", 25)}))
            S0 = ("sigma", va, frozenset({("r", 2), ("r", 13), ("r", 22)}))
            ch = mk_bit("xor", [mk_bit("and", [ve, vf]), mk_bit("and", [symjs.Sym()._not(ve), vg])])
            maj = mk_bit("xor", [mk_bit("and", [va, vb]), mk_bit("and", [va, vc]), mk_bit("and", [vb, vc])])
            T1 = mk_sum([vh, S1, ch, kterm[0], wterm[0]])
            T2 = mk_sum([S0, maj])
            want_ = {wv[7]: vg, wv[6]: vf, wv[5]: ve, wv[4]: mk_sum([vd, T1]), wv[3]: vc, wv[2]: vb, wv[1]: va, wv[0]: mk_sum([T1, T2])}
            names_ = "abcdefgh"
            for i_, x in enumerate(wv):
                rep.ob("C13.1", "round/%s" % names_[i_], got[x] == want_[x],
                       "after one round the working variable `%s` (%s of FIPS 180-4) holds %s; SHA-256 prescribes %s" % (x, names_[i_], symjs.show(got[x]), symjs.show(want_[x])),
                       mod.loc(round_loop), sample={"variable": names_[i_], "holds": symjs.show(got[x])[:200]})
            # ---- schedule: W[j] = W[j-16] + sigma0(W[j-15]) + W[j-7] + sigma1(W[j-2])
            wname = wterm[0][1]
            sched_ok, sched_seen = False, []
            for lp in loops:
                if lp is round_loop:
                    continue
                sy2 = symjs.Sym(_CONSTS, rot)
                # array aliases established before the loops (const words = <schedule array>)
                for d in walk(pc):
                    if d["type"] == "VariableDeclarator" and d["id"].get("type") == "Identifier" and d.get("init") is not None and unparen(d["init"]).get("type") == "Identifier":
                        sy2.arrays[d["id"]["value"]] = sy2.base_name(d["init"])
                wcanon = sy2.arrays.get(wname, wname)
                for tgt, val, node_ in sy2.run(body_stmts(lp)):
                    if tgt[0] == "idx" and sy2.arrays.get(tgt[1], tgt[1]) == wcanon and val[0] == "sum" and len(val[1]) == 4:
                        j = tgt[2]
                        W_ = lambda off: ("idx", tgt[1], "%s-%d" % (j, off))
                        exp = mk_sum([W_(16), ("sigma", W_(15), frozenset({("r", 7), ("r", 18), ("s", 3)})), W_(7), ("sigma", W_(2), frozenset({("r", 17), ("r", 19), ("s", 10)}))])
                        sched_seen.append(symjs.show(val))
                        if val == exp:
                            sched_ok = True
            rep.ob("C13.1", "schedule/recurrence", sched_ok,
                   "the message schedule must be W[j] = W[j-16] + sigma0(W[j-15]) + W[j-7] + sigma1(W[j-2]) with sigma0 = rotr7^rotr18^shr3, sigma1 = rotr17^rotr19^shr10 (found %s)" % (sched_seen or "no four-term store into the schedule array"),
                   mod.loc(pc_orig), sample={"schedule": sched_seen[:1]})
        # ---- feed-forward: this.h_k = this.h_k + working_k
        body_ = pc["body"]["stmts"]
        after, seen_loop = [], False
        for st in body_:
            if any(x is round_loop for x in walk(st)):
                seen_loop = True
            elif seen_loop:
                after.append(st)
        sy3 = symjs.Sym(_CONSTS, rot)
        ff = {t_[1]: v_ for t_, v_, _n in sy3.run(after) if t_[0] == "var"}
        okff = all(ff.get("this." + sf) == mk_sum([("var", "this." + sf), ("var", wv[i_])]) for i_, sf in enumerate(state_fields))
        rep.ob("C13.1", "feed-forward", okff, "each state word must be increased by its working variable in order a..h (found %s)" % {k_: symjs.show(v_) for k_, v_ in ff.items()}, mod.loc(pc_orig))
    # every call of the compression function is handed exactly one 64-byte block
    pc_name = [mn for mn, m in w.methods.items() if m["function"] is pc_orig][0]
    buf64 = set()
    for fn, node in w.fields.items():
        v = unparen(node["value"]) if node.get("value") is not None else None
        if v is not None and v.get("type") == "NewExpression" and s(v["callee"]) == "Uint8Array" and v.get("arguments") and num(v["arguments"][0]["expression"]) == 64:
            buf64.add(fn)
    n_pc = 0
    for mname, m in w.methods.items():
        for n in walk(m["function"]):
            if n["type"] == "CallExpression" and s(n["callee"]) == "this." + pc_name:
                n_pc += 1
                a = unparen(n["arguments"][0]["expression"])
                ok = s(a).startswith("this.") and s(a)[5:] in buf64
                mc = method_call(a)
                if mc and mc[1] == "subarray" and len(mc[2]) == 2:
                    lo, hi = s(mc[2][0]), s(mc[2][1])
                    h = unparen(mc[2][1])
                    plus64 = h.get("type") == "BinaryExpression" and h["operator"] == "+" and (
                        (s(h["left"]) == lo and num(h["right"]) == 64) or (s(h["right"]) == lo and num(h["left"]) == 64))
                    ok = plus64 or (num(mc[2][0]) == 0 and num(mc[2][1]) == 64)
                rep.ob("C13.1", "chunk-is-64-bytes/%s" % mname, ok,
                       "%s hands `%s` to the compression function: it must be the 64-byte block buffer or `x.subarray(p, p + 64)`; a shorter view is read past its end and the missing bytes are hashed as zeros" % (mname, s(a)),
                       mod.loc(n), sample={"caller": mname, "argument": s(a)})
    rep.floor("C13.1", "calls of the compression function", n_pc, 1)
    # word load big-endian
    be = False
    for n in walk(pc):
        if n["type"] == "AssignmentExpression":
            txt = s(n["right"])
            if re.search(r"<<24\)\|\(\w+\[\(\w+\+1\)\]<<16\)\)\|\(\w+\[\(\w+\+2\)\]<<8\)\)\|\w+\[\(\w+\+3\)\]", txt):
                be = True
    rep.ob("C13.1", "big-endian-load", be, "message words must be loaded big-endian: (c[j]<<24)|(c[j+1]<<16)|(c[j+2]<<8)|c[j+3]", mod.loc(pc))
    # padding / length
    dg = None
    for mname, m in w.methods.items():
        if any((n["type"] == "NumericLiteral" and int(n["value"]) == 0x80) or (n["type"] == "Identifier" and _CONSTS.get(n["value"]) == 0x80) for n in walk(m["function"])):
            dg = m["function"]
    if dg is not None:
        dg = tsast.flatten_fn(mod, "Hash256Writer", dg, depth=3, only=lambda H, call: H is not pc_orig)
    if dg is None:
        rep.ob("C13.1", "pad-byte", False, "no method appends the 0x80 padding byte", mod.loc(w.node))
    else:
        rep.ob("C13.1", "pad-byte", True, sample={"pad": "0x80"})
        thr = None
        for n in walk(dg):
            if n["type"] == "IfStatement":
                t = unparen(n["test"])
                if t["type"] == "BinaryExpression" and num(t["right"]) is not None and ("ufferLength" in s(t["left"]) or num(t["right"]) in (55, 56, 57)):
                    op, k = t["operator"], num(t["right"])
                    thr = (op, k)
        ok = thr in ((">", 56), (">=", 57))
        rep.ob("C13.1", "pad-threshold", ok, "after the 0x80 byte an extra block is needed exactly when more than 56 bytes are buffered (found `%s %s`)" % (thr or ("?", "?")), mod.loc(dg),
               sample={"threshold": thr})
        idx = {}
        for n in walk(dg):
            if n["type"] == "AssignmentExpression" and n["left"]["type"] == "MemberExpression" and n["left"]["property"]["type"] == "Computed":
                i = num(n["left"]["property"]["expression"])
                if i is not None and 56 <= i <= 63:
                    idx[i] = s(n["right"])
        okl = sorted(idx) == list(range(56, 64))
        if okl:
            hi = [idx[i] for i in range(56, 60)]
            lo = [idx[i] for i in range(60, 64)]
            def shifts(xs):
                out = []
                for x in xs:
                    m = re.search(r">>>(\d+)", x)
                    out.append(int(m.group(1)) if m else 0)
                return out
            okl = shifts(hi) == [24, 16, 8, 0] and shifts(lo) == [24, 16, 8, 0] and len({re.sub(r"[^A-Za-z]", "", x) for x in hi}) == 1 and \
                re.sub(r"[^A-Za-z]", "", hi[0]) != re.sub(r"[^A-Za-z]", "", lo[0])
        rep.ob("C13.1", "length-field", okl, "the 64-bit big-endian bit length must occupy bytes 56..63 (found %s)" % idx, mod.loc(dg), sample={"bytes": idx})
        dal = ts_common.local_aliases(dg)
        times8 = {k for k, v in dal.items() if "*8" in s(v) and "4294967296" not in s(v) and ">>>" not in s(v)}

        def expand(txt):
            for k in times8:
                txt = re.sub(r"(?<![\w.])%s(?![\w])" % re.escape(k), "(" + s(dal[k]) + ")", txt)
            return txt
        bl = [expand(s(n["init"])) for n in walk(dg) if n["type"] == "VariableDeclarator" and n.get("init") is not None and n["id"].get("value") not in times8
              and "*8" in expand(s(n["init"]))]
        rep.ob("C13.1", "bit-length", len(bl) == 2 and any("4294967296" in x for x in bl) and any(">>>0" in x for x in bl),
               "bit length = bytes*8 split into high (/2^32) and low (>>>0) words (found %s)" % bl, mod.loc(dg))
    # ---------------------------------------------------------------- C13.3 (writer primitives)
    rep.rule("C13.3", "prefix-free framing")
    # private writer primitives, discovered by role (their names are the maintainers' business):
    #   bytes_w  - the method (one parameter) that feeds the block buffer: it calls the compression function
    #   byte_w   - hands bytes_w a one-element Uint8Array.of(param)
    #   u32_w    - hands bytes_w a four-element Uint8Array.of(..) (big-endian word)
    #   utf8_w   - encodes its parameter, then u32_w(length), then bytes_w(bytes)
    def this_calls(fn):
        out = []
        fn = tsast.flatten_fn(mod, "Hash256Writer", fn, depth=2, only=lambda H, call: not H.get("params"))
        for n in walk(fn):
            if n["type"] == "CallExpression":
                mc = method_call(n)
                if mc and s(mc[0]) == "this":
                    out.append((mc[1], mc[2], n))
        return out
    priv = {mn: m for mn, m in w.methods.items() if m["function"].get("body") is not None and mn != pc_name}
    bytes_w = [mn for mn, m in priv.items() if len(m["function"]["params"]) == 1 and any(c[0] == pc_name for c in this_calls(m["function"]))
               and not any(nn["type"] == "CallExpression" and s(nn["callee"]).endswith(".encode") for nn in walk(m["function"]))]
    # (the finalisation also calls the compression function but takes no parameter)
    byte_w = u32_w = utf8_w = None
    if len(bytes_w) > 1:
        # a single-byte writer may store its byte in the block buffer itself (and compress a full block) instead of
        # wrapping it into a one-element array (seed C13-q and its benign twin b107): told apart by the parameter's
        # declared type - the block feeder takes the byte array, the single-byte writer a number
        def ptype(mn):
            p0 = priv[mn]["function"]["params"][0]
            pat = p0.get("pat", p0)
            ta = pat.get("typeAnnotation") or {}
            return tsast.type_str(ta.get("typeAnnotation") or ta)
        direct_byte = [mn for mn in bytes_w if ptype(mn) == "number"]
        bytes_w = [mn for mn in bytes_w if mn not in direct_byte]
        if len(direct_byte) == 1:
            byte_w = direct_byte[0]
    bytes_w = bytes_w[0] if len(bytes_w) == 1 else None

    def of_len(arg):
        a = unparen(arg)
        if a.get("type") == "CallExpression" and s(a["callee"]) in ("Uint8Array.of", "Uint8Array.from"):
            if s(a["callee"]) == "Uint8Array.of":
                return len(a["arguments"])
            inner = unparen(a["arguments"][0]["expression"]) if a["arguments"] else {}
            if inner.get("type") == "ArrayExpression":
                return len(inner["elements"])
        if a.get("type") == "NewExpression" and s(a["callee"]) == "Uint8Array" and a.get("arguments"):
            inner = unparen(a["arguments"][0]["expression"])
            if inner.get("type") == "ArrayExpression":
                return len(inner["elements"])
            if num(inner) is not None:
                return num(inner)          # new Uint8Array(4), filled in afterwards
        return None
    for mn, m in priv.items():
        tc = this_calls(m["function"])
        if bytes_w and len(tc) == 1 and tc[0][0] == bytes_w and tc[0][1]:
            arg_ = unparen(tc[0][1][0])
            al_ = ts_common.local_aliases(m["function"])
            if arg_.get("type") == "Identifier" and arg_["value"] in al_:
                arg_ = al_[arg_["value"]]
            k = of_len(arg_)
            if k == 1:
                byte_w = mn
            elif k == 4:
                u32_w = mn
    # A text writer may also take the TYPE BYTE of the payload as a parameter and write it itself, in front of the
    # length (b104: updateTag / updateString / updateNumber share `updateMarkedText(marker, text)`, into which the
    # length-prefixed writer was inlined: byte_w(marker); encode; u32_w(length); bytes_w(bytes)).  `marked` maps such a
    # method - and a private helper that is byte_w(<own parameter>) followed by the text writer - to the position of
    # that parameter: at its call sites the argument at this position is the type byte.
    marked = {}

    def marker_pos(m, tcm):
        a0 = unparen(tcm[0][1][0]) if tcm and tcm[0][0] == byte_w and tcm[0][1] else {}
        ps = ts_common.fn_params(m["function"])
        return ps.index(a0["value"]) if a0.get("type") == "Identifier" and a0["value"] in ps else None
    for mn, m in priv.items():
        tcm = this_calls(m["function"])
        tc = [c[0] for c in tcm]
        if not (u32_w and bytes_w and any(nn["type"] == "CallExpression" and s(nn["callee"]).endswith(".encode") for nn in walk(m["function"]))):
            continue
        if tc[:2] == [u32_w, bytes_w]:
            utf8_w = mn
        elif byte_w and tc[:3] == [byte_w, u32_w, bytes_w] and marker_pos(m, tcm) is not None:
            utf8_w = mn
            marked[mn] = marker_pos(m, tcm)
    for mn, m in priv.items():
        tcm = this_calls(m["function"])
        if utf8_w and utf8_w not in marked and m.get("accessibility") == "private" and [c[0] for c in tcm] == [byte_w, utf8_w] and marker_pos(m, tcm) is not None:
            marked[mn] = marker_pos(m, tcm)
    rep.ob("C13.3", "writer/roles", all([bytes_w, byte_w, u32_w, utf8_w]),
           "could not identify the writer's primitives (block feeder %s, single byte %s, big-endian word %s, length-prefixed text %s)" % (bytes_w, byte_w, u32_w, utf8_w),
           mod.loc(w.node), sample={"block_feeder": bytes_w, "byte": byte_w, "uint32": u32_w, "length_prefixed_utf8": utf8_w})
    tagbytes = {}
    publics = {mn: m for mn, m in priv.items() if m.get("accessibility") != "private" and mn not in (bytes_w, byte_w, u32_w, utf8_w) and mn not in marked
               and any(c[0] == byte_w or c[0] in marked for c in this_calls(m["function"]))}
    for mname, m in publics.items():
        bs = []
        for cname_, args_, node_ in this_calls(m["function"]):
            tb_ = 0 if cname_ == byte_w else marked.get(cname_)      # where the type byte is among the arguments
            if tb_ is not None and len(args_) > tb_:
                for x in walk(args_[tb_]):
                    if x["type"] == "NumericLiteral":
                        bs.append(int(x["value"]))
                    elif x["type"] == "Identifier" and x["value"] in _CONSTS:
                        bs.append(_CONSTS[x["value"]])
        tagbytes[mname] = bs
    allb = [b for bs in tagbytes.values() for b in bs]
    rep.ob("C13.3", "writer/type-bytes-distinct", len(allb) == len(set(allb)) and all(tagbytes.values()) and len(tagbytes) >= 4,
           "every public write primitive must start with its own type byte (found %s)" % tagbytes, mod.loc(w.node), sample={"type_bytes": tagbytes})
    for mname, m in sorted(publics.items()):
        tc = [c[0] for c in this_calls(m["function"])]
        payload = [c for c in tc if c != byte_w]
        has_param = len(m["function"]["params"]) >= 1 and any(
            x["type"] == "Identifier" and x["value"] == (ts_common.fn_params(m["function"]) or [None])[0]
            for c in this_calls(m["function"]) if c[0] != byte_w for a_ in c[1] for x in walk(a_))
        if not payload:
            continue
        rep.ob("C13.3", "writer/%s-length-prefixed" % mname, all(c == utf8_w or c in marked for c in payload),
               "%s writes a variable-length payload through %s: it must go through the length-prefixed text writer, otherwise two different sequences of writes give the same byte stream" % (mname, payload), mod.loc(m))
    lp = w.methods.get(utf8_w) if utf8_w else None
    if lp:
        calls = [c[0] for c in this_calls(lp["function"])]
        if utf8_w in marked and calls[:1] == [byte_w]:
            calls = calls[1:]          # the type byte it writes first on behalf of its callers (b104)
        rep.ob("C13.3", "writer/length-before-bytes", calls[:2] == [u32_w, bytes_w], "the byte length must be written before the bytes (calls %s)" % calls, mod.loc(lp))
    # ---------------------------------------------------------------- C13.9
    rep.rule("C13.9", "the orders the digests are computed in are total and do not depend on the host")
    digest_order_rule(cx, rep, "C13.9")
    # ---------------------------------------------------------------- C13.11
    one_stream_rule(cx, rep, "C13.11")
    # ---------------------------------------------------------------- C13.12
    commutative_member_order_rule(cx, rep, "C13.12")
    # ---------------------------------------------------------------- C13.10
    rep.rule("C13.10", "hash() / hash256() keep no state on the validator instances (their value depends on the hash context)")
    from rules.c16 import instance_state_rule
    _m13 = ts_common.Family(cx).mod
    instance_state_rule(_m13, None, rep, "C13.10", roots=("hash", "hash256"), what="hash() / hash256()", floor=30,
                        why="inside a reference cycle the value computed for a node depends on which names the hash context has already seen; a value stored on the (shared) instance is replayed under another context, so the digest of a type depends on which parsers were hashed before")
    # ---------------------------------------------------------------- C13.8
    rep.rule("C13.8", "text reaches the digest as the UTF-8 encoding of the whole string")
    # `TextEncoder.encodeInto(s, dest)` stops at the last whole character that fits into dest and reports how much it
    # read - it never throws.  A writer that encodes into a fixed scratch buffer digests a PREFIX of long strings (a
    # guard on `s.length` counts UTF-16 units, not bytes), so two types that differ only in the tail of a long literal,
    # property name or pattern share a digest.  Decided: hash.ts contains no bounded-destination encoding call.
    def bounded_encodes(m_):
        return [x for x in walk(m_.module) if x["type"] == "CallExpression" and method_call(x) and method_call(x)[1] == "encodeInto"]
    be = bounded_encodes(mod)
    for x in be:
        rep.ob("C13.8", "encodeInto#%d" % be.index(x), False,
               "hash.ts encodes text with encodeInto(..) into a fixed-size destination: characters that do not fit are silently dropped, so the digest covers only a prefix of long (non-ASCII) strings and validators that differ in the rest collide", mod.loc(x))
    rep.ob("C13.8", "scan", True, sample={"bounded_destination_encodings": len(be)})
    try:
        cm_ = cx.ts("canary/ts/encode.ts")
        rep.ob("C13.8", "control/canary-encodeInto", len(bounded_encodes(cm_)) == 1, "positive control: canary/ts/encode.ts must yield one encodeInto call", "canary/ts/encode.ts")
    except Exception as e:
        rep.ob("C13.8", "control/canary-encodeInto", False, "positive control could not be evaluated: %s" % e, "canary/ts/encode.ts")
    # ---------------------------------------------------------------- C13.6
    rep.rule("C13.6", "the writer's position advances by the number of bytes of every write")
    # A recursive reference is encoded as the stream position at which its target began (BaseRefRuntype.hash256 reads
    # a number-valued getter of the writer).  That identifies the target only if the position grows with EVERY byte
    # written: a counter that is advanced when a 64-byte block is compressed gives all targets that begin in the same
    # block the same id, and two recursive types that differ in which enclosing type a back-edge points to collide.
    # Decided: for every getter of the writer, the fields it reads (F): (a) in the block feeder some field of F is
    # increased by an amount derived from the feeder's argument (its length, a slice of it), and (b) a field of F
    # that the feeder resets or advances by a constant does so next to an update of another field of F (the two-counter
    # form `blocks * 64 + pending`), never alone.
    n_get = 0
    feeder = w.methods.get(bytes_w) if bytes_w else None
    for gname, gm in sorted(w.methods.items()):
        if gm.get("kind") != "getter" or gm["function"].get("body") is None:
            continue
        F_ = set(ts_common.this_fields_read(gm["function"]))
        if not F_ or feeder is None:
            continue
        ffn = tsast.flatten_fn(mod, "Hash256Writer", feeder["function"], depth=2, only=lambda H, call: not H.get("params"))
        T = ts_common.taint(ffn, [ts_common.fn_params(ffn)[0]])
        derived, const_alone = [], []
        def upd_blocks(fn):
            out = []
            for blk in walk(fn):
                if blk["type"] != "BlockStatement":
                    continue
                ups = []
                for st in blk["stmts"]:
                    if st["type"] != "ExpressionStatement":
                        continue
                    e = unparen(st["expression"])
                    if e["type"] == "AssignmentExpression" and s(e["left"]).startswith("this."):
                        ups.append((s(e["left"])[5:], e["operator"], e["right"], e))
                    elif e["type"] == "UpdateExpression" and s(e["argument"]).startswith("this."):
                        ups.append((s(e["argument"])[5:], "++", None, e))
                out.append(ups)
            return out
        for ups in upd_blocks(ffn):
            inF = [u for u in ups if u[0] in F_]
            for fld, op, rhs, node in inF:
                if op in ("+=",) and rhs is not None and ts_common.mentions(rhs, T):
                    derived.append(fld)
                elif len({u[0] for u in inF}) < 2:
                    const_alone.append((fld, node))
        n_get += 1
        ok = bool(derived) and not [c for c in const_alone if c[0] not in derived]
        rep.ob("C13.6", "writer/%s" % gname, ok,
               "the position getter `%s` of the digest writer reads {%s}, which the block feeder `%s` %s: the position is not the number of bytes written so far, so the back-reference ids that hash256 derives from it coincide for different targets and recursive types that disagree on values get the same digest" % (
                   gname, ", ".join(sorted(F_)), bytes_w, "never advances by the length of what it is given" if not derived else "also resets / advances by a constant on its own (%s)" % ", ".join(sorted({c[0] for c in const_alone}))),
               mod.loc(gm), sample={"getter": gname, "fields": sorted(F_), "advanced_by_input_length": sorted(set(derived))})
    rep.floor("C13.6", "number-valued getters of the digest writer", n_get, 1)
    # per class
    fam = ts_common.Family(cx)
    cm = fam.mod
    tags = {}
    rep.rule("C13.2", "field coverage of hash256()")
    table = cx.table("c13_derived_fields.json")["params"]
    tabled = {(e["class"], e["param"]) for e in table}
    derived = set()   # legacy (class, "<leading-tag>") markers: none
    n_cls = 0
    for cname, c in sorted(fam.classes.items()):
        defc, m = fam.resolve_method(cname, "hash256")
        if m is None or c.is_abstract and "hash256" not in c.methods:
            continue
        if "hash256" not in c.methods:
            continue
        fn = m["function"]
        if fn.get("body") is None:
            continue
        n_cls += 1
        # leading tag
        first = None
        for st in fn["body"]["stmts"]:
            if st["type"] == "ExpressionStatement":
                mc = method_call(st["expression"])
                if mc and mc[1] == "updateTag" and mc[2] and unparen(mc[2][0])["type"] == "StringLiteral":
                    first = unparen(mc[2][0])["value"]
            break
        all_tags = [unparen(method_call(n)[2][0])["value"] for n in walk(fn) if n["type"] == "CallExpression" and method_call(n) and method_call(n)[1] == "updateTag"
                    and method_call(n)[2] and unparen(method_call(n)[2][0])["type"] == "StringLiteral"]
        delegating = not all_tags and any(method_call(n) and method_call(n)[1] == "hash256" for n in walk(fn) if n["type"] == "CallExpression")
        if delegating:
            # a wrapper that writes nothing of its own is sound only if it is transparent for validation as well: its
            # validate() must be nothing but the child's validate() (an alias); a wrapper that accepts or rejects
            # anything by itself (optional, nullable, refinement) and leaves no mark in the encoding makes two
            # validators that disagree share a digest
            _, vm = fam.resolve_method(cname, "validate")
            transparent = False
            if vm is not None and vm["function"].get("body") is not None:
                stmts = [st for st in vm["function"]["body"]["stmts"] if st["type"] != "VariableDeclaration"]
                if len(stmts) == 1 and stmts[0]["type"] == "ReturnStatement" and stmts[0].get("argument") is not None:
                    mcv = method_call(stmts[0]["argument"])
                    vps = ts_common.fn_params(vm["function"])
                    transparent = bool(mcv) and mcv[1] == "validate" and [s(a) for a in mcv[2]] == vps[:2]
            rep.ob("C13.3", "%s/silent-wrapper-is-transparent" % cname, transparent,
                   "%s.hash256 writes nothing of its own and only forwards to a child, but %s.validate is not a plain forward: what the wrapper adds to or removes from the accepted values is invisible in the digest" % (cname, cname),
                   cm.loc(fn), sample={"class": cname, "validate_is_plain_forward": transparent})
        if first is None and not delegating and not (cname, "<leading-tag>") in derived:
            # a class may branch first (e.g. Nullish writes one of several tags): accept when every path starts with a tag
            starts = all_tags
            rep.ob("C13.3", "%s/leading-tag" % cname, bool(starts), "%s.hash256 writes no tag: its encoding can be confused with another class's" % cname, cm.loc(fn))
        for t in set(all_tags):
            tags.setdefault(t, set()).add(cname)
        # field coverage
        reads = ts_common.this_fields_read(fn, cm, cname)
        for fname, (owner, ann) in sorted(fam.all_fields(cname).items()):
            if fname == "metadata":
                continue
            ok = fname in reads
            why = None
            if not ok:
                # which constructor parameters is the field computed from?  It is covered when each of them is stored
                # in a field that IS read, or is tabled (class, position) with a reason
                oc = fam.classes.get(owner) or c
                pnames = [p[0] for p in oc.ctor_params()]
                rhs = oc.ctor_assignments().get(fname)
                if rhs is None and fname in pnames:
                    srcs = [fname]           # parameter property
                else:
                    srcs = sorted({x["value"] for x in walk(rhs) if x["type"] == "Identifier" and x["value"] in pnames}) if rhs is not None else []
                def covered(pn):
                    if (owner, pnames.index(pn)) in tabled or (cname, pnames.index(pn)) in tabled:
                        return "tabled"
                    for f2, r2 in oc.ctor_assignments().items():
                        if f2 != fname and f2 in reads and unparen(r2).get("type") == "Identifier" and unparen(r2)["value"] == pn:
                            return "stored in %s (hashed)" % f2
                    return None
                if srcs and all(covered(pn) for pn in srcs):
                    ok = True
                    why = {pn: covered(pn) for pn in srcs}
            rep.ob("C13.2", "%s.%s" % (cname, fname) if fname in reads else "%s#%s" % (cname, "+".join(str(x) for x in (sorted(why) if why else [fname]))), ok,
                   "%s.hash256 does not read the constructor field `%s` (nor is the field computed only from constructor parameters that are hashed through another field): two validators that differ only there get the same digest" % (cname, fname), cm.loc(fn),
                   sample={"class": cname, "field": fname, "covered_by": why or "read by hash256"})
        # loops preceded by a length write
        check_loops(rep, cm, cname, fn)
        # optional parts tagged on both branches
        for n in walk(fn):
            if n["type"] == "IfStatement" and n.get("alternate") is not None:
                wc = [x for x in walk(n["consequent"]) if x["type"] == "CallExpression" and method_call(x) and method_call(x)[1].startswith("update")]
                wa = [x for x in walk(n["alternate"]) if x["type"] == "CallExpression" and method_call(x) and method_call(x)[1].startswith("update")]
                if wc or wa:
                    rep.ob("C13.3", "%s/both-branches-tagged" % cname, bool(wc) and bool(wa),
                           "%s.hash256: an optional part is written on one branch only; absence must be encoded too" % cname, cm.loc(n))
            if n["type"] == "IfStatement" and n.get("alternate") is None:
                wc = [x for x in walk(n["consequent"]) if x["type"] == "CallExpression" and method_call(x) and (method_call(x)[1].startswith("update") or method_call(x)[1] == "hash256")]
                rets = [x for x in walk(n["consequent"]) if x["type"] == "ReturnStatement"]
                if wc and not rets:
                    rep.ob("C13.3", "%s/both-branches-tagged" % cname, False,
                           "%s.hash256: an optional part is written under `if` without an else branch; absence must be encoded too" % cname, cm.loc(n))
            # the same through expression-level conditionals: `this.rest?.hash256(ctx)`, `x && x.hash256(ctx)`,
            # `c ? w.updateTag(..) : undefined`
            def writes(e_):
                return [x for x in walk(e_) if x["type"] == "CallExpression" and method_call(x) and (method_call(x)[1].startswith("update") or method_call(x)[1] == "hash256")]
            if n["type"] == "OptionalChainingExpression" and n.get("base", {}).get("type") == "CallExpression" and re.search(r"\?\.\s*(hash256|update\w*)\s*\(|\.(hash256|update\w*)\s*\?\.\s*\(", cm.text(n) or ""):
                rep.ob("C13.3", "%s/both-branches-tagged" % cname, False,
                       "%s.hash256: an optional part is written through optional chaining (`%s`): when it is absent nothing is written, so the encoding of the absent case is a prefix of other encodings; absence must be encoded too" % (cname, s(n)[:50]), cm.loc(n))
            if n["type"] == "BinaryExpression" and n["operator"] in ("&&", "||", "??") and writes(n["right"]):
                rep.ob("C13.3", "%s/both-branches-tagged" % cname, False,
                       "%s.hash256: an optional part is written under a short-circuit operator (`%s`); absence must be encoded too" % (cname, s(n)[:50]), cm.loc(n))
            if n["type"] == "ConditionalExpression" and (bool(writes(n["consequent"])) != bool(writes(n["alternate"]))):
                rep.ob("C13.3", "%s/both-branches-tagged" % cname, False,
                       "%s.hash256: an optional part is written on one branch of `?:` only; absence must be encoded too" % cname, cm.loc(n))
    rep.floor("C13.2", "classes with hash256()", n_cls, 20)
    for t, cs in sorted(tags.items()):
        rep.ob("C13.3", "tag/%s" % t, len(cs) == 1, "tag %r is written by several classes %s: their encodings are not prefix-free" % (t, sorted(cs)), cm.rel,
               sample={"tag": t, "class": sorted(cs)})
    # ---------------------------------------------------------------- C13.4
    rep.rule("C13.4", "name-free, order-free digests; cycle bookkeeping paired")
    ts_common.digest_structure_rules(cx, rep, "C13.4")
    for cname, c in sorted(fam.classes.items()):
        if "hash256" in c.methods:
            fn = c.methods["hash256"]["function"]
            sets = [n for n in walk(fn) if n["type"] == "CallExpression" and method_call(n) and s(method_call(n)[0]).endswith(".active") and method_call(n)[1] == "set"]
            dels = [n for n in walk(fn) if n["type"] == "CallExpression" and method_call(n) and s(method_call(n)[0]).endswith(".active") and method_call(n)[1] == "delete"]
            if sets or dels:
                rec = [n for n in walk(fn) if n["type"] == "CallExpression" and method_call(n) and method_call(n)[1] == "hash256"]
                ok = len(sets) == 1 and len(dels) == 1 and len(rec) == 1 and sets[0]["span"]["start"] < rec[0]["span"]["start"] < dels[0]["span"]["start"] and \
                    s(sets[0]["arguments"][0]["expression"]) == s(dels[0]["arguments"][0]["expression"])
                rep.ob("C13.4", "%s/cycle-pairing" % cname, ok, "%s.hash256: ctx.active must be set before and deleted after the recursive call, for the same key" % cname, cm.loc(fn),
                       sample={"class": cname, "set/recurse/delete": ok})
                gets = [n for n in walk(fn) if n["type"] == "CallExpression" and method_call(n) and s(method_call(n)[0]).endswith(".active") and method_call(n)[1] == "get"]
                rep.ob("C13.4", "%s/cycle-check-first" % cname, len(gets) == 1 and gets[0]["span"]["start"] < sets[0]["span"]["start"], "%s.hash256 must test ctx.active before descending" % cname, cm.loc(fn))
    # ---------------------------------------------------------------- C13.5
    rep.rule("C13.5", "hash() / hash256() read every constructor argument they read on the reviewed tree")
    ts_common.field_matrix_rule(cx, rep, "C13.5", ['hash', 'hash256'])
    # ---------------------------------------------------------------- C13.7
    rep.rule("C13.7", "hash() / hash256(): every element of an array-valued constructor argument is accounted for (no fixed-size prefix)")
    ts_common.truncation_rule(cx, rep, "C13.7", ['hash', 'hash256'])


def check_loops(rep, cm, cname, fn):
    """every for..of / forEach over a collection in hash256 is preceded, in the same block, by a
    write of that collection's length"""
    def blocks(n):
        for x in walk(n):
            if x["type"] == "BlockStatement":
                yield x["stmts"]
    for stmts in blocks(fn["body"]):
        for i, st in enumerate(stmts):
            coll = None
            if st["type"] == "ForOfStatement":
                coll = s(st["right"])
            elif st["type"] == "ExpressionStatement":
                mc = method_call(st["expression"])
                if mc and mc[1] == "forEach":
                    coll = s(mc[0])
            if coll is None:
                continue
            body_writes = any(x["type"] == "CallExpression" and method_call(x) and (method_call(x)[1].startswith("update") or method_call(x)[1] == "hash256" or "hash256" in s(x["callee"]))
                              for x in walk(st))
            if not body_writes:
                continue
            ok = False
            for prev in stmts[:i]:
                for x in walk(prev):
                    if x["type"] == "CallExpression" and method_call(x) and method_call(x)[1] == "updateNumber":
                        a = s(method_call(x)[2][0])
                        if a in (coll + ".length", coll + ".size"):
                            ok = True
            rep.ob("C13.3", "%s/length-prefix" % cname, ok,
                   "%s.hash256 writes the elements of `%s` without first writing its length: [a,b]+[c] and [a]+[b,c] would encode alike" % (cname, coll), cm.loc(st),
                   sample={"class": cname, "collection": coll})



def digest_order_rule(cx, rep, rid):
    """hash() and hash256() make member order irrelevant by SORTING (formats, keys, literal members) before they fold
    or write.  That only works if the order is total and a function of the values alone:
      (a) `x.localeCompare(y)` with one argument collates in the HOST's default locale - the digest of
          `"a" | "B"` then depends on the machine; with any locale it still calls canonically equivalent strings
          ("\u00e9", "e\u0301") equal, so a comparator that returns its result without a fallback is not total and
          the (stable) sort keeps the order the members were listed in;
      (b) `.sort()` without a comparator orders by string form: 1 and "1", null and "null" tie.  It is only total on
          arrays of strings.
    Decided over hash / hash256 of every runtime class and the module functions they call (both files): no
    single-argument localeCompare; a comparator whose value is a localeCompare call has a `||` fallback; a default
    sort is applied only to arrays of strings (string[] fields, Object.keys(..))."""
    fam = ts_common.Family(cx)
    mods = [fam.mod, cx.ts(HASH_TS)]
    scopes = []
    for cname, c in sorted(fam.classes.items()):
        for mn in ("hash", "hash256"):
            if mn in c.methods and c.methods[mn]["function"].get("body") is not None:
                scopes.append(("%s.%s" % (cname, mn), c.methods[mn]["function"], fam.mod, cname))
    # module functions reachable from those methods (by name, both modules), two levels
    names = {}
    for m_ in mods:
        for fnm, d in m_.functions.items():
            if d.get("body") is not None:
                names[fnm] = (d, m_)
    seen = set()
    seen_m = {id(sc[1]) for sc in scopes}
    owner_of = {id(sc[1]): sc[3] for sc in scopes}
    work = [sc[1] for sc in scopes]
    for _ in range(3):
        nxt = []
        for fn in work:
            for x in walk(fn):
                if x["type"] == "CallExpression" and unparen(x["callee"]).get("type") == "Identifier":
                    nm = unparen(x["callee"])["value"]
                    if nm in names and nm not in seen:
                        seen.add(nm)
                        scopes.append((nm, names[nm][0], names[nm][1], None))
                        nxt.append(names[nm][0])
                elif x["type"] == "CallExpression" and unparen(x["callee"]).get("type") == "MemberExpression" and unparen(unparen(x["callee"])["object"]).get("type") == "ThisExpression":
                    # a private helper method of the class (`this.sortedFormats()`)
                    r_ = tsast.resolve_local_call(fam.mod, owner_of.get(id(fn)), x) if owner_of.get(id(fn)) else None
                    if r_ is not None and id(r_[0]) not in seen_m:
                        seen_m.add(id(r_[0]))
                        owner_of[id(r_[0])] = r_[1] or owner_of.get(id(fn))
                        scopes.append(("%s.%s" % (owner_of[id(r_[0])], s(unparen(x["callee"])["property"])), r_[0], fam.mod, owner_of[id(r_[0])]))
                        nxt.append(r_[0])
                elif x["type"] == "Identifier" and x["value"] in names and x["value"] not in seen:
                    # a function passed by name (`.sort(compareConst)`)
                    seen.add(x["value"])
                    scopes.append((x["value"], names[x["value"]][0], names[x["value"]][1], None))
                    nxt.append(names[x["value"]][0])
        work = nxt
    n_sorts = 0
    for name, fn, m_, cname in scopes:
        for x in walk(fn):
            if x["type"] != "CallExpression":
                continue
            mc = method_call(x)
            if not mc:
                continue
            if mc[1] == "localeCompare":
                n_sorts += 1
                rep.ob(rid, "%s/localeCompare-locale" % name, len(mc[2]) >= 2,
                       "%s orders values for a digest with `%s`: without a locale argument the collation is the host's default one, so the digest of the same type differs between machines" % (name, s(x)[:60]),
                       m_.loc(x), sample={"where": name, "call": s(x)[:60]})
                # totality: the comparison result must not be returned / used as the comparator's value on its own
                par_ok = False
                for y in walk(fn):
                    if y["type"] == "BinaryExpression" and y["operator"] in ("||", "??") and any(z is x for z in walk(y["left"])):
                        par_ok = True
                rep.ob(rid, "%s/localeCompare-total" % name, par_ok,
                       "%s uses the result of `%s` as the whole comparison: collation calls canonically equivalent strings equal, the stable sort then keeps them in the order the members were listed, and a union hashes differently depending on member order" % (name, s(x)[:60]),
                       m_.loc(x), sample={"where": name})
            if mc[1] == "sort" and not mc[2]:
                n_sorts += 1
                recv = unparen(mc[0])
                def strings(e, depth=0):
                    e = unparen(e)
                    t = e.get("type")
                    if t == "ArrayExpression":
                        return all(el and el.get("spread") and strings(el["expression"], depth) for el in e["elements"]) if e["elements"] else True
                    if t == "CallExpression":
                        if s(e["callee"]) in ("Object.keys", "Object.getOwnPropertyNames"):
                            return True
                        m2 = method_call(e)
                        if m2 and m2[1] in ("filter", "slice", "concat"):
                            return strings(m2[0], depth)
                        return False
                    if t == "MemberExpression" and s(e).startswith("this.") and cname:
                        ann = fam.all_fields(cname).get(s(e)[5:], (None, None))[1]
                        ty = tsast.type_str(ann) if ann is not None else ""
                        return ty in ("string[]", "Array<string>", "readonly string[]")
                    if t == "Identifier" and depth < 3:
                        al = ts_common.local_aliases(fn)
                        if e["value"] in al:
                            return strings(al[e["value"]], depth + 1)
                        # a parameter declared as an array of strings
                        for p_ in fn.get("params", []):
                            pat = p_.get("pat", p_)
                            if pat.get("type") == "Identifier" and pat.get("value") == e["value"]:
                                ann = (pat.get("typeAnnotation") or {}).get("typeAnnotation")
                                ty = tsast.type_str(ann) if ann is not None else ""
                                return ty in ("string[]", "Array<string>", "readonly string[]", "ReadonlyArray<string>")
                    return False
                ok = strings(recv)
                rep.ob(rid, "%s/default-sort-on-strings" % name, ok,
                       "%s sorts `%s` with the default comparator, which compares string forms: values of different types with the same string form (1 and \"1\", null and \"null\") tie and keep the order the members were listed in, so the hash depends on member order" % (name, s(recv)[:50]),
                       m_.loc(x), sample={"where": name, "sorted": s(recv)[:50]})
    rep.floor(rid, "orderings (sort / localeCompare) in the digest code", n_sorts, 3)


# ---------------------------------------------------------------------------------------------------- C13.11
def one_stream_rule(cx, rep, rid):
    """Back-references of recursive types are written as the OFFSET at which the referenced type's encoding started
    (`active` maps a validator to `writer.bytesWritten`).  Offsets identify a type only inside ONE byte stream: a
    digest context therefore pairs a writer with the table filled from that very writer.  Decided: (1) a function
    that is handed a digest context (a parameter of the context type, i.e. code running INSIDE an encoding) creates
    no new writer; (2) every object literal that builds a digest context takes `writer` and the offset table from
    the same source - both fresh, or both fields of the same enclosing context.  The seeded change C13-l encoded
    each union member with a fresh writer and the inherited table: two different recursive types whose back-edges
    happen to start at the same offset of their member streams got one digest."""
    fam = ts_common.Family(cx)
    mod = fam.mod
    rep.rule(rid, "a digest context pairs a writer with the offset table filled from that writer (no new byte stream inside an encoding)")
    # the context type: the type alias with a field typed as the writer class of hash.ts
    hmod = cx.ts("packages/beff-client/src/hash.ts")
    writers = [cn for cn, c in hmod.classes.items() if any(mn.startswith("update") for mn in c.methods)]
    ctx_types = []
    for tn, t in mod.type_aliases.items():
        mts = [tsast.type_str((m_.get("typeAnnotation") or {}).get("typeAnnotation")) for m_ in ((t.get("typeAnnotation") or {}).get("members") or []) if m_.get("type") == "TsPropertySignature"]
        if any(any(w in x for w in writers) for x in mts) and any("Map<" in x for x in mts):
            ctx_types.append(tn)
    rep.ob(rid, "roles", bool(writers) and len(ctx_types) == 1, "could not identify the digest writer class / the digest context type (writers %s, context types %s)" % (writers, ctx_types), mod.rel,
           sample={"writer_classes": writers, "context_type": ctx_types})
    if not writers or len(ctx_types) != 1:
        return
    ctype = ctx_types[0]
    flds = {}
    ta = mod.type_aliases[ctype].get("typeAnnotation") or {}
    for m in ta.get("members") or []:
        if m.get("type") == "TsPropertySignature":
            k = m["key"].get("value")
            flds[k] = tsast.type_str((m.get("typeAnnotation") or {}).get("typeAnnotation"))
    wf = [k for k, t in flds.items() if any(w in t for w in writers)]
    tf = [k for k, t in flds.items() if "Map<" in t]
    fns = list(mod.functions.items()) + [("%s.%s" % (cn, mn), m["function"]) for cn, c in mod.classes.items() for mn, m in c.methods.items()]
    fns += [(vn, init) for vn, (_k, init, _d) in mod.vars.items() if init is not None and init.get("type") in ("ArrowFunctionExpression", "FunctionExpression")]
    n_lit = 0
    for fname, fn in fns:
        if fn.get("body") is None:
            continue
        inside = False
        for p_ in fn.get("params", []):
            pat = p_.get("pat", p_)
            if pat.get("type") == "Identifier" and tsast.type_str((pat.get("typeAnnotation") or {}).get("typeAnnotation")) == ctype:
                inside = True
        news = [n for n in walk(fn) if n["type"] == "NewExpression" and s(n["callee"]) in writers]
        if inside:
            rep.ob(rid, "%s/no-new-stream" % fname, not news,
                   "%s runs inside an encoding (it is handed a %s) and creates a new %s: offsets recorded in the offset table then come from different byte streams, so a back-reference no longer identifies its target (or, with a fresh table, enclosing types are not recognised and a recursive type never terminates)" % (fname, ctype, "/".join(writers)),
                   mod.loc(news[0]) if news else mod.loc(fn), sample={"fn": fname})
        al = ts_common.local_aliases(fn)
        for o in walk(fn):
            if o["type"] != "ObjectExpression":
                continue
            kv = {}
            for pr in o["properties"]:
                if pr["type"] == "KeyValueProperty":
                    kv[tsast.prop_key(pr["key"])] = unparen(pr["value"])
                elif pr["type"] == "Identifier":
                    kv[pr["value"]] = al.get(pr["value"]) and unparen(al[pr["value"]]) or pr
            if not (wf and tf and wf[0] in kv and tf[0] in kv):
                continue
            n_lit += 1
            def source(e):
                if e.get("type") == "NewExpression":
                    return "fresh"
                if e.get("type") == "MemberExpression":
                    return "of " + s(e["object"])
                if e.get("type") == "Identifier" and e["value"] in al:
                    return source(unparen(al[e["value"]]))
                return s(e)
            a_, b_ = source(kv[wf[0]]), source(kv[tf[0]])
            rep.ob(rid, "%s/context-literal" % fname, a_ == b_,
                   "%s builds a digest context whose writer is %s and whose offset table is %s: the table must hold offsets of that writer's own stream" % (fname, a_, b_),
                   mod.loc(o), sample={"fn": fname, "writer": a_, "table": b_})
    rep.floor(rid, "digest context literals", n_lit, 1)


# ---------------------------------------------------------------------------------------------------- C13.12
def commutative_member_order_rule(cx, rep, rid):
    """Union and intersection are commutative: `A | B` and `B | A` are one type, and the compiler hands the members
    over in an order of its own (a sorted set in which a reference to a named type sorts by the NAME of the type).  A
    digest that writes the members in list order therefore depends on type names and on alias boundaries (`U = A | B`
    with A, B renamed; `U` against the inlined `{..} | {..}`) - confirmed by executing the real runtime under node
    (tools/runjs.py, witness/t_hash_names_1 / _2).  Decided for every class that describes itself by joining its
    member list with ` | ` or ` & `: hash() and hash256() fold the members order-independently - the per-member
    results are collected and sorted before they are written - instead of writing them in list order."""
    fam = ts_common.Family(cx)
    mod = fam.mod
    rep.rule(rid, "the digests of a union / intersection do not depend on the order in which the members are listed")
    n = 0
    for cname, c in sorted(fam.concrete().items()):
        d = c.methods.get("describeTypeExpr")
        if not d or d["function"].get("body") is None:
            continue
        joins = [x for x in walk(d["function"]) if x["type"] == "CallExpression" and method_call(x) and method_call(x)[1] == "join" and method_call(x)[2]
                 and unparen(method_call(x)[2][0]).get("value") in (" | ", " & ")]
        if not joins:
            continue
        # a union that dispatches on a key (a Record<string, Runtype> table next to the member list) is given its
        # members in the order of the keys' values; not shown to depend on names (witness/t_hash_names_3 / _4): not judged
        if any(ann is not None and tsast.type_str(ann).replace(" ", "").startswith("Record<string,Runtype") for _f, (_o, ann) in fam.all_fields(cname).items()):
            continue
        fld = None
        for x in walk(joins[0]):
            if x["type"] == "MemberExpression" and s(x["object"]) == "this" and x["property"].get("type") == "Identifier":
                fld = x["property"]["value"]
        if fld is None:
            continue
        for mname in ("hash", "hash256"):
            m = c.methods.get(mname)
            if not m or m["function"].get("body") is None:
                continue
            fn = tsast.flatten_fn(mod, cname, m["function"])
            n += 1
            loops = [x for x in walk(fn) if x["type"] in ("ForOfStatement", "ForStatement") and ("this.%s" % fld) in s(x.get("right") or x.get("test") or {})]
            iter_calls = [x for x in walk(fn) if x["type"] == "CallExpression" and method_call(x) and method_call(x)[1] in ("map", "forEach", "reduce") and s(method_call(x)[0]) == "this.%s" % fld]
            sorted_ = any(x["type"] == "CallExpression" and method_call(x) and method_call(x)[1] in ("sort", "toSorted") for x in walk(fn))
            ordered = (loops or iter_calls) and not sorted_
            rep.ob(rid, "%s.%s/order-independent" % (cname, mname), not ordered,
                   "%s.%s() writes the members of `this.%s` in list order: the list order is the compiler's (references sort by type name), so the digest of `A | B` changes when A and B are renamed or inlined - `hash256` must not depend on type names or alias boundaries, `hash()` must be equal under member reordering" % (cname, mname, fld),
                   mod.loc(m["function"]), sample={"class": cname, "method": mname, "member_list": fld})
    rep.floor(rid, "digest methods of commutative combinators", n, 2)
