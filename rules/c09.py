"""C09 — splitting declarations across modules does not change the result.

C09.1  binding-table provenance: which syntax field keys the import / export tables
C09.2  identity of named types carries the file (derived Eq/Ord/Hash over all fields)
C09.3  every kind of import that can be re-exported by name is re-exported (no arm drops the export)
C09.4  lossy name mangling: printed names of distinct types must be checked for collisions
"""
import re
import importlib
from facts import walk, walk_inlined, WASM

LEVEL = "other"


def locals_in(n):
    return [x["name"] for x in walk(n) if x["k"] == "Path" and x.get("res") == "local"]


def lids_in(n):
    return [(x["name"], x.get("lid")) for x in walk(n) if x["k"] == "Path" and x.get("res") == "local"]


from facts import children as _children


def value_leaves(e):
    """the expressions `e` may evaluate to: through blocks, match arms and if branches; diverging leaves dropped"""
    if not isinstance(e, dict):
        return []
    k = e["k"]
    if k == "BlockExpr":
        return value_leaves(e["block"])
    if k == "Block":
        return value_leaves(e.get("expr"))
    if k == "DropTemps":
        return value_leaves(e.get("e"))
    if k == "Match":
        return [l for a in e["arms"] for l in value_leaves(a["body"])]
    if k == "If":
        return value_leaves(e["then"]) + value_leaves(e.get("else"))
    if k in ("Ret", "Break", "Continue"):
        return []
    return [e]


class Deriv:
    """syntactic may-derive relation inside one function body: local binding -> set of root names
    (parameters / pattern bindings it is computed from), following `let`, `if let` and match-arm
    bindings.  Bindings are identified by their HIR id, so equally named bindings of different arms
    are kept apart."""

    def __init__(self, tree, tuples=False):
        self.src = {}     # lid -> [init exprs]
        self.by_name = {}
        self.tup_src = {}  # lid -> [(Tup node, component index)] (tuples=True only)
        for n in walk(tree["body"]):
            if n["k"] in ("LetStmt", "Let") and n.get("init") is not None:
                if tuples and self._tuple_let(n):
                    continue
                for b in self.binders(n["pat"]):
                    self.src.setdefault(b, []).append(n["init"])
            if n["k"] == "Match":
                for a in n["arms"]:
                    for b in self.binders(a["pat"]):
                        self.src.setdefault(b, []).append(n["scrut"])

    def binders(self, pat):
        return [x.get("lid") for x in walk(pat) if x["k"] == "P.Binding"]

    def _tuple_let(self, n):
        """`let (a, b) = match s { P => (x, y), Q => continue, .. }` (benign b93): a derives from the first component
        of each tuple the initialiser may evaluate to, b from the second - not both from everything"""
        pat = n["pat"]
        if pat["k"] != "P.Tuple" or pat.get("rest"):
            return False
        leaves = value_leaves(n["init"])
        if not leaves or any(l["k"] != "Tup" or len(l["es"]) != len(pat["pats"]) for l in leaves):
            return False
        for i, p in enumerate(pat["pats"]):
            for b in self.binders(p):
                for l in leaves:
                    self.src.setdefault(b, []).append(l["es"][i])
                    self.tup_src.setdefault(b, []).append((l, i))
        return True

    def closure_nodes(self, expr, depth=0, seen=None):
        """the nodes of expr and of the initialisers of every local it (transitively) mentions"""
        seen = seen if seen is not None else set()
        for x in walk(expr):
            yield x
            if x["k"] == "Path" and x.get("res") == "local" and x.get("lid") in self.src and x.get("lid") not in seen and depth < 8:
                seen.add(x["lid"])
                for e in self.src[x["lid"]]:
                    for y in self.closure_nodes(e, depth + 1, seen):
                        yield y

    def param_roots(self, tree, expr):
        """indices of the parameters of `tree` that expr derives from (by binding id, through let / match-arm bindings)"""
        plids = [[b.get("lid") for b in walk(p) if b["k"] == "P.Binding"] for p in tree.get("params", [])]
        out = set()
        if expr is None:
            return out
        for x in self.closure_nodes(expr):
            if x["k"] == "Path" and x.get("res") == "local":
                out |= {i for i, ps in enumerate(plids) if x.get("lid") in ps}
        return out

    def tag_fields(self, tree, adt_suffix, fields):
        """bindings introduced under field `f` of a struct pattern over `adt_suffix` get the tag f (syntax-field
        provenance that does not depend on what the locals are called)"""
        self.tagged = getattr(self, "tagged", {})
        self.field_adt = adt_suffix
        self.field_names = tuple(fields)
        for n in walk(tree["body"]):
            if n["k"] == "P.Struct" and (n.get("def") or "").endswith(adt_suffix):
                for fl in n["fields"]:
                    if fl["name"] in fields:
                        for b in walk(fl["pat"]):
                            if b["k"] == "P.Binding":
                                self.tagged.setdefault(b.get("lid"), set()).add(fl["name"])

    def tags(self, expr, depth=0, seen=None):
        seen = seen or set()
        out = set()
        if expr is None:
            return out
        for x in walk(expr):
            # a field read `u.renamed` on a value of a tagged struct type carries the field's tag as well
            if x["k"] == "Field" and (x.get("adt") or "").endswith(getattr(self, "field_adt", "\0")) and x["name"] in getattr(self, "field_names", ()):
                out.add(x["name"])
        for name, lid in lids_in(expr):
            out |= getattr(self, "tagged", {}).get(lid, set())
            if lid in self.src and lid not in seen and depth < 8:
                for e in self.src[lid]:
                    out |= self.tags(e, depth + 1, seen | {lid})
        return out

    def roots(self, expr, depth=0, seen=None):
        seen = seen or set()
        out = set()
        if expr is None:
            return out
        for name, lid in lids_in(expr):
            out.add(name)
            if lid in self.src and lid not in seen and depth < 8:
                for e in self.src[lid]:
                    out |= self.roots(e, depth + 1, seen | {lid})
        return out

    def field_paths(self, expr, depth=0, seen=None):
        """`a.b.c` renderings of field chains rooted at locals inside expr, followed through let-aliases"""
        seen = seen or set()
        out = set()
        if expr is None:
            return out
        for n in walk(expr):
            if n["k"] == "Field":
                chain = [n["name"]]
                e = n["e"]
                while e["k"] in ("Field", "Unary", "AddrOf", "MethodCall"):
                    if e["k"] == "Field":
                        chain.append(e["name"])
                        e = e["e"]
                    elif e["k"] == "MethodCall":
                        e = e["recv"]
                    else:
                        e = e["e"]
                if e["k"] == "Path" and e.get("res") == "local":
                    out.add(".".join([e["name"]] + list(reversed(chain))))
        for name, lid in lids_in(expr):
            if lid in self.src and lid not in seen and depth < 6:
                for e in self.src[lid]:
                    out |= self.field_paths(e, depth + 1, seen | {lid})
        return out


def struct_field(node, name):
    for f in node.get("fields", []):
        if f["name"] == name:
            return f["e"]
    return None


def run(cx, rep):
    F = cx.rs
    rep.explanation = (
        "Syntactic provenance over the typed HIR of the import/export binder: for each table write, which pattern-bound "
        "syntax field its key and its payload derive from (local name vs. imported name, original vs. exported name), "
        "following let-bindings; derive facts on the identity types of named types; arm coverage of the re-export "
        "resolution; and a dominating collision check for the lossy file-name mangling. These are necessary conditions "
        "for module layout not to change bindings; equality with the single-file result is not decided.")
    rep.trusted = ["rustc typed HIR / impl facts"]
    # ---------------------------------------------------------------- C09.1
    rep.rule("C09.1", "binding tables are keyed by the right syntax field")
    VIS = "swc_tools::bind_exports::ImportsVisitor"
    iv = [f for f in F.fns.values() if f.name == "visit_import_decl" and (f.impl_self or "").startswith(VIS)]

    def import_inserts(t):
        return [n for n in walk(t["body"]) if n["k"] == "MethodCall" and n["method"] == "insert" and any(x["k"] == "Field" and x["name"] == "imports" for x in walk(n["recv"]))]

    def private_visitor_callee(crate, n, but):
        """the private method of the visitor that the call node n resolves to (None otherwise)"""
        if n["k"] not in ("Call", "MethodCall"):
            return None
        tg = F._callee_gid(crate, (n.get("resolved") or n.get("callee")) or "")
        h = F.fns.get(tg)
        if h is None or tg not in F.hir or tg == but or h.vis == "Public" or not (h.impl_self or "").startswith(VIS):
            return None
        return h

    def binder_summary(b):
        """(insert node, expression in b the key derives from | None) for every store into `imports` that b performs -
        itself, or through a private helper that performs it on b's behalf with the key taken from one of its
        parameters - and the ImportReference variants built on the way"""
        tree = F.hir[b.id]
        keyed = [(c, c["args"][0]) for c in import_inserts(tree)]
        built = {x["def"].rsplit("::", 1)[-1] for x in walk(tree["body"]) if x["k"] == "Struct" and re.search(r"ImportReference::\w+$", x.get("def") or "")}
        for n in walk(tree["body"]):
            h = private_visitor_callee(b.crate, n, b.id)
            if h is None:
                continue
            ht = F.hir[h.id]
            HD = Deriv(ht)
            args = ([n["recv"]] + n["args"]) if n["k"] == "MethodCall" else n["args"]
            ins = import_inserts(ht)
            for c in ins:
                idx = HD.param_roots(ht, c["args"][0]) - {0}
                if len(idx) == 1 and min(idx) < len(args):
                    keyed.append((c, args[min(idx)]))
                else:
                    keyed.append((c, None))
            if ins:
                built |= {x["def"].rsplit("::", 1)[-1] for x in walk(ht["body"]) if x["k"] == "Struct" and re.search(r"ImportReference::\w+$", x.get("def") or "")}
        return keyed, built

    # import binders, by role: the private methods of the visitor that visit_import_decl calls and that store into
    # `imports` (one per kind of import today; benign b93 merges them into one insert_import(local, specifier, kind)
    # whose `match kind` builds the reference).  What they are called and how many there are is not part of the
    # property; every kind of ImportReference must be bound by one of them.
    binders = {}     # gid -> dict(fn, key_idx, orig_idx, carriers)
    if len(iv) != 1:
        rep.anchor_missing("C09.1", "ImportsVisitor::visit_import_decl")
    else:
        built_all = set()
        for n in walk(F.hir[iv[0].id]["body"]):
            b = private_visitor_callee(iv[0].crate, n, iv[0].id)
            if b is None or b.id in binders:
                continue
            keyed, built = binder_summary(b)
            if not keyed:
                continue
            info = binders[b.id] = {"fn": b, "key_idx": None, "orig_idx": None, "carriers": set()}
            built_all |= built
            tree = F.hir[b.id]
            D = Deriv(tree)
            rep.ob("C09.1", "%s/one-insert" % b.name, len(keyed) == 1, "%s must insert exactly one import binding (found %d)" % (b.name, len(keyed)), b.loc())
            for c, kexpr in keyed:
                # the key derives from ONE parameter, the specifier's identifier (`local: &Ident`); the call sites say which
                pr = (D.param_roots(tree, kexpr) - {0}) if kexpr is not None else set()
                ok = len(pr) == 1 and "Ident" in ((b.inputs or [""] * 9)[min(pr)] or "")
                rep.ob("C09.1", "%s/key" % b.name, ok, "imports key must derive from the identifier parameter of %s only (parameters %s)" % (b.name, sorted(pr)), "%s:%s" % (b.file, c["line"]))
                if ok and len(keyed) == 1:
                    info["key_idx"] = min(pr)
            st = [x for x in walk(tree["body"]) if x["k"] == "Struct" and (x.get("def") or "").endswith("ImportReference::Named")]
            if st:
                ok = False
                if len(st) == 1 and info["key_idx"] is not None:
                    e = struct_field(st[0], "original_name")
                    pr = D.param_roots(tree, e) - {0}
                    ok = e is not None and len(pr) == 1 and info["key_idx"] not in pr
                    if ok:
                        info["orig_idx"] = min(pr)
                        # the original name may arrive inside a mode value (`kind: ImportKind::Named { original_name }`):
                        # then the variant field it is bound from carries it, and the call sites are judged at the
                        # constructions of that variant
                        reach = {x.get("lid") for x in D.closure_nodes(e) if x["k"] == "Path" and x.get("res") == "local"}
                        for p_ in walk(tree["body"]):
                            if p_["k"] == "P.Struct" and (p_.get("def") or "").rsplit("::", 1)[0] in F.adts:
                                for fl in p_["fields"]:
                                    if any(b_["k"] == "P.Binding" and b_.get("lid") in reach for b_ in walk(fl["pat"])):
                                        info["carriers"].add((p_["def"], fl["name"]))
                rep.ob("C09.1", "%s/original-name" % b.name, ok, "Named.original_name must derive from a parameter of %s other than the one that keys the table" % b.name, b.loc())
        if not binders:
            rep.anchor_missing("C09.1", "import binders (private methods called from visit_import_decl that store into `imports`)")
        ir = F.adts.get("swc_tools::ImportReference")
        if ir is None:
            rep.anchor_missing("C09.1", "swc_tools::ImportReference")
        else:
            for v in ir["variants"]:
                rep.ob("C09.1", "import-kind/%s/bound" % v["name"], v["name"] in built_all,
                       "no function that visit_import_decl calls stores an ImportReference::%s into the import table: that kind of import is never bound" % v["name"], iv[0].loc())
        # the named-import sites of visit_import_decl: (expression the key comes from, expression the original name
        # comes from).  Either the two arguments of a call to the binder, or - when the binder takes a mode value - each
        # construction of the carrying variant, paired with the key it travels with (`let (local, kind) = match ..`)
        tree = F.hir[iv[0].id]
        D = Deriv(tree, tuples=True)
        sites = []
        for c in walk(tree["body"]):
            b = private_visitor_callee(iv[0].crate, c, iv[0].id)
            info = binders.get(b.id) if b is not None else None
            if info is None or info["orig_idx"] is None:
                continue
            a = ([c["recv"]] + c["args"]) if c["k"] == "MethodCall" else c["args"]
            if max(info["key_idx"], info["orig_idx"]) >= len(a):
                continue
            kx, ox = a[info["key_idx"]], a[info["orig_idx"]]
            if not info["carriers"]:
                sites.append((kx, ox, c["line"]))
                continue
            seen_s = set()
            for s in D.closure_nodes(ox):
                if s["k"] != "Struct" or id(s) in seen_s:
                    continue
                for vdef, fld in info["carriers"]:
                    if s.get("def") == vdef and struct_field(s, fld) is not None:
                        seen_s.add(id(s))
                        kx2 = kx
                        kl, ol = lids_in(kx), lids_in(ox)
                        if len(kl) == 1 and len(ol) == 1:
                            for tup, i in D.tup_src.get(ol[0][1], []):
                                if any(x is s for x in walk(tup["es"][i])):
                                    kx2 = next((tup["es"][j] for tup2, j in D.tup_src.get(kl[0][1], []) if tup2 is tup), kx)
                        sites.append((kx2, struct_field(s, fld), s["line"]))
        rep.floor("C09.1", "insert_import_named call sites", len(sites), 2)
        kinds = set()
        for kx, ox, line in sites:
            a_local = D.roots(kx)
            a_orig = D.roots(ox)
            fp = D.field_paths(ox)
            plain = any(p.startswith("local.") for p in fp)
            kind = "renamed" if (not plain) else "plain"
            kinds.add(kind)
            rep.ob("C09.1", "import-named/%s/local-key" % kind, "local" in a_local and "imported" not in a_local,
                   "the import table must be keyed by the local name of the specifier (found roots %s)" % sorted(a_local), "%s:%s" % (iv[0].file, line),
                   sample={"site": kind, "key_from": sorted(a_local), "original_name_from": sorted(fp) or sorted(a_orig)})
            if kind == "renamed":
                rep.ob("C09.1", "import-named/renamed/original-name", "imported" in a_orig,
                       "`import {A as B}`: the name looked up in the other module must be the imported name A", "%s:%s" % (iv[0].file, line))
        rep.ob("C09.1", "import-named/both-forms", kinds == {"renamed", "plain"}, "expected one call for `import {A as B}` and one for `import {A}` (found %s)" % sorted(kinds), iv[0].loc())
    # export registrars, by role (benign b93: insert_type / insert_value / insert_unknown became thin wrappers of one
    # `insert(table: ExportTable, name, export)` that parse_and_bind calls directly): the methods that take the export
    # name (their one String parameter) and the export record (Rc<SymbolExport>) and return nothing; one further
    # parameter, if any, is the mode that selects the table
    registrars = {}      # gid -> (index of the key, index of the record, index of the mode | None, type of the mode)
    for f in F.fns.values():
        ins_ = f.inputs or []
        ki = [i for i, t_ in enumerate(ins_) if t_ == "std::string::String"]
        pi = [i for i, t_ in enumerate(ins_) if re.search(r"^std::rc::Rc<(\w+::)*SymbolExport>$", t_)]
        if f.impl_self and f.kind != "Closure" and (f.output or "") == "()" and len(ki) == 1 and len(pi) == 1 and f.impl_self in ins_[0]:
            rest = [i for i in range(1, len(ins_)) if i not in (ki[0], pi[0])]
            registrars[f.id] = (ki[0], pi[0], rest[0] if len(rest) == 1 else None, ins_[rest[0]] if len(rest) == 1 else None)
    if not registrars:
        rep.anchor_missing("C09.1", "export registrars (methods taking the export name and an Rc<SymbolExport>)")

    def registration(crate, c):
        """(key expression, record expression, mode expression | None, method name, mode type) when the call node
        registers an export"""
        if c["k"] not in ("Call", "MethodCall"):
            return None
        tg = F._callee_gid(crate, (c.get("callee") if c["k"] == "Call" else (c.get("resolved") or c.get("callee"))) or "")
        r = registrars.get(tg)
        a = ([c["recv"]] if c["k"] == "MethodCall" else []) + list(c.get("args") or [])
        if r is None or max(r[0], r[1]) >= len(a):
            return None
        return a[r[0]], a[r[1]], (a[r[2]] if r[2] is not None and r[2] < len(a) else None), tg.rsplit("::", 1)[-1], r[3]
    # `export { A as B }` / `export { A as B } from "./m"`: located by the constructions themselves, in any function of
    # the binder's file; provenance is by syntax field of swc's ExportNamedSpecifier { orig, exported }
    befile = [f for f in F.fns.values() if (f.file or "").endswith("swc_tools/bind_exports.rs") and f.id in F.hir and f.kind != "Closure"]
    if not befile:
        rep.anchor_missing("C09.1", "functions of swc_tools/bind_exports.rs")
    ue_all, so_all = [], []
    be_derivs = {}       # gid -> (fn, Deriv, tree) of the binder's functions
    so_helpers = []      # SomethingOfOtherFile constructions in functions that see no ExportNamedSpecifier themselves
    for f in sorted(befile, key=lambda x: x.id):
        tree = F.hir[f.id]
        D = Deriv(tree)
        D.tag_fields(tree, "ExportNamedSpecifier", ("orig", "exported"))
        be_derivs[f.id] = (f, D, tree)
        # one level of private helpers: a call result carries the tags of its arguments (Deriv.roots/tags follow
        # every local mentioned in the initialiser, call arguments included)
        for n in walk(tree["body"]):
            if n["k"] == "Struct" and (n.get("def") or "").endswith("UnresolvedExport"):
                ue_all.append((f, D, n))
            # (re-exports built from export specifiers; the resolution of unresolved exports against imports builds the
            # same variant from an ImportReference and is covered by the parse_and_bind clauses below)
            if n["k"] == "Struct" and (n.get("def") or "").endswith("SymbolExport::SomethingOfOtherFile"):
                if getattr(D, "tagged", {}):
                    so_all.append((f, D.tags, n, tree))
                else:
                    so_helpers.append((f, D, n, tree))
    # the construction moved into a helper that is handed the names (benign b100: `reexport_named(orig, exported_as,
    # src)`, called from the loop over the specifiers): an expression of the helper carries the specifier fields of the
    # arguments that the callers in the binder's file pass for the parameters it derives from.  A helper none of whose
    # callers passes anything of an export specifier is not a re-export site (the resolution of unresolved exports).
    for f, D, n, tree in so_helpers:
        hsites = []       # (Deriv of the caller, arguments) per call of the helper from a function that sees a specifier
        for g, Dg, tg_ in be_derivs.values():
            if not getattr(Dg, "tagged", {}):
                continue
            for c2 in walk(tg_["body"]):
                if c2["k"] in ("Call", "MethodCall") and F._callee_gid(g.crate, (c2.get("callee") if c2["k"] == "Call" else (c2.get("resolved") or c2.get("callee"))) or "") == f.id:
                    hsites.append((Dg, ([c2["recv"]] if c2["k"] == "MethodCall" else []) + list(c2.get("args") or [])))

        def via_callers(expr, D=D, tree=tree, hsites=hsites):
            out = set()
            for i in D.param_roots(tree, expr):
                for Dg, a in hsites:
                    if i < len(a):
                        out |= Dg.tags(a[i])
            return out
        if any(Dg.tags(x) for Dg, a in hsites for x in a):
            so_all.append((f, via_callers, n, tree))
    rep.ob("C09.1", "unresolved-export/site", len(ue_all) == 1, "expected one UnresolvedExport construction in the export binder (found %d)" % len(ue_all), befile[0].loc() if befile else None)
    for f, D, st in ue_all:
        tn = D.tags(struct_field(st, "name"))
        tr = D.tags(struct_field(st, "renamed"))
        rep.ob("C09.1", "unresolved-export/name-is-orig", "orig" in tn and "exported" not in tn,
               "`export {A as B}`: UnresolvedExport.name must be the local (original) name A (derives from specifier fields %s)" % sorted(tn), "%s:%s" % (f.file, st["line"]),
               sample={"name_from": sorted(tn), "renamed_from": sorted(tr)})
        rep.ob("C09.1", "unresolved-export/renamed-is-exported", "exported" in tr,
               "`export {A as B}`: UnresolvedExport.renamed must derive from the exported name B (derives from specifier fields %s)" % sorted(tr), "%s:%s" % (f.file, st["line"]))
    rep.ob("C09.1", "reexport-from/site", len(so_all) == 1, "expected one SomethingOfOtherFile construction in the export binder (found %d)" % len(so_all), befile[0].loc() if befile else None)
    for f, tags_of, st, tree in so_all:
        ts_ = tags_of(struct_field(st, "something"))
        rep.ob("C09.1", "reexport-from/something-is-orig", "orig" in ts_ and "exported" not in ts_,
               "`export {A as B} from`: the name looked up in the other module must be A (derives from specifier fields %s)" % sorted(ts_), "%s:%s" % (f.file, st["line"]))
        # the key of the enclosing registration derives from the exported name
        for c in walk(tree["body"]):
            rg = registration(f.crate, c)
            if rg is not None and any(x is st for x in walk(rg[1])):
                tk = tags_of(rg[0])
                rep.ob("C09.1", "reexport-from/key-is-exported", "exported" in tk, "`export {A as B} from`: the export must be registered under B (derives from specifier fields %s)" % sorted(tk), "%s:%s" % (f.file, c["line"]))
    pb = [f for f in F.fns.values() if f.name == "parse_and_bind" and f.crate != WASM]
    if len(pb) != 1:
        rep.anchor_missing("C09.1", "parse_and_bind")
    else:
        # the resolution of `export { A as B }` against the module's own declarations and imports: located by role
        # (calls that register exports / look up local declarations) in any function of parse_and_bind's file
        trees = [(g, F.hir[g.id]) for g in F.fns.values() if g.file == pb[0].file and g.id in F.hir
                 and not (g.impl_self or "").startswith("swc_tools::bind_exports::ImportsVisitor")]
        n_ins = 0
        n_get = 0
        ms = []
        # the module's own declaration tables and its import table, by type (so the lookups are found whether
        # the table is reached as a field or handed over as a parameter)
        table_tys = set()
        for adt, fields in (("swc_tools::bind_locals::ParsedModuleLocals", None), ("swc_tools::bind_exports::ImportsVisitor", ("imports",))):
            a = F.adts.get(adt)
            if a is None:
                rep.anchor_missing("C09.1", adt)
                continue
            for fl in a["variants"][0]["fields"]:
                if (fields is None or fl["name"] in fields) and "HashMap<" in fl["ty"]:
                    table_tys.add(fl["ty"])
        for g, tree in sorted(trees, key=lambda t: t[0].id):
            D = Deriv(tree)
            # provenance by FIELD of UnresolvedExport { name, renamed }: read as `u.renamed` or bound by destructuring
            D.tag_fields(tree, "UnresolvedExport", ("name", "renamed"))
            for c in walk(tree["body"]):
                rg = registration(g.crate, c)
                if rg is not None:
                    tg = D.tags(rg[0])
                    if not tg and not any(x["k"] == "P.Struct" and (x.get("def") or "").endswith("UnresolvedExport") for x in walk(tree["body"])) \
                            and not any(x["k"] == "Field" and (x.get("adt") or "").endswith("UnresolvedExport") for x in walk(tree["body"])):
                        continue      # registrations that do not come from an unresolved export (other binder code)
                    if rg[2] is not None and lids_in(rg[2]):
                        # the table is selected by a mode value computed elsewhere (`insert(table, renamed, ..)` with
                        # `table` handed back by the classifier): one kind of registration per variant of the mode
                        # type that the binder's functions build
                        n_ins += max(1, len({x["def"] for _, t2 in trees for x in walk(t2["body"])
                                             if x["k"] == "Path" and x.get("res") != "local" and (x.get("def") or "").startswith(rg[4] + "::")}))
                    else:
                        n_ins += 1
                    rep.ob("C09.1", "bind/%s-key" % rg[3], "renamed" in tg and "name" not in tg,
                           "%s registers an export under a key derived from UnresolvedExport.%s; it must be the exported (renamed) name" % (g.name, sorted(tg)), "%s:%s" % (g.file, c["line"]))
                if c["k"] == "MethodCall" and c["method"] == "get" and (c.get("recv_ty") or "").replace("&mut ", "").lstrip("&") in table_tys:
                    n_get += 1
                    tg = D.tags(c["args"][0])
                    if not tg:
                        # the lookup sits in a helper that is handed the name: the key is a parameter, judged at the call sites
                        plids = [p_.get("lid") if p_["k"] == "P.Binding" else None for p_ in tree["params"]]
                        kl = [x.get("lid") for x in walk(c["args"][0]) if x["k"] == "Path" and x.get("res") == "local"]
                        idx = [plids.index(l_) for l_ in kl if l_ in plids]
                        if idx:
                            for g2, t2 in trees:
                                D2 = None
                                for c2 in walk(t2["body"]):
                                    if c2["k"] in ("Call", "MethodCall") and F._callee_gid(g2.crate, (c2.get("callee") if c2["k"] == "Call" else (c2.get("resolved") or c2.get("callee"))) or "") == g.id:
                                        if D2 is None:
                                            D2 = Deriv(t2)
                                            D2.tag_fields(t2, "UnresolvedExport", ("name", "renamed"))
                                        args2 = ([c2["recv"]] if c2["k"] == "MethodCall" else []) + list(c2["args"])
                                        if idx[0] < len(args2):
                                            tg = tg | D2.tags(args2[idx[0]])
                    rep.ob("C09.1", "bind/local-lookup-key", "name" in tg and "renamed" not in tg,
                           "local declarations must be looked up by the original name (key derives from UnresolvedExport.%s)" % sorted(tg), "%s:%s" % (g.file, c["line"]))
                if c["k"] == "Match" and (c.get("scrut_adt") or "").endswith("ImportReference"):
                    ms.append((g, c))
        # (floors on kinds, not on today's counts: the registrations may be merged into fewer calls)
        rep.floor("C09.1", "export registrations in parse_and_bind", n_ins, 3)
        rep.floor("C09.1", "local lookups in parse_and_bind", n_get, 2)
        # ------------------------------------------------------------ C09.3
        rep.rule("C09.3", "re-exporting an imported name registers an export for every kind of import")
        rep.ob("C09.3", "site", len(ms) == 1, "expected one match over ImportReference in the export binder (found %d)" % len(ms), pb[0].loc())
        # (registrations by role, see `registrars` above)
        def is_reg(x, crate=pb[0].crate):
            return registration(crate, x) is not None
        for g, m in ms:
            # the match may register the export in each arm, or compute the export record that is registered once
            # afterwards: then the match (or a call of the function that consists of it) sits inside the arguments
            # of a registration
            def inside_insert(tree_, pred):
                return any(is_reg(c) and any(pred(x) for a_ in c["args"] for x in walk(a_)) for c in walk(tree_["body"]))
            # (also: `let export = match ..; table.insert_unknown(key, Rc::new(export))`)
            bound = set()
            for st in walk(F.hir[g.id]["body"]):
                if st["k"] == "LetStmt" and st.get("init") is not None and any(x is m for x in walk(st["init"])):
                    bound |= {b.get("lid") for b in walk(st["pat"]) if b["k"] == "P.Binding"}
            flows = inside_insert(F.hir[g.id], lambda x: x is m or (x["k"] == "Path" and x.get("lid") in bound)) or any(
                inside_insert(t2, lambda x: x["k"] in ("Call", "MethodCall") and F._callee_gid(g.crate, x.get("callee") or x.get("resolved") or "") == g.id)
                for _, t2 in trees)
            if not flows:
                # the helper classifies (`-> Option<Target>`), its caller registers what it gets back
                for g2, t2 in trees:
                    calls_g = [x for x in walk(t2["body"]) if x["k"] in ("Call", "MethodCall") and F._callee_gid(g.crate, (x.get("callee") if x["k"] == "Call" else (x.get("resolved") or x.get("callee"))) or "") == g.id]
                    if calls_g and any(is_reg(x) for x in walk(t2["body"])):
                        flows = True
            for a in m["arms"]:
                v = (a["pat"].get("def") or "_").rsplit("::", 1)[-1]
                reg = any(is_reg(x) for x in walk(a["body"]))
                if not reg and flows and "SymbolExport" in (a["body"].get("ty") or "") and any(x["k"] == "Struct" and "SymbolExport" in (x.get("def") or "") for x in walk(a["body"])):
                    reg = True
                rep.ob("C09.3", "reexport-import/%s" % v, reg,
                       "`import .. from './a'; export { X }` with an ImportReference::%s binding registers no export: the name resolves in TypeScript but is reported as unresolved here" % v,
                       "%s:%s" % (g.file, a["line"]), sample={"import_kind": v, "registers_export": reg})
    # ---------------------------------------------------------------- C09.5
    rep.rule("C09.5", "a name taken from an import / re-export reference is resolved in the other file's export table")
    n_addr = 0

    def vis_of(ve):
        return [x.get("def") for x in walk(ve) if x["k"] == "Path" and "Visibility::" in (x.get("def") or "")]

    # private helpers that build an address from their parameters: fn id -> (index of the parameter the file comes
    # from, visibility paths of the literal, index of the parameter the visibility comes from)
    builders = {}
    for gid in sorted(F.hir):
        g = F.fns.get(gid)
        if g is None or g.kind == "Closure":
            continue
        tree = F.hir[gid]
        sts = [n for n in walk(tree["body"]) if n["k"] == "Struct" and (n.get("def") or "").endswith("ModuleItemAddress")]
        if len(sts) != 1 or not (g.output or "").endswith("ModuleItemAddress"):
            continue
        plids = [p.get("lid") if p["k"] == "P.Binding" else None for p in tree["params"]]
        Dg = Deriv(tree)
        fe, ve = struct_field(sts[0], "file"), struct_field(sts[0], "visibility")
        if fe is None or ve is None:
            continue

        def param_roots(e):
            out = set()
            for name, lid in lids_in(e):
                if lid in plids:
                    out.add(plids.index(lid))
                for e2 in Dg.src.get(lid, []):
                    for n2, l2 in lids_in(e2):
                        if l2 in plids:
                            out.add(plids.index(l2))
            return out
        fi = param_roots(fe)
        if len(fi) == 1:
            vi = param_roots(ve)
            builders[g.id] = (next(iter(fi)), vis_of(ve), next(iter(vi)) if len(vi) == 1 and not vis_of(ve) else None)

    for gid in sorted(F.hir):
        f = F.fns.get(gid)
        if f is None or not (f.file or "").endswith("frontend/mod.rs"):
            continue
        tree = F.hir[gid]
        # binders introduced by patterns over import / re-export references
        ref_binders = {}
        for n in walk(tree["body"]):
            pats = []
            if n["k"] == "Match":
                pats = [a["pat"] for a in n["arms"]]
            elif n["k"] in ("Let", "LetStmt"):
                pats = [n["pat"]]
            for p in pats:
                for x in walk(p):
                    if x["k"] == "P.Struct" and re.search(r"(SymbolExport::SomethingOfOtherFile|ImportReference::(Named|Default|Star))$", x.get("def") or ""):
                        for fl in x["fields"]:
                            if fl["name"] in ("file", "file_name"):
                                for b in walk(fl["pat"]):
                                    if b["k"] == "P.Binding":
                                        ref_binders[b.get("lid")] = (x["def"].rsplit("::", 2)[-2] + "::" + x["def"].rsplit("::", 1)[-1], b["name"])
        if not ref_binders:
            continue
        D = Deriv(tree)
        sites = []
        for st in walk(tree["body"]):
            if st["k"] == "Struct" and (st.get("def") or "").endswith("ModuleItemAddress"):
                fe = struct_field(st, "file")
                ve = struct_field(st, "visibility")
                if fe is not None and ve is not None:
                    sites.append((st, fe, vis_of(ve)))
            elif st["k"] in ("Call", "MethodCall"):
                tgt = F._callee_gid(f.crate, st.get("callee") or "")
                b = builders.get(tgt)
                if b is None:
                    continue
                args = st["args"] if st["k"] == "Call" else [st["recv"]] + st["args"]
                if b[0] >= len(args):
                    continue
                vis = b[1] if b[2] is None else (vis_of(args[b[2]]) if b[2] < len(args) else [])
                sites.append((st, args[b[0]], vis))
        for st, fe, vis in sites:
            src = [ref_binders[lid] for name, lid in lids_in(fe) if lid in ref_binders]
            if not src:
                # through one let-alias
                for name, lid in lids_in(fe):
                    for e in D.src.get(lid, []):
                        src += [ref_binders[l2] for n2, l2 in lids_in(e) if l2 in ref_binders]
            if not src:
                continue
            n_addr += 1
            ok = vis == ["Visibility::Export"]
            rep.ob("C09.5", "%s/%s" % (f.id.rsplit("::", 1)[-1] + "@" + (f.impl_self or "").split("<")[0].rsplit("::", 1)[-1], src[0][0]), ok,
                   "%s builds the address of a name in ANOTHER file (taken from %s) with %s: names reached through an import or re-export must be looked up among that file's exports, otherwise a private declaration of the same name is bound or the name is reported missing" % (
                       f.id, src[0][0], vis), "%s:%s" % (f.file, st["line"]), sample={"fn": f.id.rsplit("::", 1)[-1], "reference": src[0][0], "visibility": vis})
    rep.floor("C09.5", "cross-file addresses", n_addr, 6)
    # ---------------------------------------------------------------- C09.2
    rep.rule("C09.2", "identity of named types carries the file: derived Eq/Ord/Hash over all fields")
    for adt in ("TypeAddress", "RuntypeName", "RuntypeUUID", "ModuleItemAddress", "BffFileName"):
        a = F.adts.get(adt)
        if a is None:
            rep.anchor_missing("C09.2", adt)
            continue
        for tr in ("std::cmp::PartialEq", "std::cmp::Ord", "std::hash::Hash"):
            im = [i for i in F.impls if i["self"] == adt and i.get("trait") == tr]
            if not im:
                continue
            rep.ob("C09.2", "%s/%s" % (adt, tr.rsplit("::", 1)[-1]), bool(im[0].get("derived")),
                   "%s for %s is hand-written: same-named types of different files (or different type arguments) may compare equal" % (tr, adt),
                   "%s:%s" % (im[0]["file"], im[0]["line"]), sample={"adt": adt, "trait": tr, "derived": True})
    ta = F.adts.get("TypeAddress")
    if ta:
        fields = [f["name"] for f in ta["variants"][0]["fields"]]
        rep.ob("C09.2", "TypeAddress/has-file", "file" in fields and "name" in fields, "TypeAddress must carry both file and name (fields %s)" % fields, "%s:%s" % (ta["file"], ta["line"]))
    # ---------------------------------------------------------------- C09.6
    rep.rule("C09.6", "disambiguation of same-named types looks at every kind of name that carries a file address")
    rn = F.adts.get("RuntypeName")
    tis = [f for f in F.fns.values() if f.name == "ts_identifier" and f.impl_self == "TypeAddress" and f.id in F.hir]
    if rn is None or len(tis) != 1:
        rep.anchor_missing("C09.6", "RuntypeName / TypeAddress::ts_identifier")
    else:
        carrying = {v["name"] for v in rn["variants"] if any("TypeAddress" in fl["ty"] for fl in v["fields"])}
        seen_v = set()
        for n, _owner in walk_inlined(F, tis[0].id):
            pats = []
            if n["k"] == "Match":
                pats = [a["pat"] for a in n["arms"]]
            elif n["k"] in ("Let", "LetStmt"):
                pats = [n["pat"]]
            for p0 in pats:
                for x in walk(p0):
                    d = x.get("def") or ""
                    if d.startswith("RuntypeName::") and x["k"] in ("P.Struct", "P.TupleStruct"):
                        # only patterns that bind the address count as "considered"
                        if any(b["k"] == "P.Binding" for b in walk(x)):
                            seen_v.add(d.rsplit("::", 1)[-1])
        rep.ob("C09.6", "ts_identifier/variants", carrying <= seen_v,
               "TypeAddress::ts_identifier decides whether a printed name needs its file prefix by looking at the other names, but ignores the %s variant(s) of RuntypeName, which also carry a file address: same-named declarations of different files then print the same identifier and collapse" % sorted(carrying - seen_v),
               tis[0].loc(), sample={"address_carrying_variants": sorted(carrying), "considered": sorted(seen_v)})
    # ---------------------------------------------------------------- C09.8
    rep.rule("C09.8", "an expression taken from another module's default export is interpreted in that module")
    # `export default <expr>` is recorded with the anchor of the exporting file.  Whoever takes the expression out of
    # the record (pattern over SymbolExportDefault::Expr { export_expr, anchor }) and hands it on must hand on the file
    # of THAT anchor: with the importer's file, identifiers inside the expression are resolved as locals of the
    # importing module (a same-named binding there is silently used, or the name is reported missing).
    n_de = 0
    for g in sorted(F.hir):
        f = F.fns.get(g)
        if f is None or "/src/frontend/" not in (f.file or ""):
            continue
        tree = F.hir[g]
        if not any(x["k"] == "P.Struct" and (x.get("def") or "").endswith("SymbolExportDefault::Expr") for x in walk(tree["body"])):
            continue
        D = Deriv(tree)
        D.tag_fields(tree, "SymbolExportDefault::Expr", ("export_expr", "anchor"))
        D.field_adt = "\0"     # only pattern-bound provenance here
        for c in walk(tree["body"]):
            if c["k"] not in ("Call", "MethodCall"):
                continue
            args = ([c["recv"]] + c["args"]) if c["k"] == "MethodCall" else c["args"]
            if not any("export_expr" in D.tags(a) for a in args):
                continue
            ctx_args = [a for a in args if re.search(r"BffFileName|Anchor", a.get("ty") or "") and "export_expr" not in D.tags(a)]
            if not ctx_args:
                continue
            n_de += 1
            ok = all("anchor" in D.tags(a) for a in ctx_args)
            rep.ob("C09.8", "%s/%s" % (f.id.rsplit("::", 1)[-1] + "@" + ((f.impl_self or f.trait_default or "").split("<")[0].rsplit("::", 1)[-1]), (c.get("method") or (c.get("callee") or "?").rsplit("::", 1)[-1])), ok,
                   "%s passes the expression of another module's `export default` on together with a file / anchor that does not come from the export record: the expression is then typed with the IMPORTING module's bindings" % f.id,
                   "%s:%s" % (f.file, c["line"]), sample={"fn": f.id, "call": c.get("method") or c.get("callee")})
    rep.floor("C09.8", "hand-overs of a default-export expression", n_de, 1)
    # ---------------------------------------------------------------- C09.14
    rep.rule("C09.14", "in type position a local type declaration wins over an imported name")
    local_type_before_import_rule(cx, rep, "C09.14")
    # ---------------------------------------------------------------- C09.16
    explicit_before_star_rule(cx, rep, "C09.16")
    # ---------------------------------------------------------------- C09.17
    star_shadowing_rule(cx, rep, "C09.17")
    # ---------------------------------------------------------------- C09.18
    type_only_marker_rule(cx, rep, "C09.18")
    # ---------------------------------------------------------------- C09.15
    rep.rule("C09.15", "an answer of the host (module resolution, file lookup) is remembered under a key that carries every argument of the query")
    hits = memo_key_hits(cx.rs)
    for gid, loc, q, missing in hits:
        rep.ob("C09.15", "%s/memo-key" % gid.rsplit("::", 1)[-1], False,
               "%s remembers the answer of the host query %s in a table whose key does not carry the argument(s) %s on every path (only under a condition, or not at all): two queries that differ in that argument share one entry - `import(\"../types\")` written in two directories is resolved once and bound to the same module in both files" % (gid, q, ", ".join(missing)),
               loc, sample={"fn": gid, "query": q, "arguments_missing_from_key": missing})
    rep.ob("C09.15", "scan", True, sample={"memoised_host_queries_with_partial_keys": len(hits)})
    if cx.canary is not None:
        ch = memo_key_hits(cx.canary, all_files=True)
        names = {h[0].rsplit("::", 1)[-1] for h in ch}
        rep.ob("C09.15", "control/canary-memo-key", "memo_conditional_key" in names and "memo_full_key" not in names,
               "positive control: the canary crate's conditionally keyed memo must be reported and its fully keyed twin must not (reported: %s)" % sorted(names), "canary/rs/src/lib.rs")
    # ---------------------------------------------------------------- C09.13
    rep.rule("C09.13", "syntax taken out of a located record is interpreted with that record's location")
    payload_file_rule(cx, rep, "C09.13")
    # ---------------------------------------------------------------- C09.7
    rep.rule("C09.7", "the file part of a disambiguated name is cut at a LOWER bound of the prefixes shared with the other files")
    # by role: fn(&BffFileName, &[TypeAddress]) -> String.  The cut index must not exceed the common prefix with ANY other
    # same-named file, i.e. it is a min-reduction over them; a max (or a first/last element) leaves two files with the
    # same suffix and their types collapse into one definition.
    cut = [f for f in F.fns.values() if f.id in F.hir and f.kind != "Closure" and len(f.inputs or []) == 2 and "BffFileName" in f.inputs[0]
           and "TypeAddress" in f.inputs[1] and f.inputs[1].startswith("&[") and (f.output or "").endswith("String")]
    if len(cut) != 1:
        rep.anchor_missing("C09.7", "the suffix function fn(&BffFileName, &[TypeAddress]) -> String; found %d" % len(cut))
    else:
        nodes = [n for n, _o in walk_inlined(F, cut[0].id, private_only=True)]
        mins = [n for n in nodes if (n["k"] == "MethodCall" and n["method"] in ("min", "min_by", "min_by_key")) or (n["k"] == "Call" and (n.get("callee") or "").endswith("cmp::min"))]
        maxs = [n for n in nodes if (n["k"] == "MethodCall" and n["method"] in ("max", "max_by", "max_by_key", "last", "next", "first")) or (n["k"] == "Call" and (n.get("callee") or "").endswith("cmp::max"))]
        # hand-written reduction: `if new < acc { acc = new }`
        manual = []
        for n in nodes:
            if n["k"] == "If" and n["cond"]["k"] == "Binary" and n["cond"]["op"] in ("Lt", "Gt", "Le", "Ge"):
                l, r = n["cond"]["l"], n["cond"]["r"]
                asg = [x for x in walk(n["then"]) if x["k"] == "Assign" and x["l"]["k"] == "Path" and x["l"].get("res") == "local"]
                if len(asg) == 1 and l["k"] == "Path" and r["k"] == "Path":
                    acc = asg[0]["l"].get("lid")
                    newv = [x.get("lid") for x in walk(asg[0]["r"]) if x["k"] == "Path" and x.get("res") == "local"]
                    if acc in (l.get("lid"), r.get("lid")) and newv and newv[0] in (l.get("lid"), r.get("lid")):
                        less = n["cond"]["op"] in ("Lt", "Le")
                        new_on_left = l.get("lid") == newv[0]
                        manual.append("min" if (less == new_on_left) else "max")
        # the reduction handed over as a function value: `.fold(init, usize::min)`, `.reduce(Ord::min)`
        fnvals = [("min" if (n.get("def") or "").endswith("::min") else "max") for n in nodes
                  if n["k"] == "Path" and n.get("res") in ("def", "fn", "assoc") and re.search(r"::(min|max)$", n.get("def") or "")
                  and not any(c_["k"] == "Call" and c_.get("args") is not None and n is (c_.get("f") or c_.get("callee_node") or None) for c_ in nodes)]
        called = {id(c_["f"]) for c_ in nodes if c_["k"] == "Call" and isinstance(c_.get("f"), dict)}
        fnvals = [("min" if (n.get("def") or "").endswith("::min") else "max") for n in nodes
                  if n["k"] == "Path" and re.search(r"::(min|max)$", n.get("def") or "") and id(n) not in called]
        kinds_ = (["min"] * len(mins)) + (["max"] * len([m_ for m_ in maxs if m_["k"] == "Call" or m_["method"].startswith("max")])) + manual + fnvals
        rep.ob("C09.7", "cut-is-min", bool(kinds_) and all(k == "min" for k in kinds_),
               "%s reduces the shared-prefix lengths with %s: the cut must be the MINIMUM over all same-named files, otherwise two of them keep the same suffix" % (cut[0].id, kinds_ or "no recognisable reduction"),
               cut[0].loc(), sample={"reduction": kinds_})
    # ---------------------------------------------------------------- C09.4
    rep.rule("C09.4", "lossy mangling of file names into identifiers is checked for collisions")
    mang = [f for f in F.fns.values() if f.name == "to_valid_ts_identifier" or f.name == "ts_identifier"]
    users = [f for f in F.fns.values() if f.name == "print_name_for_js_codegen"]
    if not mang or not users:
        rep.anchor_missing("C09.4", "ts_identifier / print_name_for_js_codegen")
    else:
        # is there, anywhere reachable from emit_code, a comparison of *printed* names of distinct named types
        # (a duplicate check on the strings that become keys of namedRuntypes)?
        emit = [f for f in F.fns.values() if f.name == "emit_code"]
        reach = F.reachable([emit[0].id]) if emit else set()
        dup_check = False
        for g in reach:
            f = F.fns[g]
            t = F.hir.get(g)
            if t is None or not f.mir:
                continue
            # the printed name (result of the name printer) is inserted into a collection keyed by String, and an
            # error is returned under the outcome of that insert
            if not any((c.best or "").endswith(("print_name_for_js_codegen", "ts_identifier", "print_rt_name")) for c in f.calls):
                continue
            def errs_in(b):
                return [r for r in walk(b) if r["k"] == "Ret" and any((y.get("callee") or "").endswith("::Err") or "anyhow" in " ".join(y.get("mac") or []) for y in walk(r) if y["k"] in ("Call", "MethodCall"))] or \
                    [y for y in walk(b) if y["k"] == "Call" and (y.get("callee") or "").endswith("::Err")]
            def is_ins(x):
                return x["k"] == "MethodCall" and x["method"] == "insert" and "<std::string::String" in (x.get("recv_ty") or "")
            for i in walk(t["body"]):
                # `if let Some(old) = m.insert(printed, ..) { return Err }` or `match m.insert(..) { Some(old) [if ..] => return Err, .. }`
                if i["k"] == "If":
                    if any(is_ins(x) for x in walk(i["cond"])) and errs_in(i["then"]):
                        dup_check = True
                elif i["k"] == "Match" and any(is_ins(x) for x in walk(i["scrut"])):
                    for a_ in i["arms"]:
                        if any((p_.get("def") or "").endswith("::Some") for p_ in walk(a_["pat"])) and errs_in(a_["body"]):
                            dup_check = True
        rep.ob("C09.4", "mangled-name-collision-check", dup_check,
               "the printed name of a named type goes through a many-to-one mangling (non-identifier characters of the file path become `_`) and no check compares printed names before they are used as keys of namedRuntypes: two files `a-b.ts` / `a_b.ts` exporting the same type name collapse into one definition",
               mang[0].loc())

    # ---------------------------------------------------------------- C09.9
    rep.rule("C09.9", "the type-side and value-side twins of name resolution agree")
    import twins
    twins.twin_rule(cx, rep, "C09.9", r"swc_tools/|frontend/", floor=6)

    # ---------------------------------------------------------------- C09.10
    rep.rule("C09.10", "a lookup that follows `export *` continues with the target module's complete lookup")
    star_hop_rule(cx, rep, "C09.10")
    # ---------------------------------------------------------------- C09.19
    rep.rule("C09.19", "a set-once slot (the default export) is set at most once per processed export item")
    set_once_rule(cx, rep, "C09.19")
    # ---------------------------------------------------------------- C09.22 (= C08.19)
    rep.rule("C09.22", "a hoist key carries a reference whole (file, name, type arguments), never a printed name: same-named types of two files do not share a hoisted validator")
    importlib.import_module("rules.c08").hoist_key_faithful_rule(cx, rep, "C09.22")


def star_hop_rule(cx, rep, rid):
    """`export * from "./m"` re-exports everything m exports - what m declares AND what m itself re-exports (another
    `export *`, `export { X } from`, an import that is exported again).  A lookup that walks the list of star targets
    must therefore ask each target the same question it was asked, i.e. re-enter the lookup; reading the target's own
    table of declarations resolves one hop and reports `cannot resolve` for every longer chain, so the multi-file
    layout compiles differently from the single-file program.  Decided: every function that walks the star-target
    list of an export table (the field of type Vec<BffFileName> of the struct that holds the name -> export maps) and
    returns an export is recursive - some call inside it (or its closures) leads back to it - or is the iterative
    form of the same closure (it also reads the star list of a target, feeding a work list)."""
    F = cx.rs
    from facts import walk as rwalk
    n = 0
    for g in sorted(F.hir):
        f = F.fns.get(g)
        if f is None or f.kind == "Closure" or "/src/swc_tools/" not in (f.file or ""):
            continue
        out_ty = (F.hir[g].get("output") or getattr(f, "output", "") or "")
        reads = [x for x in rwalk(F.hir[g]["body"]) if x["k"] == "Field" and re.search(r"Vec<(\w+::)*BffFileName>", x.get("ty") or "") and "Exports" in (x.get("adt") or "")]
        if not reads:
            continue
        rets = f.raw.get("output") or ""
        if "SymbolExport" not in rets or "Option" not in rets:
            continue
        n += 1
        # reachability g ->* g over call-graph edges
        seen, work, back = set(), list(F.edges.get(g, ())), False
        while work:
            x = work.pop()
            if x == g:
                back = True
                break
            if x in seen:
                continue
            seen.add(x)
            work.extend(F.edges.get(x, ()))
        # the iterative form of the same closure: a work list that is fed with the star list of each TARGET
        # (a read of the field on something other than the receiver) visits the transitive targets without recursion
        foreign = [x for x in reads if not any(z["k"] == "Path" and z.get("name") == "self" for z in rwalk(x))]
        if not back and foreign:
            back = True
        if not back and any(c.indirect or ((c.path or "").startswith(("std::ops::Fn::call", "std::ops::FnMut::call_mut", "std::ops::FnOnce::call_once")) and not c.resolved) for c in f.calls):
            # the walker is handed the question as a function value (`lookup: impl Fn(&Exports, ..)`): the recursion
            # closes through its callers - every caller must lead back to itself (its closure asks the target again)
            callers = [h for h in F.fns if g in F.edges.get(h, ())]      # closures included (`own.or_else(|| self.walk(..))`)

            def loops(h):
                seen2, work2 = set(), list(F.edges.get(h, ()))
                while work2:
                    x = work2.pop()
                    if x == h:
                        return True
                    if x in seen2 or x == g:
                        continue
                    seen2.add(x)
                    work2.extend(F.edges.get(x, ()))
                return False
            back = bool(callers) and all(loops(h) for h in callers)
        rep.ob(rid, "%s/re-enters" % g.rsplit("::", 1)[-1], back,
               "%s walks the `export *` targets of a module but never re-enters the lookup for a target: a name the target re-exports itself (a second `export *`, `export { X } from`, an exported import) is not found through the star, so a re-export chain of length two no longer resolves although the single-file program compiles" % g,
               "%s:%s" % (f.file, reads[0]["line"]), sample={"fn": g, "star_list_field": reads[0]["name"], "recursive": back})
    rep.floor(rid, "lookups over the star-target list", n, 1)

    # ---------------------------------------------------------------- C09.11
    rep.rule("C09.11", "in import(\"m\").Q<Args> only Q is looked up in m: Args belong to the importing file and Q is not a type parameter")
    import_type_scope_rule(cx, rep, "C09.11")


def import_type_scope_rule(cx, rep, rid):
    """`import("./m").Box<Local>` names Box in module m; `Local` is written in - and must be resolved against - the file
    that contains the import type, and the qualifier `Box` is a name of m even when a type parameter `Box` is in
    scope.  (Both were wrong: arguments were lowered with m as the current file, binding a private type of m with the
    same name, and the qualifier was first searched on the generic-parameter stack; repaired by 009be55.)
    Decided on every function that takes a `&TsImportType`:
      (a) no call receives type SYNTAX of the import type (its TsTypeParamInstantiation / a TsType) together with a
          file name obtained from resolve_import - the arguments are lowered with the function's own file;
      (b) the qualifier (`&TsEntityName`) is not handed to a function that searches a scope stack (a Vec<(String, _)>
          field that is pushed and popped), directly or through functions that pass the entity name on."""
    F = cx.rs
    from facts import walk as rwalk
    # functions that search a scope stack
    searchers = set()
    for g in F.hir:
        for n in rwalk(F.hir[g]["body"]):
            if n["k"] == "MethodCall" and n["method"] in ("iter", "iter_mut"):
                r = n["recv"]
                while r["k"] in ("AddrOf", "Unary"):
                    r = r["e"]
                if r["k"] == "Field" and re.match(r"^std::vec::Vec<\(std::string::String, ", r.get("ty") or ""):
                    searchers.add(g)
    SYNTAX = re.compile(r"\b(TsTypeParamInstantiation|TsType)\b")
    # wrappers of resolve_import: local functions that hand the resolved file back (`resolve_import_type_specifier(..)?`)
    resolvers = set()
    for _ in range(2):
        for g2, t2 in F.hir.items():
            f2 = F.fns.get(g2)
            if f2 is None or g2 in resolvers or "BffFileName" not in (f2.output or "") or f2.kind == "Closure":
                continue
            for x in rwalk(t2["body"]):
                if x["k"] in ("Call", "MethodCall"):
                    cal = (x.get("resolved") or x.get("callee") or x.get("method") or "")
                    if cal.endswith("resolve_import") or F._callee_gid(f2.crate, cal) in resolvers:
                        resolvers.add(g2)
                        break

    def resolves(i, crate):
        """the expression is (a `?` / combinator around) a call of resolve_import or of a wrapper of it"""
        for x in rwalk(i):
            if x["k"] in ("Call", "MethodCall"):
                cal = (x.get("resolved") or x.get("callee") or x.get("method") or "")
                if cal.endswith("resolve_import") or F._callee_gid(crate, cal) in resolvers:
                    return True
        return False
    n = 0
    for g in sorted(F.hir):
        f = F.fns.get(g)
        tree = F.hir[g]
        if f is None or g in resolvers or not any("TsImportType" in (p.get("ty") or "") for p in tree.get("params", []) if isinstance(p, dict)):
            continue
        n += 1
        foreign = set()
        for x in rwalk(tree["body"]):
            if x["k"] in ("Let", "LetStmt") and x.get("init") is not None:
                if resolves(x["init"], f.crate):
                    foreign |= {y.get("lid") for y in rwalk(x["pat"]) if y["k"] == "P.Binding"}
            if x["k"] == "Match" and x.get("scrut") is not None and x.get("src") == "Normal":
                if resolves(x["scrut"], f.crate):
                    for arm in x.get("arms", []):
                        foreign |= {y.get("lid") for y in rwalk(arm.get("pat") or {}) if isinstance(y, dict) and y.get("k") == "P.Binding"}
        rep.ob(rid, "%s/resolves-import" % g.rsplit("::", 1)[-1], bool(foreign),
               "%s takes an import type but no binding of a resolve_import result was found: the rule cannot tell the two files apart" % g, f.loc(),
               sample={"fn": g, "foreign_file_bindings": len(foreign)})
        for c in rwalk(tree["body"]):
            if c["k"] not in ("Call", "MethodCall"):
                continue
            args = list(c.get("args") or [])
            syn = [a for a in args if SYNTAX.search(a.get("ty") or "") and "TsImportType" not in (a.get("ty") or "")]
            if syn:
                uses_foreign = [a for a in args if any(y["k"] == "Path" and y.get("lid") in foreign for y in rwalk(a))]
                cal = c.get("resolved") or c.get("callee") or c.get("method")
                rep.ob(rid, "%s/args-file@%s" % (g.rsplit("::", 1)[-1], (cal or "?").rsplit("::", 1)[-1]), not uses_foreign,
                       "%s lowers the type arguments of an import type through %s with the IMPORTED module as current file: a name in the arguments that the imported module also declares (privately) is bound to that declaration instead of the importer's" % (g, cal),
                       "%s:%s" % (f.file, c["line"]), sample={"fn": g, "call": cal})
            # (b) qualifier handed to a scope-stack searcher
            ent = [a for a in args if "TsEntityName" in (a.get("ty") or "")]
            if ent:
                cal = c.get("resolved") or c.get("callee")
                tg = F._callee_gid(f.crate, cal) if cal else None
                seen, work, hit = set(), [tg] if tg else [], None
                depth = {tg: 0}
                while work:
                    x = work.pop()
                    if x in seen or x not in F.hir:
                        continue
                    seen.add(x)
                    if x in searchers:
                        hit = x
                        break
                    if depth[x] >= 3:
                        continue
                    for c2 in rwalk(F.hir[x]["body"]):
                        if c2["k"] in ("Call", "MethodCall") and any("TsEntityName" in (a.get("ty") or "") for a in (c2.get("args") or [])):
                            cal2 = c2.get("resolved") or c2.get("callee")
                            t2 = F._callee_gid(F.fns[x].crate, cal2) if cal2 and x in F.fns else None
                            if t2 and t2 not in depth:
                                depth[t2] = depth[x] + 1
                                work.append(t2)
                rep.ob(rid, "%s/qualifier@%s" % (g.rsplit("::", 1)[-1], (cal or "?").rsplit("::", 1)[-1]), hit is None,
                       "%s hands the qualifier of an import type to %s, which searches the generic-parameter stack: inside `type W<T>` the type `import(\"./m\").T` becomes W's argument instead of m's export T" % (g, hit),
                       "%s:%s" % (f.file, c["line"]), sample={"fn": g, "call": cal, "searcher": hit})
    rep.floor(rid, "functions that take an import type", n, 1)

    # ---------------------------------------------------------------- C09.12
    rep.rule("C09.12", "a declaration is recorded in one table of the module's local declarations")
    one_table_rule(cx, rep, "C09.12")


def one_table_rule(cx, rep, rid):
    """The local declarations of a module are kept in one table per kind (type aliases, interfaces, enums, values by
    annotation, values by initialiser).  The in-file lookup and the export-list binder consult these tables in
    DIFFERENT orders, so a name recorded in two of them means one thing when used in its own file and another when it
    is exported through `export { x }` - the split layout then compiles differently from the single file.  Decided on
    every function that inserts into fields of the locals struct: no path through one execution of its body (one loop
    iteration) performs inserts into two different tables."""
    from mirflow import FnFlow
    from rules.c04 import natural_loops
    F = cx.rs
    n = 0
    for g in sorted(F.fns):
        f = F.fns[g]
        if not f.mir or f.crate == WASM or "/src/swc_tools/" not in (f.file or ""):
            continue
        flow = FnFlow(f)
        sites = []
        for c in f.calls:
            if not (c.path or "").endswith("::insert") or not c.term["args"]:
                continue
            a0 = c.term["args"][0].get("place")
            if a0 is None:
                continue
            tables = set()
            for bi, d in flow.defs_of(a0["l"]):
                rv = d.get("rv") or {}
                pl = rv.get("place") or {}
                for p_ in pl.get("p", []):
                    m = re.match(r"^f:([\w:]*Locals)::(\w+)$", p_)
                    if m:
                        tables.add((m.group(1), m.group(2)))
            for t in tables:
                sites.append((c.bb, t, c))
        if len({t for _, t, _ in sites}) < 2:
            continue
        n += 1
        headers = set(natural_loops(flow).keys())
        bad = None
        for bb1, t1, c1 in sites:
            reach = flow.reachable_from(bb1, stop=headers - {bb1})
            for bb2, t2, c2 in sites:
                if t2 != t1 and t2[0] == t1[0] and bb2 != bb1 and bb2 in reach:
                    bad = (t1[1], t2[1], c2)
        rep.ob(rid, "%s/one-table" % g.rsplit("::", 1)[-1], bad is None,
               "%s can record one declaration in `%s` AND in `%s`: the two tables are consulted in different orders by the in-file lookup and by the export-list binder, so the name resolves differently depending on the module layout" % (g, bad[0] if bad else "", bad[1] if bad else ""),
               "%s:%s" % (f.file, bad[2].line if bad else f.line), sample={"fn": g, "tables_written": sorted({t[1] for _, t, _ in sites})})
    rep.floor(rid, "functions that write several tables of the local declarations", n, 1)


LOC_TY = re.compile(r"(TypeAddress|ValueAddress|ModuleItemAddress|Anchor|BffFileName)\b")


def payload_file_rule(cx, rep, rid):
    """Several records of the frontend pair a piece of SYNTAX (a declaration, an initialiser, a type) with WHERE it
    was found (`AddressedType::Enum {t, local_address}`, `AddressedQualifiedType::WillBeUsedForEnumItem {enum_type,
    address}`, `AddressedValue::ValueExpr(expr, file)`, `SymbolExport::* {.., original_file}` ..).  Names inside the
    syntax mean what they mean in THAT file.  Whoever takes the syntax out of such a record and hands it (or a part
    of it) to a function that also receives a file / address / anchor must hand over a location taken from the same
    record; with the location of the place of USE instead, a split program resolves those names in the wrong module
    (spurious `cannot resolve`, or silently a same-named binding of the using module).  The records are found by their
    field types; the provenance of arguments is followed through let / if-let / match bindings."""
    F = cx.rs
    records = {}
    for gid, a in sorted(F.adts.items()):
        if a.get("crate") != "beff_core":
            continue
        for v in a["variants"]:
            syn = [fl["name"] for fl in v["fields"] if "swc_ecma_ast::" in fl["ty"]]
            loc = [fl["name"] for fl in v["fields"] if LOC_TY.search(fl["ty"])]
            if syn and loc:
                records[gid + "::" + v["name"] if a["kind"] == "Enum" else gid] = (set(syn), set(loc))
    rep.floor(rid, "record types that pair syntax with its location", len(records), 8)
    n = 0
    for g in sorted(F.hir):
        f = F.fns.get(g)
        if f is None or f.crate == WASM or g.startswith("<") and " as std::" in g:
            continue
        tree = F.hir[g]
        recs = []
        tagged = {}
        for p in walk(tree["body"]):
            d = p.get("def") or ""
            if p["k"] not in ("P.Struct", "P.TupleStruct") or d not in records:
                continue
            syn, loc = records[d]
            subs = [(fl["name"], fl["pat"]) for fl in p.get("fields", [])] if p["k"] == "P.Struct" else [(str(i), sp) for i, sp in enumerate(p.get("pats", []))]
            k = "%s@%s" % (d.rsplit("::", 1)[-1], p.get("line"))
            has_syn = False
            for name, sp in subs:
                for b in walk(sp):
                    if b["k"] == "P.Binding":
                        if name in syn:
                            tagged.setdefault(b.get("lid"), set()).add("syn#" + k)
                            has_syn = True
                        elif name in loc:
                            tagged.setdefault(b.get("lid"), set()).add("loc#" + k)
            if has_syn:
                recs.append((k, d, p))
        if not recs:
            continue
        D = Deriv(tree)
        D.tagged = tagged
        D.field_adt = "\0"
        parent = {}
        for x in walk(tree["body"]):
            for c_ in _children(x):
                parent[id(c_)] = x

        def closure_lids(e, depth=0, seen=None):
            seen = seen if seen is not None else set()
            out = {}
            for x in walk(e):
                if x["k"] == "Path" and x.get("res") == "local" and x.get("lid") not in seen:
                    seen.add(x["lid"])
                    out[x["lid"]] = x.get("ty") or ""
                    if depth < 6:
                        for e2 in D.src.get(x["lid"], []):
                            out.update(closure_lids(e2, depth + 1, seen))
            return out
        # the address a record was FETCHED with (the scrutinee / initialiser the pattern is matched against derives
        # from a lookup keyed by it) names the same declaration
        fetch_keys = {}
        for k, d, p in recs:
            n_ = p
            scrut = None
            while id(n_) in parent:
                par = parent[id(n_)]
                if par["k"] == "Arm" and id(par) in parent and parent[id(par)]["k"] == "Match":
                    scrut = parent[id(par)]["scrut"]
                    break
                if par["k"] in ("Let", "LetStmt") and par.get("init") is not None:
                    scrut = par["init"]
                    break
                n_ = par
            fetch_keys[k] = {lid for lid, ty in closure_lids(scrut).items() if re.search(r"(TypeAddress|ValueAddress|ModuleItemAddress)\b", ty)} if scrut is not None else set()
        for c in walk(tree["body"]):
            if c["k"] not in ("Call", "MethodCall"):
                continue
            args = ([c["recv"]] + c["args"]) if c["k"] == "MethodCall" else c["args"]
            if c["k"] == "MethodCall" and c["method"] in ("clone", "as_ref", "iter", "find", "and_then", "map", "cloned", "into_iter", "unwrap", "expect", "ok_or", "ok_or_else", "to_string", "borrow"):
                continue
            if c["k"] == "Call" and re.search(r"^std::|^core::|^alloc::", c.get("callee") or ""):
                continue
            tags = [D.tags(a) for a in args]
            for k, d, _p in recs:
                syn_args = [a for a, t_ in zip(args, tags) if "syn#" + k in t_ and "swc_ecma_ast::" in (a.get("ty") or "")]
                if not syn_args:
                    continue
                # (a location that travelled through a tuple together with the syntax carries both tags: judge it by
                # its type, not by the absence of the syntax tag)
                ctx_args = [(a, t_) for a, t_ in zip(args, tags) if LOC_TY.search(a.get("ty") or "") and "swc_ecma_ast::" not in (a.get("ty") or "")]
                if not ctx_args:
                    continue
                n += 1
                ok = any("loc#" + k in t_ or (set(closure_lids(a_)) & fetch_keys[k]) for a_, t_ in ctx_args)
                callee = c.get("method") or (c.get("callee") or "?").rsplit("::", 1)[-1]
                rep.ob(rid, "%s/%s/%s" % (g.rsplit("::", 1)[-1], d.rsplit("::", 1)[-1], callee), ok,
                       "%s takes syntax out of a `%s` record and passes it to %s together with a file / address that does not come from the same record: names inside the syntax are then resolved in the module of the place of USE, so moving the declaration into another file changes what it means" % (g, d.rsplit("::", 2)[-2] + "::" + d.rsplit("::", 1)[-1], callee),
                       "%s:%s" % (f.file, c["line"]), sample={"fn": g, "record": d, "call": callee})
    rep.floor(rid, "hand-overs of located syntax", n, 4)


def local_type_before_import_rule(cx, rep, rid):
    """TypeScript lets a module import a VALUE `User` and declare a TYPE `User` (the companion pattern): in type
    position the local declaration is meant.  In a single file the constant and the type live in different tables and
    never meet; once the constant moves to another module the name is in the import table too.  The type-side lookup
    of a local name therefore asks the tables of local TYPE declarations (aliases, interfaces) first and the import
    table only when none of them has the name; asked first, the import table forwards the reference to the other
    module (spurious `cannot resolve`, or a same-named type re-exported from there).  Decided: in every function that
    looks a name up both in a table of pure type declarations (field type ..TsTypeAliasDecl / TsInterfaceDecl) and in
    the import table of a parsed module, each import lookup comes after the type-table lookups of the same block."""
    F = cx.rs
    type_tables, import_tables = set(), set()
    for gid, a in F.adts.items():
        if a.get("crate") != "beff_core":
            continue
        for v in a["variants"]:
            for fl in v["fields"]:
                if re.search(r"Map<std::string::String, std::rc::Rc<swc_ecma_ast::(TsTypeAliasDecl|TsInterfaceDecl)>>", fl["ty"]):
                    type_tables.add(fl["name"])
                if re.search(r"Map<std::string::String, std::rc::Rc<[\w:]*ImportReference>>", fl["ty"]):
                    import_tables.add(fl["name"])
    if not type_tables or not import_tables:
        rep.anchor_missing(rid, "tables of local type declarations / the import table (by field type)")
        return
    n = 0
    for g, t in sorted(F.hir.items()):
        f = F.fns.get(g)
        if f is None or f.crate == WASM:
            continue
        for blk in walk(t["body"]):
            if blk["k"] != "Block":
                continue
            seq = []     # (kind, stmt index, node)
            for i_, st in enumerate(blk.get("stmts", []) + ([blk["expr"]] if blk.get("expr") is not None else [])):
                e = st.get("e") if st["k"] in ("ExprStmt", "Semi") else st
                if e is None or e["k"] not in ("If", "Match", "LetStmt"):
                    continue
                head = e.get("cond") if e["k"] == "If" else (e.get("scrut") if e["k"] == "Match" else e.get("init"))
                if head is None:
                    continue
                for x in walk(head):
                    if x["k"] == "MethodCall" and x["method"] in ("get", "contains_key"):
                        r = x["recv"]
                        while r["k"] in ("AddrOf", "Unary"):
                            r = r["e"]
                        if r["k"] == "Field" and r["name"] in type_tables:
                            seq.append(("type", i_, x))
                        elif r["k"] == "Field" and r["name"] in import_tables:
                            seq.append(("import", i_, x))
            kinds = {k for k, _, _ in seq}
            if kinds != {"type", "import"}:
                continue
            n += 1
            last_type = max(i_ for k, i_, _ in seq if k == "type")
            early = [x for k, i_, x in seq if k == "import" and i_ < last_type]
            rep.ob(rid, "%s/local-types-before-imports" % g.rsplit("::", 1)[-1], not early,
                   "%s asks the import table for a name before the tables of local type declarations: a module that imports a value `User` and declares a type `User` then resolves the type reference in the module the VALUE comes from - splitting the constant off into its own file changes what the type means" % g,
                   "%s:%s" % (f.file, (early[0] if early else seq[0][2]).get("line")), sample={"fn": g, "order": [k for k, _, _ in sorted(seq, key=lambda z: z[1])]})
    rep.floor(rid, "lookups of one name in local type tables and in the import table", n, 1)


# ---------------------------------------------------------------------------------------------------- C09.15
def memo_key_hits(F, all_files=False):
    """Functions that (1) ask the host - a call of a method of a local trait on a generic receiver (FileManager /
    FsModuleResolver: module resolution, file lookup), (2) store the answer in a map field of `self` and (3) look the
    same map up before asking: the key handed to `insert` must mention every argument of the query OUTSIDE any
    conditional construct (closure, if, match).  Returns [(fn, loc, query, [missing argument names])]."""
    from facts import walk as hwalk
    trait_methods = {m for t in F.traits.values() for m in t.get("items", [])}
    out = []
    for g, tree in sorted(F.hir.items()):
        f = F.fns.get(g)
        if f is None or f.kind == "Closure":
            continue
        lets = {}
        for n in hwalk(tree["body"]):
            if n["k"] == "LetStmt" and n["pat"]["k"] == "P.Binding" and n.get("init") is not None:
                lets[n["pat"].get("lid")] = n["init"]
            if n["k"] == "Let" and n.get("init") is not None:
                # `if let Some(entry) = table.get_mut(k)`: the binding stands for the looked-up entry
                for q_ in hwalk(n["pat"]):
                    if q_["k"] == "P.Binding":
                        lets[q_.get("lid")] = n["init"]
        queries = [n for n in hwalk(tree["body"]) if n["k"] == "MethodCall" and not n.get("resolved") and
                   any((n.get("callee") or "") == m or m.endswith("::" + (n.get("callee") or "\0")) or (n.get("callee") or "").endswith(m) for m in trait_methods)
                   and (n.get("recv_ty") or "").lstrip("&mut ").strip() in ("R", "T", "H", "F", "M") or
                   (n["k"] == "MethodCall" and not n.get("resolved") and n.get("callee") in trait_methods and len((n.get("recv_ty") or "").replace("&mut ", "").replace("&", "").strip()) <= 2)]
        if not queries:
            continue
        inserts = [n for n in hwalk(tree["body"]) if n["k"] == "MethodCall" and n.get("method") == "insert" and len(n.get("args") or []) == 2 and
                   any(x["k"] == "Field" for x in hwalk(n["recv"])) and ("BTreeMap" in (n.get("callee") or "") or "HashMap" in (n.get("callee") or ""))]
        gets = [n for n in hwalk(tree["body"]) if n["k"] == "MethodCall" and n.get("method") in ("get", "contains_key", "entry") and
                any(x["k"] == "Field" for x in hwalk(n["recv"])) and ("BTreeMap" in (n.get("callee") or "") or "HashMap" in (n.get("callee") or ""))]
        def field_name(e):
            fs = [x["name"] for x in hwalk(e) if x["k"] == "Field"]
            return fs[0] if fs else None
        def locals_unconditional(e, depth=4):
            """(unconditional local lids, conditional local lids) mentioned by e, resolving let-bound locals"""
            un, co = set(), set()
            def go(n, cond, d):
                if not isinstance(n, dict):
                    return
                k = n.get("k")
                if k == "Path" and n.get("res") == "local":
                    (co if cond else un).add(n.get("lid"))
                    if n.get("lid") in lets and d > 0:
                        go(lets[n["lid"]], cond, d - 1)
                    return
                for key, v in n.items():
                    c2 = cond or k in ("Closure",) or (k == "If" and key in ("then", "else")) or (k == "Match" and key == "arms")
                    if isinstance(v, dict):
                        go(v, c2, d)
                    elif isinstance(v, list):
                        for y in v:
                            if isinstance(y, dict):
                                go(y, c2, d)
            go(e, False, depth)
            return un, co
        for q in queries:
            qargs = []
            for a in q["args"]:
                ls = [x for x in hwalk(a) if x["k"] == "Path" and x.get("res") == "local"]
                if ls:
                    qargs.append(ls[0])
            # is the answer stored?  the inserted value derives from the query
            for ins in inserts:
                fld = field_name(ins["recv"])
                if not any(field_name(gt["recv"]) == fld for gt in gets):
                    continue
                vun, vco = locals_unconditional(ins["args"][1])
                qlet = [l for l, init in lets.items() if any(x is q for x in hwalk(init))]
                if not (any(x is q for x in hwalk(ins["args"][1])) or any(l in vun | vco for l in qlet)):
                    continue
                kun, kco = locals_unconditional(ins["args"][0])
                # a nested table: the entry the map lives in was itself looked up with some of the arguments
                run, rco = locals_unconditional(ins["recv"])
                kun |= run
                missing = [a.get("name") for a in qargs if a.get("lid") not in kun]
                if missing:
                    out.append((g, "%s:%s" % (f.file, ins.get("line")), q.get("callee"), missing))
    return out


# ---------------------------------------------------------------------------------------------------- C09.16
def explicit_before_star_rule(cx, rep, rid):
    """`export * from "./a"` re-exports the names of a.ts EXCEPT those the module exports itself, whether declared
    here or re-exported by name (`export { X } from "./b"`): an explicit export always wins.  Decided for every lookup
    function of the export tables that walks the `export *` targets of its module (a loop over the Vec of star
    targets): each lookup in one of the module's OWN name tables is evaluated before that walk starts (evaluation
    order over the typed HIR: receiver, arguments, `or_else` closures in chain order, statements in order)."""
    F = cx.rs
    from facts import walk as hwalk
    from hirpath import eval_sequence
    rep.rule(rid, "an explicit export of a module is found before the names brought in by `export *`")
    n = 0
    for g, t in sorted(F.hir.items()):
        f = F.fns.get(g)
        if f is None or f.kind == "Closure" or "/src/swc_tools/" not in (f.file or ""):
            continue
        seq = eval_sequence(t["body"])
        idx = {id(x): i for i, x in enumerate(seq)}
        def self_field(e):
            while isinstance(e, dict) and e.get("k") in ("AddrOf", "Deref", "DropTemps", "Unary"):
                e = e["e"]
            if isinstance(e, dict) and e.get("k") == "Field" and isinstance(e.get("e"), dict):
                b = e["e"]
                while b.get("k") in ("AddrOf", "Deref", "DropTemps", "Unary"):
                    b = b["e"]
                if b.get("k") == "Path" and b.get("name") == "self":
                    return e
            return None
        star_loops = []
        for x in seq:
            if x["k"] == "Match" and x.get("src") == "ForLoopDesugar" and x["scrut"].get("args"):
                fl = [y for y in hwalk(x["scrut"]["args"][0]) if self_field(y) is not None and "Vec<" in (y.get("ty") or "") and "BffFileName" in (y.get("ty") or "")]
                if fl:
                    star_loops.append(x)
            if x["k"] == "MethodCall" and (x.get("callee") or "").startswith("std::iter::Iterator::") and any(a_.get("k") == "Closure" for a_ in x.get("args") or []):
                fl = [y for y in hwalk(x["recv"]) if self_field(y) is not None and "Vec<" in (y.get("ty") or "") and "BffFileName" in (y.get("ty") or "")]
                if fl:
                    star_loops.append(x)
        # .. or the walk sits in a helper of the same type (`self.lookup_in_extended(name, files)`)
        for x in seq:
            if x["k"] in ("Call", "MethodCall"):
                cal = x.get("callee") if x["k"] == "Call" else (x.get("resolved") or x.get("callee"))
                tg = F._callee_gid(f.crate, cal or "")
                if tg in F.hir and tg != g and F.fns.get(tg) is not None and "/src/swc_tools/" in (F.fns[tg].file or ""):
                    ht = F.hir[tg]
                    if any(y["k"] == "Match" and y.get("src") == "ForLoopDesugar" and y["scrut"].get("args") and
                           any(z["k"] == "Field" and z.get("name") == "extends" for z in hwalk(y["scrut"]["args"][0])) for y in hwalk(ht["body"])) and \
                            not any(y["k"] == "MethodCall" and y.get("method") in ("get", "contains_key") and self_field(y["recv"]) is not None for y in hwalk(ht["body"])):
                        star_loops.append(x)
        if not star_loops:
            continue
        # evaluation of the star walk STARTS at its first inner node
        star_start = min(min(idx.get(id(y), 10 ** 9) for y in hwalk(sl)) for sl in star_loops)
        own = [x for x in seq if x["k"] == "MethodCall" and x.get("method") in ("get", "contains_key", "get_mut") and self_field(x["recv"]) is not None
               and ("BTreeMap<" in (self_field(x["recv"]).get("ty") or "") or "HashMap<" in (self_field(x["recv"]).get("ty") or ""))]
        if not own:
            continue
        n += 1
        late = [x for x in own if idx[id(x)] > star_start]
        rep.ob(rid, "%s/own-tables-first" % g.rsplit("::", 1)[-1], not late,
               "%s consults its own table%s `%s` only after the walk over the `export *` targets: a name the module re-exports explicitly (`export { X } from \"./b\"`) is answered from a star target that happens to export the same name (`export * from \"./a\"`), where TypeScript takes the explicit one" % (
                   g, "s" if len(late) > 1 else "", ", ".join(sorted({self_field(x["recv"])["name"] for x in late}))),
               "%s:%s" % (f.file, late[0].get("line") if late else f.line), sample={"fn": g, "own_lookups": len(own), "after_the_star_walk": len(late)})
    rep.floor(rid, "export lookups that walk the star targets", n, 1)


# ---------------------------------------------------------------------------------------------------- C09.18
def type_only_marker_hits(F, select):
    """reads of a `type_only` / `is_type_only` field: in a struct pattern that binds it, or as a field expression"""
    hits = []
    for g, t in sorted(F.hir.items()):
        f = F.fns.get(g)
        if f is None or not select(f):
            continue
        for x in walk(t["body"]):
            if x["k"] == "P.Struct":
                for fl in x.get("fields", []):
                    if fl["name"] in ("type_only", "is_type_only") and fl["pat"].get("k") != "P.Wild":
                        hits.append((g, f, fl["name"], x["line"]))
            if x["k"] == "Field" and x.get("name") in ("type_only", "is_type_only"):
                hits.append((g, f, x["name"], x["line"]))
        for p_ in t.get("params", []):
            for x in walk(p_):
                if x["k"] == "P.Struct":
                    for fl in x.get("fields", []):
                        if fl["name"] in ("type_only", "is_type_only") and fl["pat"].get("k") != "P.Wild":
                            hits.append((g, f, fl["name"], x["line"]))
    return hits


def type_only_marker_rule(cx, rep, rid):
    """`export type { A }`, `export { type A }`, `import type { A }` mark a name as usable in type positions only - and
    `typeof A` is a type position: the VALUE meaning of A stays reachable for type queries, which is all this compiler
    ever does with values.  Moving the declarations of a program into modules must not change what `typeof A` is, so a
    binder that files a type-only export under the type table alone (or skips its value lookups) turns a program that
    compiles as one file into `cannot resolve value` - or silently binds `A` to a star export of the same name - when
    it is split.  Decided: no function of the binder (swc_tools) reads the `type_only` / `is_type_only` markers of the
    syntax tree; a positive control in the canary crate keeps the matcher alive."""
    F = cx.rs
    rep.rule(rid, "the type-only markers of import / export lists take no part in binding (`typeof` may name a type-only export)")
    hits = type_only_marker_hits(F, lambda f: "/src/swc_tools/" in (f.file or ""))
    rep.ob(rid, "scan", True, sample={"reads_of_type_only_markers_in_the_binder": len(hits)})
    for g, f, name, line in hits:
        rep.ob(rid, "%s/%s" % (f.name, name), False,
               "%s reads the `%s` marker of an import / export list: a name exported type-only keeps its value meaning for `typeof`; binding it as a type only makes `typeof A` unresolvable (or resolves it to a star export of the same name) once the declaration lives in another module, although the single-file program compiles" % (g, name),
               "%s:%s" % (f.file, line), sample={"fn": f.name, "field": name})
    if cx.canary is not None:
        names = {h[1].name for h in type_only_marker_hits(cx.canary, lambda f: True)}
        rep.ob(rid, "control/canary-type-only", "bind_reads_type_only_marker" in names and "bind_ignores_type_only_marker" not in names,
               "positive control: the canary function that branches on `is_type_only` must be reported and its twin must not (reported: %s)" % sorted(names), "canary/rs/src/lib.rs")
    else:
        rep.anchor_missing(rid, "canary crate facts")


# ---------------------------------------------------------------------------------------------------- C09.17
def star_shadowing_rule(cx, rep, rid):
    """A name a module exports itself hides the same name coming in through `export *` - whether the module declares
    it (named_values / named_types) or re-exports it by name (`export { x } from "./a"`, kept in named_unknown until
    its kind is known).  Wherever the members of the star targets are COLLECTED (a loop over the module's star list
    whose body tests the module's own tables to decide whether a star member is hidden), the test consults the table
    of named re-exports as well; a test that looks at the declared names only lets `export * from "./b"` override
    `export { x } from "./a"` in the namespace object."""
    F = cx.rs
    from facts import walk as hwalk
    rep.rule(rid, "a member brought in by `export *` is hidden by every own export of the module, named re-exports included")
    n = 0
    for g, t in sorted(F.hir.items()):
        f = F.fns.get(g)
        if f is None or f.crate == "beff_wasm":
            continue
        for lp in hwalk(t["body"]):
            if not (lp["k"] == "Match" and lp.get("src") == "ForLoopDesugar" and lp["scrut"].get("args")):
                continue
            it = lp["scrut"]["args"][0]
            if not any(y["k"] == "Field" and y.get("name") == "extends" and (y.get("adt") or "").endswith("SymbolsExportsModule") for y in hwalk(it)):
                continue
            tests = {}
            for y in hwalk(lp):
                if y["k"] == "MethodCall" and y.get("method") in ("contains_key", "get") and y is not lp:
                    for z in hwalk(y["recv"]):
                        if z["k"] == "Field" and (z.get("adt") or "").endswith("SymbolsExportsModule") and z.get("name", "").startswith("named_"):
                            tests[z["name"]] = y
            if not tests:
                continue
            n += 1
            rep.ob(rid, "%s/own-exports-hide-star-members" % g.rsplit("::", 1)[-1], "named_unknown" in tests,
                   "%s collects the members of the `export *` targets and hides those the module exports itself by looking at %s only: a name the module re-exports explicitly (`export { x } from \"./a\"`, table named_unknown) is overridden by the `x` of a star target" % (g, ", ".join(sorted(tests))),
                   "%s:%s" % (f.file, lp.get("line")), sample={"fn": g, "tables_consulted": sorted(tests)})
    # the same bookkeeping in its other spelling (since fix 72dd0ae): own names are ENTERED into a set of seen names while
    # the module's own tables are walked, and a star member is dropped when its name is already there.  Then every loop
    # over an own table, in a function that also walks the star list, enters its names (seed C09-m re-expressed: the
    # loop over the named re-exports did not)
    for g, t in sorted(F.hir.items()):
        f = F.fns.get(g)
        if f is None or f.crate == "beff_wasm":
            continue
        if not any(y["k"] == "Field" and y.get("name") == "extends" and (y.get("adt") or "").endswith("SymbolsExportsModule") for y in hwalk(t["body"])):
            continue
        lets = {}
        for x in hwalk(t["body"]):
            if x["k"] == "LetStmt" and x.get("init") is not None:
                tabs = {z["name"] for z in hwalk(x["init"]) if z["k"] == "Field" and (z.get("adt") or "").endswith("SymbolsExportsModule") and z.get("name", "").startswith("named_")}
                if tabs:
                    for b in hwalk(x["pat"]):
                        if b["k"] == "P.Binding":
                            lets[b.get("lid")] = tabs
        loops = []
        for lp in hwalk(t["body"]):
            if lp["k"] == "Match" and lp.get("src") == "ForLoopDesugar":
                tabs = set()
                for y in hwalk(lp["scrut"]):
                    if y["k"] == "Field" and (y.get("adt") or "").endswith("SymbolsExportsModule") and y.get("name", "").startswith("named_"):
                        tabs.add(y["name"])
                    if y["k"] == "Path" and y.get("lid") in lets:
                        tabs |= lets[y["lid"]]
                if tabs:
                    enters = any(z["k"] == "MethodCall" and z.get("method") == "insert" and re.search(r"Set<std::string::String>", z.get("recv_ty") or "") for z in hwalk(lp["arms"]))
                    loops.append((lp, tabs, enters))
        if loops and any(e for _, _, e in loops):
            n += 1
            bad = [(lp, tabs) for lp, tabs, e in loops if not e]
            rep.ob(rid, "%s/own-names-entered" % g.rsplit("::", 1)[-1], not bad,
                   "%s walks the star list and enters the module's own names into a set of seen names, but its loop over %s does not: a member of an `export *` target with the name of an explicit re-export is listed too and overrides it in the namespace object" % (g, ", ".join(sorted(bad[0][1])) if bad else "?"),
                   "%s:%s" % (f.file, bad[0][0].get("line") if bad else f.line), sample={"fn": g})
    rep.ob(rid, "scan", True, sample={"collecting_star_walks": n})


# ---------------------------------------------------------------------------------------------------------------------
def set_once_rule(cx, rep, rid):
    """A *set-once slot* is a field with a setter that refuses a second value - it panics, or (since the repair of the
    second-default-export panic) records the refusal in a sibling field and leaves - when the slot is already filled (today: the default export
    of a module).  *Keyed wrappers* reach the setter when their key parameter equals a reserved literal (`insert_type`,
    `insert_value`, `insert_unknown` for the key "default").  Decided: on no syntactic path through ONE processed item
    (one loop iteration / one visitor call) can the setter be reached twice - counting direct setter calls and calls
    to keyed wrappers whose key may be the reserved word.  A key may be the reserved word when it derives from export-
    specifier syntax (a value of type `ModuleExportName`, or a struct field that was filled from one): `export { E as
    default }`.  The identifier of a declaration (`enum E`, `const x`) is never a reserved word, so the two inserts of
    `export enum E` are fine.  Necessary for C04 (no panic) and C09 (the split program gives the single-file result)."""
    F = cx.rs
    crate = "beff_core"
    trees = {g: t for g, t in F.hir.items() if F.fns.get(g) is not None and F.fns[g].crate == crate}

    def callee_gid(n):
        c = n.get("callee") if n["k"] == "Call" else (n.get("resolved") or n.get("callee"))
        return F._callee_gid(crate, c) if c else None

    def has_panic(n):
        return any(x["k"] == "Call" and "panicking" in (x.get("callee") or "") for x in walk(n))

    # ---- setters, by role: a function that assigns a field and panics under a test of that same field -
    # `if self.f.is_some() { panic } .. self.f = ..`, and the spellings benign patches gave it: `assert!(self.f.is_none())`
    # (b62), `match self.f { Some(_) => panic!(..), None => self.f = Some(v) }` (b35)
    # Since fix ee-default (the second default export is an error of the module, not a panic) the refusal is also read
    # in its non-panicking spelling: the branch taken when the slot is filled does not assign the slot and records the
    # refusal in ANOTHER field of the same type (`self.duplicate_default_export = true; return`).
    setters = {}
    marks = {}      # setter gid -> fields that record a refusal
    for g, t in trees.items():
        guarded = set()
        for n in walk(t["body"]):
            if n["k"] == "If":
                test = n["cond"]
                branches = [n["then"]] + ([n["else"]] if n.get("else") else [])
            elif n["k"] == "Match":
                test = n["scrut"]
                branches = [a["body"] for a in n["arms"]]
            else:
                continue
            tested = {(c.get("adt"), c["name"]) for c in walk(test) if c["k"] == "Field"}

            def refuses(b_):
                if has_panic(b_):
                    return True
                asg = {(x["l"].get("adt"), x["l"]["name"]) for x in walk(b_) if x["k"] == "Assign" and x["l"]["k"] == "Field"}
                return bool(asg) and not (asg & tested) and any(a_[0] in {t_[0] for t_ in tested} for a_ in asg)
            if tested and any(refuses(b_) for b_ in branches):
                guarded |= tested
                for b_ in branches:
                    if refuses(b_) and not has_panic(b_):
                        marks.setdefault(g, set()).update(
                            (x["l"].get("adt"), x["l"]["name"]) for x in walk(b_) if x["k"] == "Assign" and x["l"]["k"] == "Field")
        for n in walk(t["body"]):
            if n["k"] == "Assign" and n["l"]["k"] == "Field" and (n["l"].get("adt"), n["l"]["name"]) in guarded:
                setters[g] = "%s.%s" % (n["l"].get("adt"), n["l"]["name"])
    rep.floor(rid, "set-once setters (refuse a second value when the slot is filled)", len(setters), 1)

    # ---- a refusal that does not panic must not be lost: the field that records it is tested somewhere, and the branch
    # taken when it is set leaves the function (`if symbol_exports.duplicate_default_export { return Err(..) }`) - else
    # the second value is dropped silently and the module is compiled as if it had been valid (guards fix 76e8a71)
    for g in sorted(marks):
        if g not in setters:
            continue
        for (adt, fld) in sorted(marks[g], key=str):
            readers = []
            for g2, t2 in trees.items():
                for n in walk(t2["body"]):
                    if n["k"] == "If" and any(c["k"] == "Field" and c["name"] == fld and c.get("adt") == adt for c in walk(n["cond"])):
                        bs = [n["then"]] + ([n["else"]] if n.get("else") else [])
                        if any(x["k"] == "Ret" or (x["k"] == "Call" and "panicking" in (x.get("callee") or "")) for b_ in bs for x in walk(b_)):
                            readers.append(g2)
            rep.ob(rid, "%s/refusal-mark-consulted/%s" % (g.rsplit("::", 1)[-1], fld), bool(readers),
                   "the setter %s records a refused second value in `%s.%s`, and no function tests that field and leaves when it is set: "
                   "the refusal is lost and the module is compiled as if it were valid" % (g, adt, fld),
                   F.fns[g].loc(), sample={"fn": g, "readers": sorted(readers)})

    # ---- forwarding helpers: functions that call a setter on every path (`set_renamed_default_export(export)` of
    # b49 / b62 / b81 wraps the payload and hands it to the setter); calling one IS reaching the setter
    def on_every_path(n):
        if not isinstance(n, dict):
            return
        yield n
        k = n["k"]
        subs = [n["cond"]] if k == "If" else [n["scrut"]] if k == "Match" else [] if k in ("Loop", "Closure") else _children(n)
        for c in subs:
            for y in on_every_path(c):
                yield y
    all_setters = dict(setters)
    for _ in range(2):
        for g, t in trees.items():
            if g not in all_setters:
                for x in on_every_path(t["body"]):
                    if x["k"] in ("Call", "MethodCall") and callee_gid(x) in all_setters:
                        all_setters[g] = all_setters[callee_gid(x)]
                        break

    def param_lids(t):
        out = []
        for p in t.get("params", []):
            out.append([b.get("lid") for b in walk(p) if b["k"] == "P.Binding"])
        return out

    def args_of(n):
        return ([n["recv"]] if n["k"] == "MethodCall" else []) + list(n.get("args") or [])

    def reserved_word(s):
        """the string a comparison operand spells: a literal, or a named constant whose initialiser is one
        (`name == DEFAULT_EXPORT_NAME`, benign b93; the constant's initialiser is a body owner of its own)"""
        while s.get("k") in ("AddrOf", "DropTemps"):
            s = s["e"]
        if s["k"] == "Lit":
            return s.get("v") if s.get("lit") == "str" else None
        if s["k"] == "Path" and s.get("res") != "local" and s.get("def"):
            ct = F.hir.get(F._callee_gid(crate, s["def"])) or F.hir.get(s["def"])
            if ct is not None and not ct.get("params"):
                b = ct["body"]
                while b.get("k") == "BlockExpr" and not b["block"].get("stmts") and b["block"].get("expr"):
                    b = b["block"]["expr"]
                if b.get("k") == "Lit" and b.get("lit") == "str":
                    return b.get("v")
        return None

    # ---- keyed wrappers, level 1: the setter call sits under `if <param> == "<lit>"` (or a constant that names the literal)
    keyed = {}       # gid -> (param index, reserved literal)
    unread = []      # setter calls under a test of a parameter that is not understood
    for g, t in trees.items():
        pl = param_lids(t)
        if g in setters:
            continue
        for n in walk(t["body"]):
            if n["k"] not in ("If", "Match"):
                continue

            def sets(b_):
                return b_ is not None and any(x["k"] in ("Call", "MethodCall") and callee_gid(x) in all_setters for x in walk(b_))
            # (the setter in the THEN branch of `==`, or in the ELSE branch of `!=`)
            want = "Eq" if n["k"] == "If" and sets(n["then"]) else "Ne" if n["k"] == "If" and sets(n.get("else")) else None
            if want is None and not (n["k"] == "Match" and any(sets(a["body"]) for a in n["arms"])):
                continue
            test = n["cond"] if n["k"] == "If" else n["scrut"]

            def parts(c, op):
                """conjuncts of the condition (THEN is entered when all hold) / disjuncts (ELSE when none holds)"""
                while c.get("k") == "DropTemps":
                    c = c["e"]
                return parts(c["l"], op) + parts(c["r"], op) if c.get("k") == "Binary" and c.get("op") == op else [c]
            hit = False
            for c in (parts(test, "And" if want == "Eq" else "Or") if n["k"] == "If" else ()):
                if c["k"] == "Binary" and c.get("op") == want:
                    sides = [c["l"], c["r"]]
                    lit = [w for w in (reserved_word(s) for s in sides) if w is not None]
                    loc = [s for s in sides for p_ in walk(s) if p_["k"] == "Path" and p_.get("res") == "local"]
                    if lit and loc:
                        lids = {p_.get("lid") for s in loc for p_ in walk(s) if p_["k"] == "Path"}
                        for i, ps in enumerate(pl):
                            if lids & set(ps):
                                keyed[g] = (i, lit[0])
                                hit = True
            if not hit and any(x["k"] == "Path" and x.get("res") == "local" and any(x.get("lid") in ps for ps in pl) for x in walk(test)):
                unread.append((g, n.get("line")))
    # (by role, not by today's count: b93 leaves ONE level-1 wrapper `insert(table, name, export)`; the three per-table
    # functions delegate to it with their own key parameter and are found by the helper-wrapper discovery below.  What
    # keeps the rule from passing vacuously is that no setter call may sit under a parameter test of another shape.)
    rep.floor(rid, "keyed wrappers of a set-once setter", len(keyed), 1)
    for g, line in unread:
        rep.ob(rid, "%s/keyed-form" % g.rsplit("::", 1)[-1], False,
               "%s reaches the set-once setter under a test of one of its parameters that is not the recognised `<param> == <reserved word>`: the rule cannot tell for which keys the setter is reached" % g,
               "%s:%s" % (F.fns[g].file, line), sample={"fn": g})

    # ---- taint: values that may spell the reserved word
    SPEC = "ModuleExportName"
    derivs = {g: Deriv(t) for g, t in trees.items()}

    def closure_paths(D, expr, depth=0, seen=None):
        seen = seen if seen is not None else set()
        for x in walk(expr):
            yield x
            if x["k"] == "Path" and x.get("res") == "local" and x.get("lid") in D.src and x.get("lid") not in seen and depth < 8:
                seen.add(x["lid"])
                for e in D.src[x["lid"]]:
                    for y in closure_paths(D, e, depth + 1, seen):
                        yield y
    tainted_fields = set()
    # bindings taken out of a record by destructuring (`for UnresolvedExport { name, renamed, .. } in ..`, benign b93)
    # carry the field they are bound from, like a field read `u.renamed` does
    pat_fields = {}
    for g, t in trees.items():
        m = pat_fields[g] = {}
        for n in walk(t["body"]):
            if n["k"] == "P.Struct":
                for fl in n.get("fields") or []:
                    for b_ in walk(fl["pat"]):
                        if b_["k"] == "P.Binding":
                            m.setdefault(b_.get("lid"), set()).add((n.get("def"), fl["name"]))

    def tainted(g, expr):
        for x in closure_paths(derivs[g], expr):
            if x["k"] == "Path" and SPEC in (x.get("ty") or ""):
                return True
            if x["k"] == "Field" and (x.get("adt"), x["name"]) in tainted_fields:
                return True
            if x["k"] == "Path" and x.get("res") == "local" and pat_fields[g].get(x.get("lid"), set()) & tainted_fields:
                return True
        return False
    for _ in range(3):
        before = len(tainted_fields)
        for g, t in trees.items():
            for n in walk(t["body"]):
                if n["k"] == "Struct" and n.get("def_local"):
                    for fl in n.get("fields") or []:
                        if tainted(g, fl["e"]):
                            tainted_fields.add((n.get("def"), fl["name"]))
        if len(tainted_fields) == before:
            break

    # ---- events and per-path counts
    wrappers2 = {}    # gid -> (param index, count): local functions that reach the setter through their own parameter
    reserved = {g: v[1] for g, v in keyed.items()}    # gid -> the reserved word of a keyed / helper wrapper (None: several)

    # ---- guards that exclude the reserved key.  `t.insert_type(k, e); if k != "default" { t.insert_value(k, e) }` is the
    # repair of the defect this rule was written for (5edde90): a keyed call counts for nothing when it sits in the THEN
    # branch of an `if` whose condition implies key != reserved word, or in the ELSE branch of one whose negation does
    # (`!=`, `==`, `!`, `&&` in then, `||` in else; no match forms, no early exits - anything else keeps weight 1).
    # "The key" on both sides is the SAME string: equal after stripping borrows / to_string / clone and following
    # plain `let x = <that>` aliases, down to the same binding and the same field path (`renamed` vs. `name` of one
    # record are different keys although they share a root).
    plain_lets = {}
    for g, t in trees.items():
        m = plain_lets[g] = {}
        for n in walk(t["body"]):
            if n["k"] == "LetStmt" and n.get("init") is not None and n["pat"]["k"] == "P.Binding":
                m.setdefault(n["pat"].get("lid"), []).append(n["init"])
    SAME_STRING = ("to_string", "clone", "as_str", "as_ref", "to_owned", "borrow", "deref", "into", "as_deref")

    def same_string_root(g, e):
        fields = []
        for _ in range(24):
            k = e.get("k")
            if k in ("AddrOf", "DropTemps") or (k == "Unary" and e.get("op") == "Deref"):
                e = e["e"]
            elif k == "MethodCall" and e.get("method") in SAME_STRING and not e.get("args"):
                e = e["recv"]
            elif k == "Field":
                fields.append(e["name"])
                e = e["e"]
            elif k == "Path" and e.get("res") == "local":
                inits = plain_lets[g].get(e.get("lid"), [])
                if len(inits) != 1:
                    return (e.get("lid"), tuple(reversed(fields)))
                e = inits[0]
            else:
                return None
        return None

    def implies_not_reserved(g, cond, truth, key, word):
        """`cond` evaluating to `truth` implies key != word"""
        while cond.get("k") == "DropTemps":
            cond = cond["e"]
        k = cond.get("k")
        if k == "Unary" and cond.get("op") == "Not":
            return implies_not_reserved(g, cond["e"], not truth, key, word)
        if k == "Binary" and cond.get("op") in ("Eq", "Ne"):
            if (cond["op"] == "Ne") != truth:
                return False
            for a_, b_ in ((cond["l"], cond["r"]), (cond["r"], cond["l"])):
                if reserved_word(a_) == word and same_string_root(g, b_) == key:
                    return True
            return False
        if k == "Binary" and ((cond.get("op") == "And" and truth) or (cond.get("op") == "Or" and not truth)):
            return implies_not_reserved(g, cond["l"], truth, key, word) or implies_not_reserved(g, cond["r"], truth, key, word)
        return False
    guards_of = {}

    def guards(g, call):
        if g not in guards_of:
            m = guards_of[g] = {}

            def go(n, gs):
                if not isinstance(n, dict):
                    return
                if n["k"] in ("Call", "MethodCall"):
                    m[id(n)] = gs
                if n["k"] == "If":
                    go(n["cond"], gs)
                    go(n["then"], gs + [(n["cond"], True)])
                    go(n.get("else"), gs + [(n["cond"], False)])
                    return
                if n["k"] == "Closure":
                    gs = []
                for c in _children(n):
                    go(c, gs)
            go(trees[g]["body"], [])
        return guards_of[g].get(id(call), [])

    def guarded(g, n, kexpr, word):
        if word is None:
            return False
        key = same_string_root(g, kexpr)
        if key is None or any(x["k"] in ("Assign", "AssignOp") and any(y["k"] == "Path" and y.get("lid") == key[0] for y in walk(x["l"])) for x in walk(trees[g]["body"])):
            return False      # (a key that is assigned to between the test and the call is not the tested string)
        return any(implies_not_reserved(g, c_, tr_, key, word) for c_, tr_ in guards(g, n))

    def weight(g, n):
        if n["k"] not in ("Call", "MethodCall"):
            return 0
        tg = callee_gid(n)
        if tg in all_setters:
            return 1
        idx = None
        w = 1
        if tg in keyed:
            idx = keyed[tg][0]
        elif tg in wrappers2:
            idx, w = wrappers2[tg]
        if idx is None:
            return 0
        a = args_of(n)
        if idx >= len(a):
            return 0
        if guarded(g, n, a[idx], reserved.get(tg)):
            return 0
        return w if tainted(g, a[idx]) else 0

    def param_weight(g, n, pl):
        """for wrapper discovery: the key argument of a keyed call is one of g's own parameters"""
        if n["k"] not in ("Call", "MethodCall"):
            return None
        tg = callee_gid(n)
        idx = keyed[tg][0] if tg in keyed else (wrappers2[tg][0] if tg in wrappers2 else None)
        if idx is None:
            return None
        a = args_of(n)
        if idx >= len(a):
            return None
        if guarded(g, n, a[idx], reserved.get(tg)):
            return None
        lids = {x.get("lid") for x in closure_paths(derivs[g], a[idx]) if x["k"] == "Path" and x.get("res") == "local"}
        for i, ps in enumerate(pl):
            if lids & set(ps):
                return i
        return None

    class Counter:
        def __init__(self, wfun):
            self.w = wfun
            self.best = 0
            self.where = []

        def note(self, st):
            for c in st:
                if len(c) > self.best:
                    self.best = len(c)
                    self.where = list(c)

        def ev(self, n, st):
            if n is None or not isinstance(n, dict) or not st:
                return st
            k = n.get("k")
            if k == "Closure":
                self.note(self.ev(n.get("body"), {()}))
                return st
            if k == "BlockExpr":
                return self.ev(n["block"], st)
            if k == "Block":
                for s in n.get("stmts") or []:
                    st = self.ev(s, st)
                return self.ev(n.get("expr"), st) if n.get("expr") is not None else st
            if k == "If":
                st = self.ev(n["cond"], st)
                return self.ev(n["then"], st) | (self.ev(n.get("else"), st) if n.get("else") else st)
            if k == "Match":
                st = self.ev(n["scrut"], st)
                out = set()
                for a in n["arms"]:
                    out |= self.ev(a["body"], self.ev(a.get("guard"), st) if a.get("guard") else st)
                return out
            if k == "Loop":
                self.note(self.ev(n["body"], {()}))
                return st
            if k in ("Ret", "Break", "Continue"):
                if n.get("e"):
                    st = self.ev(n["e"], st)
                self.note(st)
                return set()
            if k in ("LetStmt", "Let"):
                st = self.ev(n.get("init"), st)
                if n.get("els"):
                    self.ev(n["els"], st)
                return st
            for c in children(n):
                if c["k"].startswith("P."):
                    continue
                st = self.ev(c, st)
            w = self.w(n)
            if w:
                st = {(c + (n["line"],) * w)[:4] for c in st}
                self.note(st)
            return st

    from facts import children
    # wrapper discovery (two rounds are enough for helper-of-helper)
    for _ in range(2):
        for g, t in trees.items():
            if g in keyed or g in all_setters:
                continue
            pl = param_lids(t)
            for i in range(len(pl)):
                cnt = Counter(lambda n, g=g, i=i, pl=pl: 1 if param_weight(g, n, pl) == i else 0)
                cnt.note(cnt.ev(t["body"], {()}))
                if cnt.best:
                    wrappers2[g] = (i, cnt.best)
                    words = {reserved.get(callee_gid(n)) for n in walk(t["body"]) if param_weight(g, n, pl) == i}
                    reserved[g] = next(iter(words)) if len(words) == 1 else None
    n_fns = 0
    for g in sorted(trees):
        t = trees[g]
        cnt = Counter(lambda n, g=g: weight(g, n))
        cnt.note(cnt.ev(t["body"], {()}))
        if not cnt.best:
            continue
        n_fns += 1
        f = F.fns[g]
        rep.ob(rid, "%s/at-most-once" % g.rsplit("::", 1)[-1], cnt.best <= 1,
               "%s can reach the set-once setter (%s) %d times on one path through one processed item (calls at lines %s): a key taken from an export specifier may be the reserved word - `enum E {..}; export { E as default }` - and the second call panics (`already set`) instead of giving code or a diagnostic"
               % (g, ", ".join(sorted(set(setters.values()))), cnt.best, cnt.where),
               "%s:%s" % (f.file, cnt.where[0] if cnt.where else f.line), sample={"fn": g, "max_setter_reaches_on_one_path": cnt.best, "lines": cnt.where})
    rep.floor(rid, "functions that can reach a set-once setter with a specifier-derived key", n_fns, 2)
    rep.rules[rid].setdefault("instances", []).append({"tainted_fields": sorted("%s.%s" % tf for tf in tainted_fields), "keyed_wrappers": {k: v[1] for k, v in keyed.items()}, "helper_wrappers": {k: list(v) for k, v in wrappers2.items()}})
