import re
"""Shared helpers for the TypeScript-side rules (runtime class family of codegen-v2.ts)."""
import tsast
from tsast import walk, walk_no_nested_fn, s, method_call, unparen

CODEGEN = "packages/beff-client/src/codegen-v2.ts"


class Family:
    def __init__(self, cx, path=None):
        self.mod = cx.ts(path or CODEGEN)
        m = self.mod
        # boolean helpers of the module: a single returned expression over the parameters
        for hn, hf in list(m.functions.items()) + [(vn, init) for vn, (_k, init, _d) in m.vars.items() if init is not None and init.get("type") in ("ArrowFunctionExpression", "FunctionExpression")]:
            b = hf.get("body")
            if b is None:
                continue
            single = (b.get("type") == "BlockStatement" and len(b["stmts"]) == 1 and b["stmts"][0]["type"] == "ReturnStatement") or b.get("type") != "BlockStatement"
            rta = (hf.get("returnType") or {}).get("typeAnnotation")
            rt = tsast.type_str(rta)
            # a TYPE GUARD `function isObj(x: unknown): x is object { return .. }` is a boolean helper as well: swc
            # gives its return annotation as a TsTypePredicate node, which type_str does not spell out (b102)
            if single and (rt in ("boolean", "") or " is " in rt or ((rta or {}).get("type") == "TsTypePredicate" and not rta.get("asserts"))):
                PREDICATE_HELPERS[hn] = hf
        self.iface = m.interfaces.get("Runtype")
        self.iface_methods = []
        if self.iface:
            for el in self.iface["body"]["body"]:
                if el["type"] == "TsMethodSignature" and el["key"]["type"] == "Identifier":
                    self.iface_methods.append(el["key"]["value"])
        # classes that (transitively) extend a class implementing Runtype, or implement it themselves
        self.classes = {}
        changed = True
        while changed:
            changed = False
            for name, c in m.classes.items():
                if name in self.classes:
                    continue
                if "Runtype" in c.implements or (c.extends in self.classes):
                    self.classes[name] = c
                    changed = True

    def concrete(self):
        return {n: c for n, c in self.classes.items() if not c.is_abstract}

    def resolve_method(self, cname, mname):
        """(defining class, ClassMethod node) following `extends`"""
        c = self.classes.get(cname) or self.mod.classes.get(cname)
        seen = set()
        while c and c.name not in seen:
            seen.add(c.name)
            if mname in c.methods:
                return c, c.methods[mname]
            c = self.mod.classes.get(c.extends) if c.extends else None
        return None, None

    def all_fields(self, cname):
        """constructor-assigned / declared fields including inherited ones: name -> (class, annotation)"""
        out = {}
        chain = []
        c = self.mod.classes.get(cname)
        while c:
            chain.append(c)
            c = self.mod.classes.get(c.extends) if c.extends else None
        for c in reversed(chain):
            for fname, node in c.fields.items():
                ann = (node.get("typeAnnotation") or {}).get("typeAnnotation")
                out[fname] = (c.name, ann)
            for fname in c.ctor_assignments():
                out.setdefault(fname, (c.name, None))
        return out


def this_fields_read(fn, mod=None, cname=None):
    """names f of `this.f` member reads inside a function (nested closures included: arrows keep `this`), also when
    they are read by destructuring (`const { f, g: local } = this`).  With `mod` / `cname`, local helpers are seen
    through: private methods called on `this` and module-level functions that are handed `this` (tsast.walk_inl)."""
    out = {}
    nodes = tsast.walk_inl(mod, cname, fn, depth=2) if mod is not None else walk(fn)
    for n in nodes:
        if n["type"] == "MemberExpression" and n["object"]["type"] == "ThisExpression" and n["property"]["type"] == "Identifier":
            out.setdefault(n["property"]["value"], n)
        if n["type"] == "OptionalChainingExpression":
            b = n["base"]
            if b["type"] == "MemberExpression" and b["object"]["type"] == "ThisExpression" and b["property"]["type"] == "Identifier":
                out.setdefault(b["property"]["value"], n)
        if n["type"] == "VariableDeclarator" and n.get("init") is not None and unparen(n["init"]).get("type") == "ThisExpression" and n["id"].get("type") == "ObjectPattern":
            for pp in n["id"]["properties"]:
                k = pp.get("key") or {}
                if pp["type"] in ("AssignmentPatternProperty", "KeyValuePatternProperty") and k.get("type") == "Identifier":
                    out.setdefault(k["value"], n)
    return out


def local_aliases(fn):
    """const x = <expr> declarations inside fn: name -> init node"""
    out = {}
    for n in walk(fn):
        if n["type"] == "VariableDeclarator" and n["id"]["type"] == "Identifier" and n.get("init") is not None:
            out[n["id"]["value"]] = n["init"]
    return out


def expr_mentions_this_field(e, fields, aliases, depth=0):
    """is the VALUE of expression e (through local const aliases, string concatenation, template
    literals, conditional expressions) one of this.<fields>?  A field used only as a lookup key
    (`table[this.f]`) or as a call argument does not make the result name-valued."""
    e = unparen(e)
    t = e.get("type")
    if t == "MemberExpression" and e["object"]["type"] == "ThisExpression" and e["property"]["type"] == "Identifier":
        return e["property"]["value"] if e["property"]["value"] in fields else None
    if t == "Identifier" and e["value"] in aliases and depth < 4:
        return expr_mentions_this_field(aliases[e["value"]], fields, {k: v for k, v in aliases.items() if k != e["value"]}, depth + 1)
    if t == "TemplateLiteral":
        for x in e["expressions"]:
            r = expr_mentions_this_field(x, fields, aliases, depth)
            if r:
                return r
    if t == "BinaryExpression" and e["operator"] == "+":
        return expr_mentions_this_field(e["left"], fields, aliases, depth) or expr_mentions_this_field(e["right"], fields, aliases, depth)
    if t == "ConditionalExpression":
        return expr_mentions_this_field(e["consequent"], fields, aliases, depth) or expr_mentions_this_field(e["alternate"], fields, aliases, depth)
    if t == "CallExpression":
        mc = method_call(e)
        if mc and mc[1] in ("toString", "trim", "toLowerCase", "toUpperCase", "slice", "concat"):
            return expr_mentions_this_field(mc[0], fields, aliases, depth)
        if s(e["callee"]) in ("String", "JSON.stringify") and e["arguments"]:
            return expr_mentions_this_field(e["arguments"][0]["expression"], fields, aliases, depth)
    return None


def digest_structure_rules(cx, rep, rid):
    fam = Family(cx)
    mod = fam.mod
    n_methods = 0
    for cname, c in sorted(fam.classes.items()):
        for mname in ("hash", "hash256"):
            if mname not in c.methods:
                continue
            fn = c.methods[mname]["function"]
            n_methods += 1
            reads = this_fields_read(fn, mod, cname)
            rep.ob(rid, "%s.%s/no-metadata" % (cname, mname), "metadata" not in reads,
                   "%s.%s reads this.metadata: a JSDoc comment / description would change the digest" % (cname, mname),
                   mod.loc(reads.get("metadata") or fn), sample={"method": "%s.%s" % (cname, mname), "fields_read": sorted(reads)})
            aliases = local_aliases(fn)
            if mname == "hash256":
                for n in walk(fn):
                    mc = method_call(n) if n["type"] == "CallExpression" else None
                    if mc and mc[1].startswith("update") and s(mc[0]).endswith("writer"):
                        for a in mc[2]:
                            hit = expr_mentions_this_field(a, {"refName", "name"}, aliases)
                            rep.ob(rid, "%s.hash256/no-names" % cname, hit is None,
                                   "%s.hash256 feeds this.%s to the digest writer: renaming a type would change hash256" % (cname, hit), mod.loc(n))
                    # bookkeeping tables of the digest context (which references are being expanded) must be keyed
                    # by the referenced validator itself: keyed by a name, the choice between expanding a reference
                    # and writing a back-reference depends on how types are named and where aliases are cut
                    ctxp = (fn_params(fn) or [None])[0]
                    if mc and ctxp and mc[1] in ("get", "set", "has", "delete", "add") and s(mc[0]).startswith(ctxp + ".") and mc[2]:
                        hit = expr_mentions_this_field(mc[2][0], {"refName", "name"}, aliases)
                        rep.ob(rid, "%s.hash256/cycle-table-key" % cname, hit is None,
                               "%s.hash256 keys %s by this.%s: cycle detection then follows type names instead of structure (alpha-equivalent recursive types get different digests, same-named types of different registries collide)" % (
                                   cname, s(mc[0]), hit), mod.loc(n), sample={"table": s(mc[0]), "key": s(mc[2][0])})
            # the digest context carries the writer and the in-progress table only: a counter (or any other field)
            # that hash256 bumps as it goes records how many references / nodes were ENTERED, which depends on where
            # aliases are cut - the digest of `{x: Once; y: Rec}` then differs from the same type with Once inlined
            if mname == "hash256":
                ctxp0 = (fn_params(fn) or [None])[0]
                for n in walk(fn):
                    tgt = None
                    if n["type"] == "UpdateExpression":
                        tgt = n["argument"]
                    elif n["type"] == "AssignmentExpression":
                        tgt = n["left"]
                    if tgt is not None and ctxp0 and s(tgt).startswith(ctxp0 + ".") and "[" not in s(tgt):
                        rep.ob(rid, "%s.hash256/no-traversal-counters" % cname, False,
                               "%s.hash256 updates %s as it traverses: a value derived from it (e.g. the id of a back-reference) depends on how many references were entered before, i.e. on alias boundaries" % (cname, s(tgt)),
                               mod.loc(n))
            # key iteration order
            for n in walk(fn):
                if n["type"] == "ForInStatement":
                    rep.ob(rid, "%s.%s/sorted-keys" % (cname, mname), False, "%s.%s iterates with for..in (insertion order of object keys)" % (cname, mname), mod.loc(n))
            for n in walk(fn):
                if n["type"] == "CallExpression" and s(n["callee"]) in ("Object.keys", "Object.entries", "Object.values"):
                    ok = is_sorted_use(fn, n)
                    rep.ob(rid, "%s.%s/sorted-keys" % (cname, mname), ok,
                           "%s.%s iterates %s(...) without sorting: property order of the source would change the digest" % (cname, mname, s(n["callee"])),
                           mod.loc(n), sample={"method": "%s.%s" % (cname, mname), "iteration": s(n)[:60] + ".sort()"})
    rep.floor(rid, "digest methods analysed", n_methods, 40)


def is_sorted_use(fn, call):
    """the Object.keys(..) call is the receiver of .sort(), or only its .length is used"""
    for n in walk(fn):
        if n["type"] == "MemberExpression" and unparen(n["object"]) is call:
            return n["property"].get("value") in ("sort", "length")
    return False


# ---------------------------------------------------------------------------
# intraprocedural taint (values derived from the `input` parameter)

ITER_METHODS = ("filter", "map", "forEach", "some", "every", "find", "reduce", "flatMap", "findIndex")


def fn_params(fn):
    out = []
    for p in fn.get("params", []):
        pat = p.get("pat", p)
        if pat.get("type") == "AssignmentPattern":
            pat = pat["left"]
        if pat.get("type") == "Identifier":
            out.append(pat["value"])
        elif pat.get("type") == "ObjectPattern":
            for pp in pat["properties"]:
                if pp["type"] == "AssignmentPatternProperty":
                    out.append(pp["key"]["value"])
                elif pp["type"] == "KeyValuePatternProperty" and pp["value"].get("type") == "Identifier":
                    out.append(pp["value"]["value"])
        elif pat.get("type") == "ArrayPattern":
            for el in pat["elements"]:
                if el and el.get("type") == "Identifier":
                    out.append(el["value"])
        else:
            out.append(None)
    return out


class Taint:
    """binding-precise taint inside one function: a binding is (name, region); an identifier resolves to the
    innermost binding of its name whose region contains it"""

    def __init__(self, fn, sources):
        self.fn = fn
        self.bindings = []   # dict(name, lo, hi, tainted)
        fspan = fn["span"]
        for p in fn_params(fn):
            if p:
                self.bindings.append({"name": p, "lo": fspan["start"], "hi": fspan["end"], "t": p in sources, "kind": "param"})
        self._collect(fn.get("body"), (fspan["start"], fspan["end"]))
        self._fix()

    def _collect(self, n, region):
        if isinstance(n, list):
            for x in n:
                self._collect(x, region)
            return
        if not isinstance(n, dict):
            return
        t = n.get("type")
        if t == "BlockStatement":
            region = (n["span"]["start"], n["span"]["end"])
        if t in ("ForOfStatement", "ForInStatement", "ForStatement"):
            r2 = (n["span"]["start"], n["span"]["end"])
            left = n.get("left") or n.get("init")
            if isinstance(left, dict) and left.get("type") == "VariableDeclaration":
                for d in left["declarations"]:
                    for b in binders(d["id"]):
                        self.bindings.append({"name": b, "lo": r2[0], "hi": r2[1], "t": False, "kind": "loop", "node": n, "decl": d})
            for k, v in n.items():
                if k not in ("span", "left") and isinstance(v, (dict, list)):
                    self._collect(v, r2)
            if n.get("init") is not None and t == "ForStatement":
                pass
            return
        if t == "VariableDeclarator":
            for b in binders(n["id"]):
                self.bindings.append({"name": b, "lo": region[0], "hi": region[1], "t": False, "kind": "var", "node": n})
        if t in ("ArrowFunctionExpression", "FunctionExpression", "FunctionDeclaration"):
            r2 = (n["span"]["start"], n["span"]["end"])
            for p in fn_params(n):
                if p:
                    self.bindings.append({"name": p, "lo": r2[0], "hi": r2[1], "t": False, "kind": "cbparam", "node": n})
            self._collect(n.get("body"), r2)
            return
        if t == "CatchClause":
            r2 = (n["span"]["start"], n["span"]["end"])
            if n.get("param"):
                for b in binders(n["param"]):
                    self.bindings.append({"name": b, "lo": r2[0], "hi": r2[1], "t": False, "kind": "catch"})
            self._collect(n.get("body"), r2)
            return
        for k, v in n.items():
            if k not in ("span", "ctxt") and isinstance(v, (dict, list)):
                self._collect(v, region)

    def resolve(self, ident):
        pos = ident["span"]["start"]
        best = None
        for b in self.bindings:
            if b["name"] == ident["value"] and b["lo"] <= pos < b["hi"]:
                if best is None or (b["hi"] - b["lo"]) <= (best["hi"] - best["lo"]):
                    best = b
        return best

    def mentions(self, e):
        for n in walk(e):
            if n["type"] == "Identifier":
                b = self.resolve(n)
                if b is not None and b["t"]:
                    return True
        return False

    def _mark(self, b):
        if not b["t"]:
            b["t"] = True
            return True
        return False

    def _fix(self):
        changed = True
        while changed:
            changed = False
            for b in self.bindings:
                if b["t"]:
                    continue
                if b["kind"] == "var":
                    n = b["node"]
                    if n.get("init") is not None and self.mentions(n["init"]):
                        changed |= self._mark(b)
                elif b["kind"] == "loop":
                    n = b["node"]
                    src = n.get("right")
                    if src is not None and self.mentions(src):
                        changed |= self._mark(b)
                elif b["kind"] == "cbparam":
                    cb = b["node"]
                    # is this callback the argument of an iteration method on a tainted receiver?
                    for c in walk(self.fn):
                        if c["type"] == "CallExpression":
                            mc = method_call(c)
                            if mc and mc[1] in ITER_METHODS and any(unparen(a) is cb for a in mc[2]) and self.mentions(mc[0]):
                                if fn_params(cb)[:1] == [b["name"]] or (mc[1] == "reduce" and b["name"] in fn_params(cb)[:2]):
                                    changed |= self._mark(b)
            for n in walk(self.fn):
                if n["type"] == "AssignmentExpression" and n["left"]["type"] == "Identifier" and self.mentions(n["right"]):
                    b = self.resolve(n["left"])
                    if b is not None:
                        changed |= self._mark(b)

    def names(self):
        return {b["name"] for b in self.bindings if b["t"]}


def mentions(e, T):
    if isinstance(T, Taint):
        return T.mentions(e)
    for n in walk(e):
        if n["type"] == "Identifier" and n["value"] in T:
            return True
    return False


def taint(fn, sources):
    return Taint(fn, set(sources))


def binders(pat):
    t = pat.get("type")
    if t == "Identifier":
        return [pat["value"]]
    out = []
    if t == "ArrayPattern":
        for el in pat["elements"]:
            if el:
                out += binders(el)
    elif t == "ObjectPattern":
        for pp in pat["properties"]:
            if pp["type"] == "AssignmentPatternProperty":
                out.append(pp["key"]["value"])
            elif pp["type"] == "KeyValuePatternProperty":
                out += binders(pp["value"])
            elif pp["type"] == "RestElement":
                out += binders(pp["argument"])
    elif t == "RestElement":
        out += binders(pat["argument"])
    elif t == "AssignmentPattern":
        out += binders(pat["left"])
    return out


def in_try_with_handler(root, node):
    """is `node` inside the block of a TryStatement (within root) that has a catch handler?"""
    for n in walk(root):
        if n["type"] == "TryStatement" and n.get("handler") is not None:
            if any(x is node for x in walk(n["block"])):
                return True
    return False


def family_methods(fam, names):
    """[(class name, method name, function node)] for concrete bodies of the given method names"""
    out = []
    for cname, c in sorted(fam.classes.items()):
        for mname in names:
            m = c.methods.get(mname)
            if m and m["function"].get("body") is not None:
                out.append((cname, mname, m["function"]))
    return out


def index_signature_field(fam, cname):
    """name of the field that holds the class's index signatures: annotated as an array of {key: Runtype; value: Runtype}
    records (whatever the field is called)"""
    for fname, (owner, ann) in fam.all_fields(cname).items():
        if ann is None:
            continue
        t = ann
        elem = None
        # `readonly X[]`, `ReadonlyArray<X>`, `Array<X>`, `X[]`; X may be a local type alias of the record type
        while t.get("type") == "TsTypeOperator" and t.get("op") == "readonly":
            t = t["typeAnnotation"]
        if t.get("type") == "TsArrayType":
            elem = t["elemType"]
        elif t.get("type") == "TsTypeReference" and t["typeName"].get("value") in ("Array", "ReadonlyArray") and t.get("typeParams"):
            elem = t["typeParams"]["params"][0]
        hops = 0
        while elem is not None and elem.get("type") == "TsTypeReference" and elem["typeName"].get("value") in fam.mod.type_aliases and hops < 3:
            elem = fam.mod.type_aliases[elem["typeName"]["value"]]["typeAnnotation"]
            hops += 1
        if elem is not None and elem.get("type") == "TsTypeLiteral":
            members = {}
            for mbr in elem["members"]:
                if mbr["type"] == "TsPropertySignature" and mbr["key"].get("type") == "Identifier":
                    members[mbr["key"]["value"]] = tsast.type_str((mbr.get("typeAnnotation") or {}).get("typeAnnotation"))
            if members.get("key") == "Runtype" and members.get("value") == "Runtype":
                return fname
    return None


_NODES = {}
# module-level boolean helpers (name -> function node), registered by Family(); see known_atoms
PREDICATE_HELPERS = {}
_expanding = []


def known_atoms(fn, node):
    """{atom text: truth value} implied at `node`: known_conditions decomposed by De Morgan (a false `a || b` makes
    both false, a true `a && b` makes both true, `!a` flips)"""
    out = {}

    def dec(e, pol):
        e = unparen(e)
        if e.get("type") == "UnaryExpression" and e["operator"] == "!":
            return dec(e["argument"], not pol)
        if e.get("type") == "BinaryExpression" and e["operator"] == "||" and pol is False:
            dec(e["left"], False)
            dec(e["right"], False)
            return
        if e.get("type") == "BinaryExpression" and e["operator"] == "&&" and pol is True:
            dec(e["left"], True)
            dec(e["right"], True)
            return
        _NODES[s(e)] = e
        out[s(e)] = pol
        # a module-level predicate `const isObj = (x) => typeof x === "object" && x !== null` / `function isObj(x)
        # { return .. }`: what its single returned expression says about the argument is known as well
        if e.get("type") == "CallExpression" and unparen(e["callee"]).get("type") == "Identifier" and unparen(e["callee"])["value"] in PREDICATE_HELPERS and len(_expanding) < 3:
            h = PREDICATE_HELPERS[unparen(e["callee"])["value"]]
            try:
                body, _sub = tsast.inline_clone(h, e)
            except Exception:
                body = None
            ret = None
            if body is not None and body.get("type") == "BlockStatement" and len(body["stmts"]) == 1 and body["stmts"][0]["type"] == "ReturnStatement":
                ret = body["stmts"][0].get("argument")
            elif body is not None and body.get("type") not in ("BlockStatement", None):
                ret = body
            if ret is not None:
                _expanding.append(1)
                try:
                    dec(ret, pol)
                finally:
                    _expanding.pop()
    for c, pol in known_conditions(fn, node):
        e = _NODES.get(c)
        if e is not None:
            dec(e, pol)
        else:
            out[c] = pol
    return out


def known_conditions(fn, node):
    """[(canonical test text, polarity)] that hold whenever `node` executes inside fn: tests of the enclosing `if`s
    (consequent: True, alternate: False), of enclosing conditional expressions, and of EARLIER guard `if`s in an
    enclosing block whose taken branch always leaves (return / throw / continue / break) - then the negation holds for
    everything after.  A leading `!` is folded into the polarity; local const aliases are resolved one level."""
    al = local_aliases(fn)

    def canon(e, pol=True):
        e = unparen(e)
        while e.get("type") == "UnaryExpression" and e["operator"] == "!":
            e = unparen(e["argument"])
            pol = not pol
        if e.get("type") == "Identifier" and e["value"] in al:
            return canon(al[e["value"]], pol)
        _NODES[s(e)] = e
        return s(e), pol

    def leaves(st):
        t = st["type"]
        if t in ("ReturnStatement", "ThrowStatement", "ContinueStatement", "BreakStatement"):
            return True
        if t == "BlockStatement":
            return any(leaves(x) for x in st["stmts"])
        if t == "IfStatement":
            return leaves(st["consequent"]) and st.get("alternate") is not None and leaves(st["alternate"])
        return False
    out = []

    def contains(a, b):
        return any(x is b for x in walk(a))

    def visit(st):
        t = st.get("type")
        if t == "BlockStatement" or (t is None and "stmts" in st):
            prior = []
            for x in st["stmts"]:
                if contains(x, node):
                    out.extend(prior)
                    visit(x)
                    return
                if x["type"] == "IfStatement":
                    if leaves(x["consequent"]) and (x.get("alternate") is None or not leaves(x["alternate"])):
                        c, p_ = canon(x["test"])
                        prior.append((c, not p_))
                    elif x.get("alternate") is not None and leaves(x["alternate"]) and not leaves(x["consequent"]):
                        c, p_ = canon(x["test"])
                        prior.append((c, p_))
            return
        if t == "IfStatement":
            c, p_ = canon(st["test"])
            if contains(st["consequent"], node):
                out.append((c, p_))
                visit(st["consequent"])
            elif st.get("alternate") is not None and contains(st["alternate"], node):
                out.append((c, not p_))
                visit(st["alternate"])
            return
        if t == "ConditionalExpression":
            c, p_ = canon(st["test"])
            if contains(st["consequent"], node):
                out.append((c, p_))
                visit(st["consequent"])
            elif contains(st["alternate"], node):
                out.append((c, not p_))
                visit(st["alternate"])
            return
        for k, v in st.items():
            if k in ("span", "ctxt"):
                continue
            if isinstance(v, dict) and contains(v, node):
                visit(v)
                return
            if isinstance(v, list):
                for x in v:
                    if isinstance(x, dict) and contains(x, node):
                        visit(x)
                        return
    if fn.get("body") is not None:
        visit(fn["body"])
    return out


def ctor_param_reads(fam, cname, fn):
    """positions of the constructor parameters whose value the function reads through `this.<field>` (private helpers
    seen through); a field computed from several parameters counts for all of them"""
    c = fam.classes[cname]
    owners = [cname]
    k = c
    while k.extends and k.extends in fam.classes:
        owners.append(k.extends)
        k = fam.classes[k.extends]
    fp = {}
    for on in owners:
        oc = fam.classes[on]
        ps = [p[0] for p in oc.ctor_params()]
        for fld, rhs in oc.ctor_assignments().items():
            ids = [x["value"] for x in walk(rhs) if x["type"] == "Identifier" and x["value"] in ps]
            if ids:
                fp.setdefault(fld, set()).update(ps.index(i) for i in ids)
        if oc.ctor:
            for p in oc.ctor.get("params", []):
                if p["type"] == "TsParameterProperty":
                    pat = p["param"]
                    nm = pat.get("value") or (pat.get("left") or {}).get("value")
                    if nm in ps:
                        fp.setdefault(nm, set()).add(ps.index(nm))
        if on != cname:
            break      # own constructor first; one level of inheritance for the shared base fields
    reads = set(this_fields_read(fn, fam.mod, cname))
    return sorted({i for f_ in reads for i in fp.get(f_, ())})


def field_matrix_rule(cx, rep, rid, methods):
    """Every interface method of a runtime class walks the same structure: the constructor arguments.  The table
    tables/ts_field_matrix.json records, per class and method, which constructor parameters the method reads on the
    reviewed tree (by POSITION, so private field names may change).  A method that stops reading one of them no longer
    validates / prints / hashes / describes that part of the type.  Reading more is fine."""
    import json
    import os
    fam = Family(cx)
    table = json.load(open(os.path.join(cx.verif, "tables", "ts_field_matrix.json")))["matrix"]
    n = 0
    for cname, row in sorted(table.items()):
        c = fam.classes.get(cname)
        if c is None:
            continue
        for mname in methods:
            if mname not in row:
                continue
            m = c.methods.get(mname)
            if m is None or m["function"].get("body") is None:
                continue
            n += 1
            now = ctor_param_reads(fam, cname, m["function"])
            lost = sorted(set(row[mname]) - set(now))
            pnames = [p[0] for p in c.ctor_params()]
            rep.ob(rid, "%s.%s" % (cname, mname), not lost,
                   "%s.%s no longer reads constructor argument(s) %s: that part of the type is not %s any more, while the other methods of the class still treat it" % (
                       cname, mname, [pnames[i] if i < len(pnames) else i for i in lost], {"validate": "validated", "schema": "printed in the schema", "hash256": "hashed", "hash": "hashed",
                                                                                         "parseAfterValidation": "projected", "reportDecodeError": "reported"}.get(mname, "described")),
                   fam.mod.loc(m), sample={"class": cname, "method": mname, "reads_ctor_params": now})
    rep.floor(rid, "class x method cells compared", n, max(5, 8 * len(methods)))



def truncating_reads(fam, methods):
    """[(class, method, call node, text)] : `X.slice(a, N)` with a positive literal N (or `X.splice`, `X.length = ..`)
    where X is an array-valued field of the class (helpers seen through, arguments substituted for parameters)"""
    out = []
    mod = fam.mod
    for cname in sorted(fam.concrete()):
        arrays = set()
        for fname, (owner, ann) in fam.all_fields(cname).items():
            t = tsast.type_str(ann) if ann is not None else ""
            if t.endswith("[]") or t.startswith(("Array<", "ReadonlyArray<", "readonly ")):
                arrays.add(fname)
        if not arrays:
            continue
        for mname in methods:
            _, m = fam.resolve_method(cname, mname)
            if not m or m["function"].get("body") is None:
                continue
            fn = m["function"]
            al = local_aliases(fn)
            for n in tsast.walk_inl(mod, cname, fn, depth=3):
                if n["type"] != "CallExpression":
                    continue
                mc = method_call(n)
                if not mc or mc[1] != "slice" or len(mc[2]) != 2:
                    continue
                hi = unparen(mc[2][1])
                if hi.get("type") != "NumericLiteral" or not hi["value"] > 0:
                    continue
                recv = unparen(mc[0])
                if recv.get("type") == "Identifier" and recv["value"] in al:
                    recv = unparen(al[recv["value"]])
                t = s(recv)
                if t.startswith("this.") and t[5:] in arrays:
                    out.append((cname, mname, n, "%s.slice(%s, %s)" % (t, s(mc[2][0]), s(hi))))
    return out


def truncation_rule(cx, rep, rid, methods):
    """An interface method must account for EVERY element of an array-valued constructor argument (all formats of a
    format chain, all members of a union, all items of a tuple): `fields.slice(0, N)` with a literal N > 0 keeps a
    fixed-size prefix, so longer arrays are validated / printed / hashed as if they were shorter - the classic slip
    is slice(0, 1) for slice(0, -1).  Expected count on the repository: 0; the canary module must match once."""
    fam = Family(cx)
    hits = truncating_reads(fam, methods)
    seen = set()
    for cname, mname, n, txt in hits:
        key = "%s.%s/%s" % (cname, mname, txt)
        if key in seen:
            continue
        seen.add(key)
        rep.ob(rid, key, False,
               "%s.%s reads %s: only a fixed-size prefix of the array reaches the result, the remaining elements are ignored for every longer array (a format chain of three loses its middle format, a union its later members)" % (cname, mname, txt),
               fam.mod.loc(n), sample={"class": cname, "method": mname, "read": txt})
    n_m = sum(1 for cname in fam.concrete() for mname in methods if fam.resolve_method(cname, mname)[1])
    rep.ob(rid, "scanned", True, sample={"class_methods_scanned": n_m, "truncating_reads": len(seen)})
    rep.floor(rid, "class methods scanned for truncating reads", n_m, 5)
    try:
        cfam = Family(cx, "canary/ts/truncate.ts")
        chits = {c for c, _, _, _ in truncating_reads(cfam, ["describe"])}
        rep.ob(rid, "control/canary-truncation", chits == {"TruncatingRuntype"},
               "positive control: canary/ts/truncate.ts must yield exactly the TruncatingRuntype match (got %s)" % sorted(chits), "canary/ts/truncate.ts")
    except Exception as e:
        rep.ob(rid, "control/canary-truncation", False, "positive control could not be evaluated: %s" % e, "canary/ts/truncate.ts")


HOLE_SKIPPERS = ("every", "some", "filter", "flatMap", "reduce", "reduceRight", "map", "forEach")


def hole_skipping_reads(fam, methods):
    """[(class, method, call node, text)]: an Array iteration method that does not visit the holes of a sparse array
    (every / some / filter / flatMap / reduce / map / forEach) applied to the input value itself or to a value reached
    from it - not to a dense array the method made (Object.keys(..), Array.from(..), a literal)"""
    out = []
    mod = fam.mod
    T_ = set()
    CN_ = [None]

    def dense(e, al, depth=0):
        e = unparen(e)
        t = e.get("type")
        if t == "ArrayExpression":
            return True
        if t == "CallExpression":
            c = s(e["callee"])
            if c in ("Object.keys", "Object.entries", "Object.values", "Array.from", "Array.of", "Object.getOwnPropertyNames"):
                return True
            mc = method_call(e)
            if mc and mc[1] in ("filter", "map", "flatMap", "flat", "concat", "sort", "split", "slice"):
                # results of the array methods are dense only if their receiver is (slice / concat keep holes)
                return mc[1] in ("filter", "flatMap", "split", "flat") or dense(mc[0], al, depth)
            # a local helper: judged by what it returns (arguments substituted for its parameters)
            r = tsast.resolve_local_call(mod, CN_[0], e) if depth < 3 else None
            if r is not None:
                body, _sub = tsast.inline_clone(r[0], e)
                rets = [x for x in tsast.walk_no_nested_fn(body) if x["type"] == "ReturnStatement" and x.get("argument") is not None]
                hal = dict(al)
                hal.update(local_aliases({"type": "FunctionExpression", "body": body, "params": []}))
                if rets and all(dense(x["argument"], hal, depth + 1) for x in rets):
                    return True
            # a helper that is handed dense arrays / values that do not come from the input returns nothing sparse
            args = [a["expression"] for a in e.get("arguments") or []]
            return bool(args) and all(dense(a, al, depth + 1) or not mentions(a, T_) for a in args)
        if t == "MemberExpression" and s(e).startswith("this."):
            return True      # arrays of the type itself (members, prefix items) are built dense by the generated code
        if t == "Identifier" and e["value"] in al and depth < 4:
            return dense(al[e["value"]], al, depth + 1)
        if t == "TsAsExpression" or t == "TsNonNullExpression":
            return dense(e["expression"], al, depth)
        return False
    for cname in sorted(fam.concrete()):
        for mname in methods:
            _, m = fam.resolve_method(cname, mname)
            if not m or m["function"].get("body") is None:
                continue
            fn = m["function"]
            ps = fn_params(fn)
            if len(ps) < 2 or not ps[1]:
                continue
            T = taint(fn, [ps[1]])
            T_ = T
            CN_[0] = cname
            al = local_aliases(fn)
            for n in walk(fn):
                if n["type"] != "CallExpression":
                    continue
                mc = method_call(n)
                if not mc or mc[1] not in HOLE_SKIPPERS:
                    continue
                recv = unparen(mc[0])
                while recv.get("type") in ("TsAsExpression", "TsNonNullExpression", "ParenthesisExpression"):
                    recv = unparen(recv["expression"])
                if recv.get("type") not in ("Identifier", "MemberExpression"):
                    continue
                if not mentions(recv, T) or dense(recv, al):
                    continue
                if mc[1] == "forEach":
                    ka = known_atoms(fn, n)
                    if not any(a_.startswith("Array.isArray(") and v_ is True for a_, v_ in ka.items()):
                        continue      # Set / Map forEach visits every member
                out.append((cname, mname, n, "%s.%s(..)" % (s(recv), mc[1])))
    return out


def hole_skipping_rule(cx, rep, rid, methods):
    """`validate` and `reportDecodeError` must look at EVERY index of an input array: a hole of a sparse array
    (`[1, , 3]`, `new Array(3)`, `delete a[1]`) reads as `undefined` through `a[i]` and `for..of`, but
    every / some / filter / flatMap / reduce / map / forEach never call their callback for it.  A validator that walks
    the input with one of them accepts sparse arrays whose element type does not admit undefined; a reporter that does
    returns no error for an input validate() rejected.  Expected count on the repository: 0; the canary must match."""
    fam = Family(cx)
    hits = hole_skipping_reads(fam, methods)
    for cname, mname, n, txt in hits:
        rep.ob(rid, "%s.%s/%s" % (cname, mname, txt), False,
               "%s.%s walks the input with %s, which skips the holes of a sparse array: the elements `a[i]` that read as undefined are never shown to the item validator, so %s" % (
                   cname, mname, txt, "a sparse array is accepted as an array of any element type" if mname == "validate" else "an input validate() rejected because of a hole gets an empty error list"),
               fam.mod.loc(n), sample={"class": cname, "method": mname, "iteration": txt})
    n_m = sum(1 for cname in fam.concrete() for mname in methods if fam.resolve_method(cname, mname)[1])
    rep.ob(rid, "scanned", True, sample={"class_methods_scanned": n_m, "hole_skipping_walks_of_the_input": len(hits)})
    rep.floor(rid, "class methods scanned for hole-skipping walks", n_m, 5)
    try:
        cfam = Family(cx, "canary/ts/sparse.ts")
        chits = {(c, m_) for c, m_, _, _ in hole_skipping_reads(cfam, ["validate", "reportDecodeError"])}
        rep.ob(rid, "control/canary-sparse", chits == {("SkippingArrayRuntype", "validate"), ("SkippingArrayRuntype", "reportDecodeError")},
               "positive control: canary/ts/sparse.ts must yield exactly the two SkippingArrayRuntype matches (got %s)" % sorted(chits), "canary/ts/sparse.ts")
    except Exception as e:
        rep.ob(rid, "control/canary-sparse", False, "positive control could not be evaluated: %s" % e, "canary/ts/sparse.ts")


IFACE_RESULT_METHODS = ("reportDecodeError", "parseAfterValidation")


def unbounded_spreads(fam, methods):
    """[(class, method, node, text)]: a call `f(...xs)` / `new C(...xs)` whose spread operand has a length that grows
    with the INPUT - the input itself, a slice / map / filter of it, Object.keys of it, or the list a child's
    reportDecodeError / parseAfterValidation returned (one entry per invalid item).  Arrays whose length is fixed by
    the TYPE (this.<field> and what is mapped from it) are fine."""
    out = []
    mod = fam.mod
    for cname in sorted(fam.concrete()):
        for mname in methods:
            _, m = fam.resolve_method(cname, mname)
            if not m or m["function"].get("body") is None:
                continue
            fn = m["function"]
            ps = fn_params(fn)
            if len(ps) < 2 or not ps[1]:
                continue
            T = taint(fn, [ps[1]])
            al = local_aliases(fn)

            def unbounded(e, depth=0):
                e = unparen(e)
                t = e.get("type")
                while t in ("TsAsExpression", "TsNonNullExpression"):
                    e = unparen(e["expression"])
                    t = e.get("type")
                if t == "Identifier":
                    if e["value"] in al and depth < 5:
                        return unbounded(al[e["value"]], depth + 1)
                    return "the input" if mentions(e, T) else None
                if t == "CallExpression":
                    mc = method_call(e)
                    if mc and mc[1] in IFACE_RESULT_METHODS:
                        return "the result of %s()" % mc[1]
                    if mc and mc[1] in ("map", "filter", "slice", "concat", "flat", "flatMap", "reverse", "sort", "subarray"):
                        r = unbounded(mc[0], depth)
                        if r:
                            return r
                        if mc[1] in ("flatMap", "concat"):
                            for a in mc[2]:
                                if any(method_call(x) and method_call(x)[1] in IFACE_RESULT_METHODS for x in walk(a) if x["type"] == "CallExpression"):
                                    return "results of child calls"
                        return None
                    if s(e["callee"]) in ("Object.keys", "Object.entries", "Object.values", "Array.from") and e["arguments"]:
                        return unbounded(e["arguments"][0]["expression"], depth)
                    return None
                if t == "MemberExpression":
                    if s(e).startswith("this."):
                        return None
                    return "the input" if mentions(e, T) else None
                if t == "ArrayExpression":
                    for el in e["elements"]:
                        if el and el.get("spread") and unbounded(el["expression"], depth):
                            return unbounded(el["expression"], depth)
                    return None
                return None
            for n in tsast.walk_inl(mod, cname, fn, depth=2):
                if n["type"] not in ("CallExpression", "NewExpression"):
                    continue
                for a in n.get("arguments") or []:
                    if a.get("spread"):
                        why = unbounded(a["expression"])
                        if why:
                            out.append((cname, mname, n, "%s(...%s)" % (s(n["callee"]), s(a["expression"])[:40]), why))
    return out


def unbounded_spread_rule(cx, rep, rid, methods):
    """A spread in call position passes every element as an argument; engines cap the number of arguments (about 10^5),
    beyond it the call throws RangeError.  In validate / parseAfterValidation / reportDecodeError that turns a large
    input into an exception that is neither the verdict nor the documented parse error (found on the unchanged tree:
    `acc.push(...errors)` with one error per invalid item, repaired by 6b09ce4)."""
    fam = Family(cx)
    hits = unbounded_spreads(fam, methods)
    seen = set()
    for cname, mname, n, txt, why in hits:
        key = "%s.%s/%s" % (cname, mname, txt)
        if key in seen:
            continue
        seen.add(key)
        rep.ob(rid, key, False,
               "%s.%s calls %s: the spread operand is %s, whose length grows with the input, so an input with more than ~10^5 such elements makes %s throw RangeError (maximum call stack / argument count) instead of answering" % (cname, mname, txt, why, mname),
               fam.mod.loc(n), sample={"class": cname, "method": mname, "call": txt, "length_from": why})
    n_m = sum(1 for cname in fam.concrete() for mname in methods if fam.resolve_method(cname, mname)[1])
    rep.ob(rid, "scanned", True, sample={"class_methods_scanned": n_m, "input_sized_spreads": len(seen)})
    rep.floor(rid, "class methods scanned for input-sized spreads", n_m, 5)
    try:
        cfam = Family(cx, "canary/ts/spread.ts")
        chits = {(c, m_) for c, m_, _, _, _ in unbounded_spreads(cfam, ["reportDecodeError", "parseAfterValidation"])}
        rep.ob(rid, "control/canary-spread", chits == {("SpreadingRuntype", "reportDecodeError"), ("SpreadingRuntype", "parseAfterValidation")},
               "positive control: canary/ts/spread.ts must yield exactly the two SpreadingRuntype matches (got %s)" % sorted(chits), "canary/ts/spread.ts")
    except Exception as e:
        rep.ob(rid, "control/canary-spread", False, "positive control could not be evaluated: %s" % e, "canary/ts/spread.ts")


def numeric_key_rule(fam, mod, rep, rid, methods=("validate", "parseAfterValidation", "reportDecodeError")):
    """Property names are strings at run time (`Object.keys`), while the compiler hands the KEY TYPE of an index
    signature to the runtime as an ordinary validator: `Record<number, T>` and `{[k: number]: T}` arrive as
    `TypeofRuntype("number")`, `Record<1 | 2, T>` as number constants.  Applied to the name itself such a validator
    rejects every key (`typeof "1" === "number"` is false), so the type would only accept `{}`.  Wherever a method of
    a class with an index-signature field - or a local helper it reaches - applies a key validator to a property
    name, the same function also applies it to the numeric reading of that name (`Number(name)`, possibly through a
    local), and not only when the first application succeeded (the two are not the operands of one `&&`).  Every one
    of the three methods reaches such an application."""
    n_apps = 0
    seen_scopes = {}

    def numeric_base(e, al):
        e = unparen(e)
        if e.get("type") == "Identifier" and e["value"] in al:
            return numeric_base(al[e["value"]], {})
        if e.get("type") == "CallExpression" and s(e["callee"]) in ("Number", "parseFloat", "Number.parseFloat") and e["arguments"]:
            return s(e["arguments"][0]["expression"])
        if e.get("type") == "UnaryExpression" and e["operator"] == "+":
            return s(e["argument"])
        return None

    def judge(fn, kv_texts, where):
        """applications of the key validators `kv_texts` inside fn: [(call, ok)] for the applications to a NAME"""
        al = {}
        for x in walk(fn):
            if x["type"] == "VariableDeclarator" and x["id"].get("type") == "Identifier" and x.get("init") is not None:
                al.setdefault(x["id"]["value"], x["init"])
        calls = []
        for x in walk(fn):
            mc = method_call(x) if x["type"] == "CallExpression" else None
            if mc and mc[1] == "validate" and len(mc[2]) == 2 and (s(mc[0]) in kv_texts or s(mc[0]).endswith(".key")):
                calls.append((x, s(mc[0]), mc[2][1]))
        out = []
        for x, kv, arg in calls:
            if numeric_base(arg, al) is not None:
                continue
            partner = [y for y, kv2, a2 in calls if kv2 == kv and numeric_base(a2, al) == s(arg)]
            ok = bool(partner)
            if ok:
                # not `name-application && numeric-application`
                for b in walk(fn):
                    if b["type"] == "BinaryExpression" and b["operator"] == "&&":
                        inl = any(z is x for z in walk(b["left"]))
                        inr = any(z is y for y in partner for z in walk(b["right"]))
                        if inl and inr:
                            ok = False
            out.append((x, ok))
        return out
    for cname in sorted(fam.concrete()):
        ixf = index_signature_field(fam, cname)
        if not ixf:
            continue
        for mname in methods:
            _, m = fam.resolve_method(cname, mname)
            if not m or m["function"].get("body") is None:
                continue
            # scopes: the method and the local helpers it reaches, each with the parameters that receive `<sig>.key`
            work = [(m["function"], frozenset(), cname, "%s.%s" % (cname, mname))]
            reached = 0
            visited = set()
            while work:
                fn, kv, owner, label = work.pop()
                if (id(fn), kv) in visited or len(visited) > 60:
                    continue
                visited.add((id(fn), kv))
                for x, ok in judge(fn, kv, label):
                    reached += 1
                    key = (id(fn), s(x))
                    if key not in seen_scopes:
                        seen_scopes[key] = True
                        n_apps += 1
                        rep.ob(rid, "%s/key-validator-sees-numeric-reading#%d" % (label, sum(1 for k_ in seen_scopes if k_[0] == id(fn)) - 1), ok,
                               "%s applies the key validator of an index signature to the property NAME only (%s): a numeric key type (`Record<number, T>`, `{[k: number]: T}`, `Record<1 | 2, T>`) arrives as a number validator and rejects every name, so the object type accepts nothing but {}" % (label, s(x)[:60]),
                               mod.loc(fn), sample={"call": s(x)[:80]})
                for c in walk(fn):
                    if c["type"] != "CallExpression":
                        continue
                    r = tsast.resolve_local_call(mod, owner, c)
                    if r is None:
                        continue
                    h, h_owner = r
                    hp = fn_params(h)
                    kvh = set()
                    for i_, a_ in enumerate(c["arguments"]):
                        t_ = s(a_["expression"])
                        if (t_.endswith(".key") or t_ in kv) and i_ < len(hp) and hp[i_]:
                            kvh.add(hp[i_])
                    nm = s(unparen(c["callee"])).split(".")[-1]
                    work.append((h, frozenset(kvh), h_owner or owner, nm))
            rep.ob(rid, "%s.%s/reaches-a-key-validator-application" % (cname, mname), reached > 0,
                   "%s.%s never applies the key validator of its index signatures to a property name (directly or through a local helper): the rule lost its subject" % (cname, mname),
                   mod.loc(m["function"]))
    rep.floor(rid, "applications of an index-signature key validator to a property name", n_apps, 1)


CMP_OPS = ("<", ">", "<=", ">=", "===", "!==", "==", "!=")


def key_count_hits(fam, methods):
    """[(class, method, node, text)] comparisons between the NUMBER of own keys of the input and the NUMBER of keys the
    type declares"""
    mod = fam.mod
    hits = []
    for cname in sorted(fam.concrete()):
        for mname in methods:
            _, m = fam.resolve_method(cname, mname)
            if not m or m["function"].get("body") is None:
                continue
            fn = tsast.flatten_fn(mod, cname, m["function"])
            ps = fn_params(fn)
            inp = ps[1] if len(ps) > 1 else None
            al = {}
            for x in walk(fn):
                if x["type"] == "VariableDeclarator" and x["id"].get("type") == "Identifier" and x.get("init") is not None:
                    al.setdefault(x["id"]["value"], x["init"])

            def origin(e, d=0):
                """'input' / 'declared' when e is a list of property names of the input / of the type"""
                e = unparen(e)
                if d > 6:
                    return None
                if e.get("type") == "Identifier" and e["value"] in al:
                    return origin(al[e["value"]], d + 1)
                if e.get("type") == "CallExpression":
                    cal = s(e["callee"])
                    if cal in ("Object.keys", "Object.getOwnPropertyNames", "Object.entries", "Reflect.ownKeys") and e["arguments"]:
                        a0 = unparen(e["arguments"][0]["expression"])
                        while a0.get("type") == "Identifier" and a0["value"] in al and a0["value"] != inp:
                            a0 = unparen(al[a0["value"]])
                        t0 = s(a0)
                        if t0.startswith("this."):
                            return "declared"
                        if inp and t0 == inp:
                            return "input"
                        return None
                    mc = method_call(e)
                    if mc and mc[1] in ("sort", "slice", "concat", "reverse", "toSorted"):
                        return origin(mc[0], d + 1)
                    # a filter keeps a SUBSET: its size no longer stands for all keys (that is the sound idiom)
                return None

            def count_of(e, d=0):
                e = unparen(e)
                if d > 6:
                    return None
                if e.get("type") == "Identifier" and e["value"] in al:
                    return count_of(al[e["value"]], d + 1)
                if e.get("type") == "MemberExpression" and e["property"].get("type") == "Identifier" and e["property"]["value"] == "length":
                    return origin(e["object"])
                return None
            for x in walk(fn):
                if x["type"] == "BinaryExpression" and x["operator"] in CMP_OPS:
                    o = {count_of(x["left"]), count_of(x["right"])}
                    if o == {"input", "declared"}:
                        hits.append((cname, mname, x, s(x)))
    return hits


def key_count_rule(cx, rep, rid, methods=("validate", "parseAfterValidation", "reportDecodeError")):
    """How MANY own keys a value has says nothing about WHICH keys it has: a declared key may be absent (optional
    members, `unknown`), so a value with as many keys as the type declares can still carry an undeclared one, and a
    value with no more keys than declared can still carry keys for the index signature.  No decision of validate /
    parseAfterValidation / reportDecodeError may therefore rest on comparing the number of the input's own keys with
    the number of declared keys (counting a FILTERED list - the undeclared keys - is the sound idiom)."""
    fam = Family(cx)
    hits = key_count_hits(fam, methods)
    for i, (cname, mname, n, txt) in enumerate(hits):
        rep.ob(rid, "%s.%s/%s" % (cname, mname, txt), False,
               "%s.%s decides on `%s`: the number of the input's own keys is compared with the number of declared keys; a value that omits N optional members and carries N other keys has the same count, so undeclared keys pass strict mode / index-signature entries are dropped" % (cname, mname, txt),
               fam.mod.loc(n), sample={"class": cname, "method": mname, "comparison": txt})
    n_m = sum(1 for cname in fam.concrete() for mname in methods if fam.resolve_method(cname, mname)[1])
    rep.ob(rid, "scanned", True, sample={"class_methods_scanned": n_m, "key_count_comparisons": len(hits)})
    rep.floor(rid, "class methods scanned for key-count comparisons", n_m, 5)
    try:
        cfam = Family(cx, "canary/ts/cardinality.ts")
        chits = {(c, m_) for c, m_, _, _ in key_count_hits(cfam, ["validate"])}
        rep.ob(rid, "control/canary-cardinality", chits == {("CountingRuntype", "validate")},
               "positive control: canary/ts/cardinality.ts must yield exactly the CountingRuntype match (got %s)" % sorted(chits), "canary/ts/cardinality.ts")
    except Exception as e:
        rep.ob(rid, "control/canary-cardinality", False, "positive control could not be evaluated: %s" % e, "canary/ts/cardinality.ts")


# ---------------------------------------------------------------------------------------------------------------
# implicit string conversion of values of unknown type (C03.16 = C12.10)
TYPEOF_ALL = frozenset(("string", "number", "boolean", "bigint", "undefined", "object", "function", "symbol"))
# `${x}` / "" + x / [x].join() call ToString: a symbol throws a TypeError, an object runs user code (toString /
# Symbol.toPrimitive) or throws for a null-prototype object
TYPEOF_SAFE_TO_STRING = frozenset(("string", "number", "boolean", "bigint", "undefined", "function"))


def typeof_domain(fn, node, name):
    """the `typeof` values the identifier `name` can have when `node` executes inside fn, as far as the enclosing /
    preceding tests on `typeof name` (if / ?: / early-leaving guards, and `switch (typeof name)` cases) tell"""
    dom = set(TYPEOF_ALL)
    # `const kind = typeof x` : tests on `kind` are tests on `typeof x`
    tnames = ["typeof %s" % re.escape(name)]
    for an, ai in local_aliases(fn).items():
        ai = unparen(ai)
        if ai.get("type") == "UnaryExpression" and ai.get("operator") == "typeof" and s(ai["argument"]) == name:
            tnames.append(re.escape(an))
    tre = "(?:%s)" % "|".join(tnames)
    for a_, v_ in known_atoms(fn, node).items():
        m = re.match(r"^\(?%s\s*(===|==|!==|!=)\s*[\"']([a-z]+)[\"']\)?$" % tre, a_.strip())
        if not m:
            m2 = re.match(r"^\(?[\"']([a-z]+)[\"']\s*(===|==|!==|!=)\s*%s\)?$" % tre, a_.strip())
            if m2:
                op, lit = m2.group(2), m2.group(1)
            else:
                continue
        else:
            op, lit = m.group(1), m.group(2)
        eq = op in ("===", "==")
        if eq == bool(v_):
            dom &= {lit}
        else:
            dom.discard(lit)
    # a disjunction of typeof tests known to hold: `typeof x === "number" || typeof x === "boolean"`
    def typeof_lit(e):
        e = unparen(e)
        if e.get("type") == "BinaryExpression" and e["operator"] in ("===", "=="):
            l, r = unparen(e["left"]), unparen(e["right"])
            for a, b in ((l, r), (r, l)):
                if a.get("type") == "UnaryExpression" and a["operator"] == "typeof" and s(a["argument"]) == name and b.get("type") == "StringLiteral":
                    return b["value"]
                if a.get("type") == "Identifier" and re.escape(a["value"]) in tnames[1:] and b.get("type") == "StringLiteral":
                    return b["value"]
        return None
    def disjuncts(e):
        e = unparen(e)
        if e.get("type") == "BinaryExpression" and e["operator"] == "||":
            return disjuncts(e["left"]) + disjuncts(e["right"])
        return [e]
    for a_, v_ in known_atoms(fn, node).items():
        nd = _NODES.get(a_)
        if nd is not None and v_ is True and unparen(nd).get("type") == "BinaryExpression" and unparen(nd)["operator"] == "||":
            lits = [typeof_lit(d) for d in disjuncts(nd)]
            if all(l is not None for l in lits):
                dom &= set(lits)
    # switch (typeof name)
    for sw in walk(fn):
        if sw.get("type") != "SwitchStatement":
            continue
        disc = s(unparen(sw["discriminant"])).replace(" ", "")
        if not (disc == ("typeof%s" % name) or re.escape(disc) in tnames[1:]):
            continue
        cases = sw["cases"]
        lits = [unparen(c["test"]).get("value") if c.get("test") is not None else None for c in cases]
        for i, c in enumerate(cases):
            if not any(x is node for st in c["consequent"] for x in walk(st)):
                continue
            here = set()
            # cases that fall through into this one (no statement that leaves)
            j = i
            while True:
                here |= ({lits[j]} if lits[j] is not None else set(TYPEOF_ALL) - {l for l in lits if l is not None})
                if j == 0:
                    break
                prev = cases[j - 1]["consequent"]
                if any(x["type"] in ("ReturnStatement", "ThrowStatement", "BreakStatement", "ContinueStatement") for st in prev for x in walk(st)):
                    break
                j -= 1
            dom &= here
    return dom


def unknown_typed_names(fn):
    """parameters / locals of fn declared `unknown` or `any`"""
    out = set()
    for p in fn.get("params", []):
        pat = p.get("pat", p)
        if pat.get("type") == "Identifier":
            t = tsast.type_str((pat.get("typeAnnotation") or {}).get("typeAnnotation"))
            if t in ("unknown", "any"):
                out.add(pat["value"])
    return out


def implicit_to_string_sites(fn, names):
    """(node, identifier name, how) for every implicit ToString of one of `names` inside fn"""
    for n in walk(fn):
        t = n.get("type")
        if t == "TemplateLiteral":
            for e in n.get("expressions") or []:
                e = unparen(e)
                if e.get("type") == "Identifier" and e["value"] in names:
                    yield n, e["value"], "`${%s}`" % e["value"]
        elif t == "BinaryExpression" and n.get("operator") == "+":
            l, r = unparen(n["left"]), unparen(n["right"])
            for a, b in ((l, r), (r, l)):
                if a.get("type") == "Identifier" and a["value"] in names and b.get("type") in ("StringLiteral", "TemplateLiteral"):
                    yield n, a["value"], "%s + <string>" % a["value"]
        elif t == "AssignmentExpression" and n.get("operator") == "+=":
            r = unparen(n["right"])
            if r.get("type") == "Identifier" and r["value"] in names:
                yield n, r["value"], "<string> += %s" % r["value"]


def implicit_to_string_rule(cx, rep, rid, files=("packages/beff-client/src/err.ts", "packages/beff-client/src/codegen-v2.ts")):
    """No input whatsoever makes safeParse / parse / printErrors throw anything but the documented failure error.
    An implicit string conversion - `${x}`, x + "..", s += x - of a value of UNKNOWN type throws a TypeError for a
    symbol and runs (possibly throwing) user code for an object; `String(x)` is the total conversion for symbols.
    Decided for every function of the error-rendering module and of the runtime whose parameter is declared
    `unknown` / `any`: at each implicit conversion of that parameter the enclosing `typeof` tests (if / ?: / guards
    that leave / switch cases) leave only string, number, boolean, bigint, undefined or function."""
    n_sites = 0
    for rel in files:
        mod = cx.ts(rel)
        fns = list(mod.functions.items()) + [("%s.%s" % (cn, mn), m["function"]) for cn, c in mod.classes.items() for mn, m in c.methods.items()]
        fns += [(vn, init) for vn, (_kind, init, _d) in mod.vars.items() if init is not None and init.get("type") in ("ArrowFunctionExpression", "FunctionExpression")]
        for fname, fn in fns:
            if fn.get("body") is None:
                continue
            names = unknown_typed_names(fn)
            if not names:
                continue
            for node, nm, how in implicit_to_string_sites(fn, names):
                n_sites += 1
                dom = typeof_domain(fn, node, nm)
                bad = sorted(dom - TYPEOF_SAFE_TO_STRING)
                rep.ob(rid, "%s/%s" % (fname, how), not bad,
                       "%s converts `%s` (declared unknown) to a string implicitly (%s) where its typeof can still be %s: ToString of a symbol throws a TypeError (and of an object may run throwing user code), so rendering a rejected value makes parse / printErrors throw something other than the documented failure error; `String(x)` is total for symbols" % (
                           fname, nm, how, " / ".join(bad)),
                       mod.loc(node), sample={"fn": fname, "conversion": how, "typeof_domain": sorted(dom)})
    rep.floor(rid, "implicit string conversions of unknown-typed parameters", n_sites, 1)
