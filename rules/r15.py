"""Rules added after the fifteenth seed batch (kept in one module; each is registered by the property modules that
claim it).  Rust-side rules read the typed HIR of the fact base, TypeScript-side rules the swc AST."""
import facts as RF
from facts import walk, children
import hirpath

CRATE = "beff_core"


def _callee_gid(F, n, crate=CRATE):
    c = n.get("callee") if n["k"] == "Call" else (n.get("resolved") or n.get("callee"))
    return F._callee_gid(crate, c) if c else None


def _core_trees(F):
    return {g: t for g, t in F.hir.items() if F.fns.get(g) is not None and F.fns[g].crate == CRATE}


class Closure:
    """locals an expression may derive from inside one body: follows `let` / `if let` initialisers and match
    scrutinees (bindings identified by HIR id)"""

    def __init__(self, tree):
        self.src = {}
        for n in walk(tree["body"]):
            if n["k"] in ("LetStmt", "Let") and n.get("init") is not None:
                for b in walk(n["pat"]):
                    if b["k"] == "P.Binding":
                        self.src.setdefault(b.get("lid"), []).append(n["init"])
            if n["k"] == "Match":
                for a in n["arms"]:
                    for b in walk(a["pat"]):
                        if b["k"] == "P.Binding":
                            self.src.setdefault(b.get("lid"), []).append(n["scrut"])

    def nodes(self, expr, depth=0, seen=None):
        seen = seen if seen is not None else set()
        for x in walk(expr):
            yield x
            if x["k"] == "Path" and x.get("res") == "local" and x.get("lid") in self.src and x["lid"] not in seen and depth < 8:
                seen.add(x["lid"])
                for e in self.src[x["lid"]]:
                    for y in self.nodes(e, depth + 1, seen):
                        yield y

    def lids(self, expr):
        return {x.get("lid") for x in self.nodes(expr) if x["k"] == "Path" and x.get("res") == "local"}


# ---------------------------------------------------------------------------------------------------------------------
def family_dispatch_rule(cx, rep, rid):
    """C07.15.  A semantic operator over ANY operand (indexed access T[K]) is the union of its projections on the
    structural families of the operand (lists, mappings).  A *family projection* is a local function that reads exactly
    one structural family of one of its parameters (`sub_type_data(<param>, SubTypeTag::<Family>)`).  Decided: a
    function that calls the projections of two different families on the same operand evaluates EACH of them on every
    path to a value exit, and the value that leaves derives from each result - a projection that is skipped when
    another one found something drops the members selected from the other family (`([string] | {a: number})[0 | "a"]`)."""
    F = cx.rs
    trees = _core_trees(F)
    FAMS = ("List", "Mapping")
    proj = {}
    for g, t in trees.items():
        fams = set()
        plids = {b.get("lid") for p in t.get("params", []) for b in walk(p) if b["k"] == "P.Binding"}
        C = Closure(t)
        for n in walk(t["body"]):
            if n["k"] in ("Call", "MethodCall") and (n.get("callee") or "").endswith("sub_type_data"):
                args = ([n["recv"]] if n["k"] == "MethodCall" else []) + list(n.get("args") or [])
                tag = [x for a in args for x in walk(a) if x["k"] == "Path" and x.get("res") == "def" and "SubTypeTag::" in (x.get("def") or "")]
                if tag and args and (C.lids(args[0]) & plids):
                    fams.add(tag[0]["def"].rsplit("::", 1)[-1])
        fams &= set(FAMS)
        if len(fams) == 1:
            proj[g] = next(iter(fams))
    rep.floor(rid, "family projections (read one structural family of a parameter)", len(proj), 2)
    n = 0
    for g in sorted(trees):
        if g in proj:
            continue
        t = trees[g]
        calls = [x for x in walk(t["body"]) if x["k"] in ("Call", "MethodCall") and _callee_gid(F, x) in proj]
        fams = {proj[_callee_gid(F, x)] for x in calls}
        if len(fams) < 2:
            continue
        n += 1
        f = F.fns[g]
        C = Closure(t)
        for fam in sorted(fams):
            mine = [x for x in calls if proj[_callee_gid(F, x)] == fam]
            ids = {id(x) for x in mine}
            exits = hirpath.unpreceded_exits(F, CRATE, t["body"], lambda x: id(x) in ids, lambda e: False, depth=0)
            rep.ob(rid, "%s/%s/every-path" % (g.rsplit("::", 1)[-1], fam), not exits,
                   "%s returns a value on a path that has not evaluated the %s projection (%s): when the operand is a union with members of both families and the key addresses both, the members selected from the %s side are dropped - the type handed to code generation denotes a smaller set than the computed one"
                   % (g, fam, ", ".join(sorted({(x.get("callee") or "?").rsplit("::", 1)[-1] for x in mine})), fam.lower()),
                   "%s:%s" % (f.file, exits[0]["line"] if exits else f.line), sample={"fn": g, "family": fam, "projection_calls": len(mine)})
            # the result of the projection reaches the returned value
            bound = set()
            for st in walk(t["body"]):
                if st["k"] in ("LetStmt", "Let") and st.get("init") is not None and any(id(x) in ids for x in walk(st["init"])):
                    bound |= {b.get("lid") for b in walk(st["pat"]) if b["k"] == "P.Binding"}
            outs = []
            w = hirpath._Walker(F, CRATE, lambda x: False, lambda e: False, 0)
            w.value(t["body"], {False})
            outs = w.hits
            flows = [e for e in outs if (C.lids(e) & bound) or any(id(x) in ids for x in C.nodes(e))]
            rep.ob(rid, "%s/%s/contributes" % (g.rsplit("::", 1)[-1], fam), bool(flows) or not bound and not outs,
                   "the result of the %s projection in %s does not reach the returned value" % (fam, g), f.loc(),
                   sample={"fn": g, "family": fam, "value_exits": len(outs), "exits_fed_by_projection": len(flows)})
    rep.floor(rid, "operators that combine the projections of two families", n, 1)


# ---------------------------------------------------------------------------------------------------------------------
def conjunct_selection_rule(cx, rep, rid):
    """C01.27.  Every member of an intersection constrains the value.  Decided: no loop over the members of a
    `RuntypeKind::AllOf(..)` payload (and no find / find_map / next / first over it) leaves with a value that derives
    from ONE member - `(A & B)["k"]` answered by the first member that declares `k` drops what the other members say
    about `k` (wider type / optionality first => the validator accepts non-members).  Exits with a constant (`None`:
    cannot be handled here) and error exits of `?` are not selections."""
    F = cx.rs
    trees = _core_trees(F)
    SELECT = ("find", "find_map", "next", "first", "last", "nth", "position", "min_by_key", "max_by_key", "min_by", "max_by")
    n_sites = 0
    for g in sorted(trees):
        t = trees[g]
        f = F.fns[g]
        if "/src/frontend/" not in (f.file or "") and "/src/print/" not in (f.file or "") and "/src/ast/" not in (f.file or ""):
            continue
        members = {}      # lid of the binding that holds the members of an intersection
        for n in walk(t["body"]):
            if n["k"] == "P.TupleStruct" and (n.get("def") or "").endswith(("RuntypeKind::AllOf", "RuntypeKind::AnyOf")):
                # unions too: an answer taken from the first member that has one drops the other alternatives
                for b in walk(n):
                    if b["k"] == "P.Binding":
                        members[b.get("lid")] = b
        if not members:
            continue
        C = Closure(t)
        n_sites += 1
        bad = []
        for n in walk(t["body"]):
            # for member in members { .. return <member-derived> .. }
            if n["k"] == "Match" and n.get("src") == "ForLoopDesugar" and n.get("scrut_adt") != "std::option::Option":
                it = n["scrut"]
                if not (C.lids(it) & set(members)):
                    continue
                elems = set()
                for lp in walk(n):
                    if lp["k"] == "Match" and lp.get("src") == "ForLoopDesugar" and lp.get("scrut_adt") == "std::option::Option":
                        for a in lp["arms"]:
                            elems |= {b.get("lid") for b in walk(a["pat"]) if b["k"] == "P.Binding"}
                        break
                for x in walk(n):
                    if x["k"] in ("Ret", "Break") and x.get("e") is not None and not hirpath.is_residual_ret(x):
                        if C.lids(x["e"]) & elems:
                            bad.append((x["line"], "leaves the loop over the members with a value derived from one member"))
            if n["k"] == "MethodCall" and n.get("method") in SELECT:
                recv_lids = C.lids(n["recv"])
                if recv_lids & set(members):
                    bad.append((n["line"], "selects one member with .%s()" % n["method"]))
        rep.ob(rid, "%s/no-selection-among-conjuncts" % g.rsplit("::", 1)[-1], not bad,
               "%s %s of an intersection (%s): every member of `A & B` constrains the value, an answer taken from the first member that has one drops the constraints of the others - `(A & B)[\"k\"]` with `k` declared by both, the wider declaration sorting first, yields a validator that accepts non-members"
               % (g, "; ".join(sorted({b[1] for b in bad})), "lines %s" % sorted({b[0] for b in bad})),
               "%s:%s" % (f.file, bad[0][0] if bad else f.line), sample={"fn": g, "intersection_payload_bindings": len(members)})
    rep.floor(rid, "functions that take an intersection or a union apart (frontend / printer / IR)", n_sites, 6)


# ---------------------------------------------------------------------------------------------------------------------
def undeclared_key_reading_rule(cx, rep, rid):
    """C05.16.  An index signature never forces a key to exist.  Decided: wherever the value type of an index signature
    (`<idx>.value`) is read under a test that ONE key is admitted by the signature (`<key const>.is_subtype(&<idx>.key)`),
    i.e. as the type of that single undeclared key, it goes through `make_optional(..)` - or sits under a further guard
    on the signature's key type that makes its keys required (a finite key set).  `{a?: string} & {[k: string]: string}`
    read with the bare value type becomes `{a: string, ..}` and `X extends {a: string}` is answered yes."""
    F = cx.rs
    trees = _core_trees(F)
    n = 0
    # the projections behind T[K] / keyof read an index signature's value type as it is (Record<string, V>[k] is V):
    # functions that return a semantic type and are reachable from a function that reads one structural family of an
    # operand (`sub_type_data(.., SubTypeTag::X)`) are not emptiness code
    roots = {g for g, t in trees.items() if any(x["k"] in ("Call", "MethodCall") and (x.get("callee") or "").endswith("sub_type_data") for x in walk(t["body"]))
             and "SemType" in (F.fns[g].output or "") and "bool" not in (F.fns[g].output or "")}
    projection_code = set(roots)
    work = list(roots)
    while work:
        g0 = work.pop()
        for x in walk(trees[g0]["body"]):
            if x["k"] in ("Call", "MethodCall"):
                tg = _callee_gid(F, x)
                if tg in trees and tg not in projection_code and "SemType" in (F.fns[tg].output or "") and "bool" not in (F.fns[tg].output or ""):
                    projection_code.add(tg)
                    work.append(tg)

    def is_idx_field(x, name):
        return x["k"] == "Field" and x["name"] == name and (x.get("adt") or "").endswith("IndexedPropertiesAtomic")
    for g in sorted(trees):
        t = trees[g]
        f = F.fns[g]
        if "/src/subtyping/" not in (f.file or "") or g in projection_code:
            continue
        parents = {}
        for x in walk(t["body"]):
            for c in children(x):
                parents[id(c)] = x
        for node in walk(t["body"]):
            if node["k"] != "If":
                continue
            tests = [c for c in walk(node["cond"]) if c["k"] == "MethodCall" and c.get("method") == "is_subtype" and any(is_idx_field(a, "key") for a_ in (c.get("args") or []) for a in walk(a_))]
            if not tests:
                continue
            # the region in which the admission holds: the then-branch - or, for a negated test whose branch leaves
            # (`if !k.is_subtype(&idx.key)? { return .. }`), the rest of the enclosing block (b65)
            cond = node["cond"]
            while cond["k"] in ("DropTemps", "Paren"):
                cond = cond["e"]
            negated = cond["k"] == "Unary" and cond.get("op") in ("Not", "!")
            region = [node["then"]]
            if negated:
                leaves = any(x["k"] in ("Ret", "Continue", "Break") for x in walk(node["then"]))
                region = []
                if leaves:
                    for blk in walk(t["body"]):
                        if blk["k"] == "Block":
                            sts = blk.get("stmts") or []
                            for i_, st in enumerate(sts):
                                if st.get("e") is node or st is node:
                                    region = sts[i_ + 1:] + ([blk["expr"]] if blk.get("expr") is not None else [])
            reads = [x for rg in region for x in walk(rg) if is_idx_field(x, "value")]
            for r in reads:
                n += 1
                ok = False
                why = None
                cur = r
                while id(cur) in parents and cur is not node and not any(cur is rg for rg in region if negated):
                    par = parents[id(cur)]
                    if par["k"] in ("Call", "MethodCall") and ((par.get("callee") or "").endswith("make_optional") or (par.get("resolved") or "").endswith("make_optional")):
                        ok, why = True, "make_optional"
                        break
                    if par["k"] == "If" and par is not node and any(cur is z for z in walk(par["then"])):
                        guards = [c for c in walk(par["cond"]) if c["k"] in ("Call", "MethodCall") and c.get("method") != "is_subtype" and any(is_idx_field(a, "key") for a_ in (([c["recv"]] if c["k"] == "MethodCall" else []) + list(c.get("args") or [])) for a in walk(a_))]
                        if guards:
                            ok, why = True, "guard on the signature's key type: %s" % ((guards[0].get("callee") or guards[0].get("method") or "?").rsplit("::", 1)[-1])
                            break
                    cur = par
                rep.ob(rid, "%s/undeclared-key-reads-optional" % g.rsplit("::", 1)[-1], ok,
                       "%s reads the value type of an index signature as the type of ONE key the signature admits without `make_optional` (and without a guard that the signature's key set is finite): an index signature never forces the key to exist - `{a?: string} & {[k: string]: string}` becomes `{a: string, ..}`, the exact values `{}` and `{b: \"x\"}` are lost and `X extends {a: string}` is answered yes"
                       % g, "%s:%s" % (f.file, r["line"]), sample={"fn": g, "line": r["line"], "through": why})
    rep.floor(rid, "reads of an index signature's value type under a single-key admission test (two kinds: finite key set, optional)", n, 2)



# ---------------------------------------------------------------------------------------------------------------------
def declaration_scope_rule(cx, rep, rid):
    """C08.17.  The type parameters of a declaration are in scope in EVERY type-bearing part of it - the body, and for
    an interface also its heritage clause (`interface Child<T> extends Base<T>`).  Decided: in a function that pushes
    the type parameters of a declaration D (names read from `D.type_params`) on the scope stack and pops them again,
    no part of D other than its span is converted after the last pop.  (Found: the interface converter popped before
    it read `extends`, so `interface Child<T> extends Base<T>` failed with `cannot resolve T` while the equivalent
    alias `type Child<T> = Base<T> & {..}` compiled - replacing an interface by the equivalent object type changed
    the result.)"""
    F = cx.rs
    trees = _core_trees(F)
    n = 0
    for g in sorted(trees):
        t = trees[g]
        f = F.fns[g]
        if "/src/frontend/" not in (f.file or ""):
            continue
        C = Closure(t)

        def is_stack(recv):
            return recv["k"] == "Field" and "Vec<(std::string::String" in (recv.get("ty") or "").replace("alloc::", "std::") or (recv["k"] == "Field" and recv["name"].endswith("_stack"))
        pushes = [x for x in walk(t["body"]) if x["k"] == "MethodCall" and x.get("method") in ("push", "extend") and is_stack(x["recv"])]
        pops = [x for x in walk(t["body"]) if x["k"] == "MethodCall" and x.get("method") in ("pop", "truncate") and is_stack(x["recv"])]
        # or the scope is opened and closed by a local helper that runs a closure in between (b50:
        # `self.with_type_applications(params, args, |this| ..)`): the helper call is push and pop in one
        if not pushes or not pops:
            pushes, pops = [], []
            for x in walk(t["body"]):
                if x["k"] in ("Call", "MethodCall"):
                    tg = _callee_gid(F, x)
                    if tg in trees and tg != g:
                        hb = trees[tg]["body"]
                        hp = any(y["k"] == "MethodCall" and y.get("method") in ("push", "extend") and is_stack(y["recv"]) for y in walk(hb))
                        hq = any(y["k"] == "MethodCall" and y.get("method") in ("pop", "truncate") and is_stack(y["recv"]) for y in walk(hb))
                        if hp and hq and any(a["k"] == "Closure" for a in (x.get("args") or [])):
                            pushes.append(x)
                            pops.append(x)
            if not pushes:
                continue
        decls = {}
        for pu in pushes:
            for a in [a_ for a_ in (pu.get("args") or []) if a_["k"] != "Closure"]:
                for x in C.nodes(a):
                    if x["k"] == "Field" and x["name"] == "type_params":
                        base = x["e"]
                        while base["k"] in ("Field", "Unary", "AddrOf", "MethodCall"):
                            base = base["recv"] if base["k"] == "MethodCall" else base["e"]
                        if base["k"] == "Path" and base.get("res") == "local":
                            decls[base.get("lid")] = base.get("name")
        if not decls:
            continue
        seq = hirpath.eval_sequence(t["body"])
        pos = {id(x): i for i, x in enumerate(seq)}
        last_pop = max(pos.get(id(x), -1) for x in pops)
        for lid, dname in sorted(decls.items(), key=lambda kv: str(kv[1])):
            n += 1
            late = []
            for x in seq[last_pop + 1:]:
                if x["k"] not in ("Call", "MethodCall") or _callee_gid(F, x) not in trees:
                    continue          # only conversions by the crate's own functions (`.is_empty()` on the list is no conversion)
                args = ([x["recv"]] if x["k"] == "MethodCall" else []) + list(x.get("args") or [])
                for a in args:
                    for y in walk(a):
                        if y["k"] == "Field" and y["name"] not in ("span",) and "Span" not in (y.get("ty") or "Span" if y["name"] == "span" else (y.get("ty") or "")):
                            base = y["e"]
                            while base["k"] in ("Field", "Unary", "AddrOf"):
                                base = base["e"]
                            if base["k"] == "Path" and base.get("lid") == lid:
                                late.append((y["name"], x.get("method") or (x.get("callee") or "?").rsplit("::", 1)[-1], x["line"]))
            rep.ob(rid, "%s/%s/scope-covers-declaration" % (g.rsplit("::", 1)[-1], dname), not late,
                   "%s converts %s of the declaration `%s` AFTER its type parameters were popped from the scope stack: the parameters are in scope there too (`interface Child<T> extends Base<T>` fails with `cannot resolve T`, or T is bound to an unrelated outer type of that name, while `type Child<T> = Base<T> & {..}` compiles) - replacing an interface by the equivalent object type changes the result"
                   % (g, ", ".join(sorted({"`.%s` (in %s, line %s)" % l_ for l_ in late})), dname), "%s:%s" % (f.file, late[0][2] if late else f.line),
                   sample={"fn": g, "declaration": dname, "pushes": len(pushes), "pops": len(pops)})
    rep.floor(rid, "declarations whose type parameters are pushed and popped around their conversion", n, 2)


# ---------------------------------------------------------------------------------------------------------------------
def registration_routes_rule(cx, rep, rid):
    """C09.20.  A declaration can be exported in place (`export enum E {}`) or through an export list (`enum E {};
    export { E }`): the two routes are two functions of the binder that build the same payload (a variant of the
    export-symbol enum) and register it in the module's export namespaces.  Decided (sibling agreement): for every
    payload variant, every function that registers it registers it in the SAME set of namespaces (the namespace is the
    registering method, or the unit variant of a mode enum handed to it / paired with the payload).  (Found: the
    export-list route registered an enum as a type only, so `typeof E.A` in an importer failed with `cannot resolve
    value` although the single-file program and `export enum E` compile.)"""
    F = cx.rs
    trees = {g: t for g, t in _core_trees(F).items() if "/src/swc_tools/" in (F.fns[g].file or "")}
    per_variant = {}     # variant -> {fn gid -> set(namespace tokens)}
    wrapped = []         # (fn, target-enum variant, payload variants): payloads handed on inside a local enum (b81)
    arm_tokens = {}      # target-enum variant -> namespaces its match arm registers in
    for g, t in sorted(trees.items()):
        C = Closure(t)
        structs = [x for x in walk(t["body"]) if x["k"] == "Struct" and "::SymbolExport::" in (x.get("def") or "")]
        if not structs:
            continue
        # locals bound to a payload
        bound = {}
        for st in walk(t["body"]):
            if st["k"] in ("LetStmt", "Let") and st.get("init") is not None:
                inner = [x for x in walk(st["init"]) if x["k"] == "Struct" and "::SymbolExport::" in (x.get("def") or "")]
                if inner:
                    for b in walk(st["pat"]):
                        if b["k"] == "P.Binding":
                            bound.setdefault(b.get("lid"), set()).update(x["def"].rsplit("::", 1)[-1] for x in inner)

        def variants_in(e):
            out = {x["def"].rsplit("::", 1)[-1] for x in walk(e) if x["k"] == "Struct" and "::SymbolExport::" in (x.get("def") or "")}
            for x in walk(e):
                if x["k"] == "Path" and x.get("res") == "local" and x.get("lid") in bound:
                    out |= bound[x["lid"]]
            return out

        def unit_variants(e):
            return sorted({x["def"].rsplit("::", 2)[-2] + "::" + x["def"].rsplit("::", 1)[-1] for x in walk(e)
                           if x["k"] == "Path" and x.get("res") == "def" and ("Variant" in (x.get("defkind") or "") and "Const" in (x.get("defkind") or "")) and x.get("def_local") and "SymbolExport" not in x.get("def", "")})
        for n in walk(t["body"]):
            if n["k"] == "Call" and n.get("callee") and "::SymbolExport" not in n["callee"] and n.get("callee") not in F.hir:
                f_ = n.get("f") or {}
                if f_.get("k") == "Path" and "Variant" in (f_.get("defkind") or "") and f_.get("def_local"):
                    vs = set()
                    for a in n.get("args") or []:
                        vs |= variants_in(a)
                    if vs:
                        wrapped.append((g, f_.get("def"), vs))
                continue
            if n["k"] in ("Call", "MethodCall"):
                tg = _callee_gid(F, n)
                if tg not in F.hir or "/src/swc_tools/" not in (F.fns[tg].file or ""):
                    continue
                args = ([n["recv"]] if n["k"] == "MethodCall" else []) + list(n.get("args") or [])
                vs = set()
                for a in args:
                    vs |= variants_in(a)
                if not vs:
                    continue
                uv = [u for a in args for u in unit_variants(a)]
                if not uv:
                    # a thin wrapper that names the namespace for its caller (`insert_value(..)` = `insert(ExportTable::Values, ..)`)
                    inner_uv = sorted({u for y in walk(F.hir[tg]["body"]) if y["k"] in ("Call", "MethodCall") for a in (([y["recv"]] if y["k"] == "MethodCall" else []) + list(y.get("args") or [])) for u in unit_variants(a)})
                    if len(inner_uv) == 1:
                        uv = inner_uv
                toks = uv if uv else [tg.rsplit("::", 1)[-1]]       # one namespace per unit variant of the mode enum
                for v in vs:
                    per_variant.setdefault(v, {}).setdefault(g, set()).update(toks)
            if n["k"] == "Tup":
                vs = variants_in(n)
                uv = unit_variants(n)
                if vs and uv:
                    for v in vs:
                        per_variant.setdefault(v, {}).setdefault(g, set()).update(uv)
    # where a wrapped payload is unwrapped: the arm `Target::V(export) => { registrar(.., export) .. }`
    for g, t in sorted(trees.items()):
        for m in walk(t["body"]):
            if m["k"] != "Match":
                continue
            for a in m["arms"]:
                for pt in walk(a["pat"]):
                    if pt["k"] == "P.TupleStruct" and any(pt.get("def") == w[1] for w in wrapped):
                        lids = {b.get("lid") for b in walk(pt) if b["k"] == "P.Binding"}
                        for c in walk(a["body"]):
                            if c["k"] in ("Call", "MethodCall"):
                                tg = _callee_gid(F, c)
                                if tg in F.hir and "/src/swc_tools/" in (F.fns[tg].file or ""):
                                    args = ([c["recv"]] if c["k"] == "MethodCall" else []) + list(c.get("args") or [])
                                    if any(y["k"] == "Path" and y.get("lid") in lids for a_ in args for y in Closure(t).nodes(a_)):
                                        arm_tokens.setdefault(pt["def"], set()).add(tg.rsplit("::", 1)[-1])
    for g, tv, vs in wrapped:
        for v in vs:
            per_variant.setdefault(v, {}).setdefault(g, set()).update(arm_tokens.get(tv, {tv}))
    n = 0
    for v, byfn in sorted(per_variant.items()):
        if len(byfn) < 2:
            continue
        n += 1
        sets = {g: frozenset(s_) for g, s_ in byfn.items()}
        same = len(set(sets.values())) == 1
        f0 = F.fns[sorted(byfn)[0]]
        rep.ob(rid, "%s/routes-agree" % v, same,
               "the export payload %s is registered in different namespaces by different routes: %s - a declaration exported through an export list must be visible exactly where the same declaration exported in place is (`enum E {..}; export { E }` vs `export enum E {..}`: the list route registers the type side only, `typeof E.A` in an importer fails with `cannot resolve value` although the single-file program compiles)"
               % (v, "; ".join("%s -> {%s}" % (g.rsplit("::", 1)[-1], ", ".join(sorted(s_))) for g, s_ in sorted(sets.items()))), f0.loc(),
               sample={"payload": v, "routes": {g.rsplit("::", 1)[-1]: sorted(s_) for g, s_ in sets.items()}})
    rep.floor(rid, "export payload variants registered by more than one route", n, 3)


# ---------------------------------------------------------------------------------------------------------------------
def metadata_free_structure_rule(cx, rep, rid):
    """C08.18.  Comments and JSDoc are meaning-preserving: the metadata a type carries (its description) may be copied
    and printed, but it never DECIDES anything.  Decided: outside the printer (which renders the metadata into the
    emitted module), no `if` condition, `match` scrutinee or arm guard of beff-core reads a field of the metadata record
    (directly, or through a binding taken out of a `Runtype { .., metadata }` pattern).  A smart constructor that
    flattens a nested union only when it has no description makes `A | /** doc */ (B | C)` a different validator (and
    hash256) from `A | (B | C)`."""
    F = cx.rs
    trees = _core_trees(F)
    meta_adts = {a for a in F.adts if a.endswith("RuntypeMetadata")} if hasattr(F, "adts") else set()
    n_fn = 0
    n_reads = 0
    for g in sorted(trees):
        t = trees[g]
        f = F.fns[g]
        if "/src/print/" in (f.file or "") or "/tests" in (f.file or ""):
            continue
        C = Closure(t)
        # bindings that hold the metadata record (taken out of a struct pattern by field name, or typed as it)
        meta_lids = set()
        for n in walk(t["body"]):
            if n["k"] == "P.Struct":
                for fl in n.get("fields") or []:
                    if fl.get("name") == "metadata":
                        meta_lids |= {b.get("lid") for b in walk(fl["pat"]) if b["k"] == "P.Binding"}
            if n["k"] == "P.Binding" and "RuntypeMetadata" in (n.get("ty") or ""):
                meta_lids.add(n.get("lid"))

        def reads_meta(e):
            for x in C.nodes(e):
                if x["k"] == "Field" and ((x.get("adt") or "").endswith("RuntypeMetadata") or (x["name"] == "metadata" and (x.get("adt") or "").endswith("Runtype"))):
                    return x
                if x["k"] == "Path" and x.get("res") == "local" and x.get("lid") in meta_lids:
                    return x
            return None
        touched = any(True for x in walk(t["body"]) if (x["k"] == "Field" and ((x.get("adt") or "").endswith("RuntypeMetadata") or x["name"] == "metadata")) or (x["k"] == "Path" and x.get("lid") in meta_lids))
        if touched:
            n_fn += 1
        bad = []
        for n in walk(t["body"]):
            conds = []
            if n["k"] == "If":
                conds.append(n["cond"])
            if n["k"] == "Match" and not (n.get("src") or "").startswith(("TryDesugar", "ForLoopDesugar")):
                conds.append(n["scrut"])
                conds += [a["guard"] for a in n["arms"] if a.get("guard")]
            for c in conds:
                r = reads_meta(c)
                if r is not None:
                    bad.append(r)
        n_reads += len(bad)
        if touched:
            rep.ob(rid, "%s/metadata-decides-nothing" % g.rsplit("::", 1)[-1], not bad,
                   "%s branches on the metadata of a type (a condition / match scrutinee / arm guard reads it, line %s): a description comes from a comment or JSDoc, so the structure that is built - and with it the validator and its hash256 - changes when a comment is added: `boolean | /** doc */ (string | number)` stays a nested union while `boolean | (string | number)` is flattened"
                   % (g, bad[0]["line"] if bad else "?"), "%s:%s" % (f.file, bad[0]["line"] if bad else f.line), sample={"fn": g})
    rep.floor(rid, "functions outside the printer that touch the metadata record", n_fn, 2)


# ---------------------------------------------------------------------------------------------------------------------
def visibility_consulted_rule(cx, rep, rid):
    """C09.21.  Whether a name is looked up among a module's LOCAL declarations or in its EXPORT table is carried by a
    `Visibility` parameter: `import("./t").N` must go through t's exports even when t has a private `N`.  Decided: in
    every function of the frontend that takes a `Visibility`, no value leaves (error exits of `?` aside) on a path on
    which the parameter has not been read (matched on, or handed to a callee).  A memo / table hit answered before the
    visibility is consulted binds `import("./t").N` to t's private `N` once that was extracted earlier."""
    F = cx.rs
    trees = _core_trees(F)
    n = 0
    for g in sorted(trees):
        t = trees[g]
        f = F.fns[g]
        if "/src/frontend/" not in (f.file or ""):
            continue
        vis = []
        for p_ in t.get("params", []):
            for b in walk(p_):
                if b["k"] == "P.Binding" and (b.get("ty") or "").replace("&", "").strip().endswith("Visibility"):
                    vis.append(b.get("lid"))
        if not vis:
            continue
        n += 1
        exits = hirpath.unpreceded_exits(F, CRATE, t["body"], lambda x: x["k"] == "Path" and x.get("res") == "local" and x.get("lid") in vis, lambda e: False, depth=0)
        # an exit whose own expression reads the parameter consults it
        exits = [e for e in exits if not any(x["k"] == "Path" and x.get("lid") in vis for x in walk(e))]
        # diagnostics are no answers (`return self.error(..)`, `Err(..)`)
        def is_diag(e):
            for x in walk(e):
                if x["k"] in ("Call", "MethodCall"):
                    nm = (x.get("method") or (x.get("callee") or "")).rsplit("::", 1)[-1]
                    return nm in ("error", "box_error", "build_error", "Err", "push_error")
            return False
        exits = [e for e in exits if not is_diag(e)]
        # a hit in the scope stack of type parameters (a pushed-and-popped Vec<(String, _)>) is no table answer: the
        # parameters of the enclosing declaration are found by name before anything is resolved in a module
        C = Closure(t)
        def is_stack_field(x):
            return x["k"] == "Field" and (x["name"].endswith("_stack") or "Vec<(std::string::String" in (x.get("ty") or ""))

        def from_scope_stack(e):
            for x in C.nodes(e):
                if is_stack_field(x):
                    return True
                # the scope lookup behind a small helper (b11: `self.lookup_type_application_stack(&ident.sym)`)
                if x["k"] in ("Call", "MethodCall"):
                    tg = _callee_gid(F, x)
                    if tg in trees and tg != g and any(is_stack_field(y) for y in walk(trees[tg]["body"])) and not any(z["k"] in ("Call", "MethodCall") and _callee_gid(F, z) in trees and "/src/frontend/" in (F.fns[_callee_gid(F, z)].file or "") and F.fns[_callee_gid(F, z)].kind != "Closure" for z in walk(trees[tg]["body"])):
                        return True
            return False
        exits = [e for e in exits if not from_scope_stack(e)]
        # an exit that states the visibility itself (`Visibility::Export` for the target of an import type) decides it
        def states_visibility(e):
            for x in C.nodes(e):
                if x["k"] == "Path" and x.get("res") == "def" and "Visibility::" in (x.get("def") or ""):
                    return True
                # .. or through a helper that takes no Visibility and states the constant itself (b81: `default_export_address(file)`,
                # b75: the import arm moved into `extract_typeof_import(..)`): the callee decides the visibility
                if x["k"] in ("Call", "MethodCall"):
                    tg = _callee_gid(F, x)
                    if tg in trees and tg != g and not any((b.get("ty") or "").endswith("Visibility") for p_ in trees[tg].get("params", []) for b in walk(p_) if b["k"] == "P.Binding") \
                            and any(y["k"] == "Path" and y.get("res") == "def" and "Visibility::" in (y.get("def") or "") for y in walk(trees[tg]["body"])):
                        return True
            return False
        exits = [e for e in exits if not states_visibility(e)]
        rep.ob(rid, "%s/visibility-consulted" % g.rsplit("::", 1)[-1], not exits,
               "%s returns a value (line %s) on a path that has not read its `Visibility` parameter: a name reached through `import(\"./t\").N` must be looked up in t's EXPORT table - an answer taken from a table keyed by (file, name) before that binds it to t's private `N` (silently the wrong type when t exports something else under that name, and no diagnostic when t exports no `N`), depending on which parser was extracted first"
               % (g, exits[0]["line"] if exits else "?"), "%s:%s" % (f.file, exits[0]["line"] if exits else f.line), sample={"fn": g})
    rep.floor(rid, "frontend functions that take a Visibility", n, 3)


# ---------------------------------------------------------------------------------------------------------------------
def semantic_handoff_rule(cx, rep, rid):
    """C07.16.  What a semantic operation computes is handed to code generation AS COMPUTED: the Runtype that leaves
    the region which subtracts (`.diff(..)` on semantic types) and materialises (`semtype_to_runtype(..)`) derives from
    the materialised difference - no Runtype of the OPERANDS reaches it on the syntactic side.  (Taint over the typed
    HIR: operand bindings of type Runtype, propagated through `let` / match / loop bindings and `push` / `insert` /
    `extend` into Runtype-typed locals; a conversion to a semantic type is the barrier.)  A member of the left operand
    that is "kept as a reference" when it merely OVERLAPS the difference hands over a superset: `Exclude<Status |
    "archived", "active">` still accepts "active"."""
    F = cx.rs
    trees = _core_trees(F)
    n = 0

    def is_rt(ty):
        ty = ty or ""
        return "Runtype" in ty and "SemType" not in ty and "RuntypeUUID" not in ty and "RuntypeName" not in ty
    for g in sorted(trees):
        t = trees[g]
        f = F.fns[g]
        if "/src/frontend/" not in (f.file or ""):
            continue
        regions = []
        arms = [a for m in walk(t["body"]) if m["k"] == "Match" for a in m["arms"]]

        def has_both(node):
            d = any(x["k"] == "MethodCall" and x.get("method") == "diff" and "SemType" in (x.get("recv_ty") or "") for x in walk(node))
            h = any(x["k"] in ("Call", "MethodCall") and ((x.get("method") or "") == "semtype_to_runtype" or (x.get("callee") or "").endswith("semtype_to_runtype")) for x in walk(node))
            return d and h
        if not has_both(t["body"]):
            continue
        # innermost arms that hold both, else the whole body
        inner = [a for a in arms if has_both(a["body"]) and not any(has_both(b["body"]) for b in arms if b is not a and any(b is z for z in walk(a["body"])))]
        if inner:
            for a in inner:
                regions.append((a["body"], [b for b in walk(a["pat"]) if b["k"] == "P.Binding" and is_rt(b.get("ty"))]))
        else:
            regions.append((t["body"], [b for p_ in t.get("params", []) for b in walk(p_) if b["k"] == "P.Binding" and is_rt(b.get("ty"))]))
        for body, operands in regions:
            if not operands:
                continue
            n += 1
            T = {b.get("lid") for b in operands}

            def tainted(e):
                return any(x["k"] == "Path" and x.get("res") == "local" and x.get("lid") in T for x in walk(e))
            for _ in range(6):
                before = len(T)
                for x in walk(body):
                    if x["k"] in ("LetStmt", "Let") and x.get("init") is not None and tainted(x["init"]):
                        for b in walk(x["pat"]):
                            if b["k"] == "P.Binding" and is_rt(b.get("ty")):
                                T.add(b.get("lid"))
                    if x["k"] == "Match" and tainted(x["scrut"]):
                        for a in x["arms"]:
                            for b in walk(a["pat"]):
                                if b["k"] == "P.Binding" and is_rt(b.get("ty")):
                                    T.add(b.get("lid"))
                    if x["k"] == "MethodCall" and x.get("method") in ("push", "insert", "extend", "push_back", "append") and any(tainted(a) for a in x.get("args") or []):
                        r = x["recv"]
                        while r["k"] in ("AddrOf", "Unary", "Field"):
                            r = r["e"]
                        if r["k"] == "Path" and r.get("res") == "local" and is_rt(r.get("ty")):
                            T.add(r.get("lid"))
                if len(T) == before:
                    break
            w = hirpath._Walker(F, CRATE, lambda x: False, lambda e: False, 0)
            w.value(body, {False})
            leaks = [e for e in w.hits if tainted(e)]
            rep.ob(rid, "%s/difference-handed-over-as-computed" % g.rsplit("::", 1)[-1], not leaks,
                   "%s: a Runtype of an OPERAND of the subtraction reaches the value handed to code generation (line %s) beside the materialised difference: whatever part of that operand the subtraction removed is back - `Exclude<Status | \"archived\", \"active\">` with `type Status = \"active\" | \"inactive\"` keeps the reference `Status` because it overlaps the difference, and the validator still accepts \"active\""
                   % (g, leaks[0]["line"] if leaks else "?"), "%s:%s" % (f.file, leaks[0]["line"] if leaks else f.line), sample={"fn": g, "operands": [b.get("name") for b in operands]})
    rep.floor(rid, "regions that subtract semantic types and materialise the result", n, 1)


# ---------------------------------------------------------------------------------------------------------------------
def positive_argument_rule(cx, rep, rid):
    """C05.17.  The emptiness procedures decide `P & !N1 & .. & !Nk = empty` for ONE positive P (read exactly: declared
    properties only) against a list of negatives (read structurally: extra properties allowed).  The two readings
    differ, so the procedure cannot be used to compare two negatives: `exact(Ni) <= open(Nj)` does not give
    `open(Ni) <= open(Nj)`.  Decided: at every call of such a procedure (a function of the engine that takes one atomic
    type and a list of the same atomic type and answers a bool) the positive argument does not derive from an element
    of a list of atomic types.  Pruning "covered" negatives with the procedure itself drops `{a: number}` next to
    `Record<string, number>`, and `{a: number, b: string} extends {a: number} | Record<string, number>` flips to no."""
    F = cx.rs
    trees = _core_trees(F)
    import re as _re

    def base(ty):
        ty = (ty or "").replace("&", "").replace("mut ", "").strip()
        m = _re.match(r"^std::rc::Rc<([\w:]+)>$", ty)
        return m.group(1) if m else ty

    def elem_of_list(ty):
        m = _re.search(r"(?:Vec<|\[)\s*((?:std::rc::Rc<)?[\w:]+>?)", (ty or "").replace("&", ""))
        return base(m.group(1)) if m else None
    procs = {}
    for g, t in trees.items():
        f = F.fns[g]
        if "/src/subtyping/" not in (f.file or "") or "bool" not in (f.output or ""):
            continue
        ptys = []
        for p_ in t.get("params", []):
            bs = [b for b in walk(p_) if b["k"] == "P.Binding"]
            ptys.append(bs[0].get("ty") if bs else "")
        for i_, ty in enumerate(ptys):
            el = elem_of_list(ty)
            if el and "Atomic" in el:
                singles = [j for j, t2 in enumerate(ptys) if j != i_ and base(t2) == el]
                if singles:
                    procs[g] = (singles[0], i_, el)
    rep.floor(rid, "emptiness procedures (one atomic positive against a list of atomic negatives)", len(procs), 1)
    n = 0
    for g in sorted(trees):
        t = trees[g]
        f = F.fns[g]
        C = Closure(t)
        for x in walk(t["body"]):
            if x["k"] not in ("Call", "MethodCall"):
                continue
            tg = _callee_gid(F, x)
            if tg not in procs:
                continue
            pos_i, _neg_i, el = procs[tg]
            args = ([x["recv"]] if x["k"] == "MethodCall" else []) + list(x.get("args") or [])
            if pos_i >= len(args):
                continue
            n += 1
            # the positive IS an element of a list (through aliases: `&`, `*`, clone, immutable lets, match / loop
            # bindings) - a value merely computed with the help of a negative (the fragment of the recursion) is not
            def roots(e, depth=0, seen=None):
                seen = seen if seen is not None else set()
                while e["k"] in ("AddrOf", "Unary", "DropTemps", "Paren") or (e["k"] == "MethodCall" and e.get("method") in ("clone", "as_ref", "deref", "borrow", "to_owned")):
                    e = e["recv"] if e["k"] == "MethodCall" else e["e"]
                if e["k"] == "Path" and e.get("res") == "local" and e.get("lid") in C.src and e["lid"] not in seen and depth < 8:
                    seen.add(e["lid"])
                    out = []
                    for src_ in C.src[e["lid"]]:
                        out += roots(src_, depth + 1, seen)
                    return out
                return [e]

            def is_elem(e):
                if e["k"] == "Index":
                    return any(y["k"] == "Path" and elem_of_list(y.get("ty")) == el for y in walk(e.get("base") or e.get("e") or e))
                if e["k"] == "MethodCall" and e.get("method") in ("get", "first", "last", "split_first", "split_last", "next", "iter", "into_iter", "pop", "remove", "swap_remove", "get_unchecked"):
                    return any(y["k"] == "Path" and elem_of_list(y.get("ty")) == el for y in walk(e["recv"]))
                if e["k"] == "Call" and ("into_iter" in (e.get("callee") or "") or "Iterator::next" in (e.get("callee") or "")):
                    return any(y["k"] == "Path" and elem_of_list(y.get("ty")) == el for y in C.nodes(e))
                if e["k"] == "Path" and e.get("res") == "local":
                    return elem_of_list(e.get("ty")) == el
                return False
            from_list = [y for y in roots(args[pos_i]) if is_elem(y)]
            rep.ob(rid, "%s->%s/positive-is-not-a-negative" % (g.rsplit("::", 1)[-1], tg.rsplit("::", 1)[-1]), not from_list,
                   "%s calls %s with a positive that is taken out of a LIST of atomic types (`%s`, line %s): the procedure reads its positive exactly and its negatives structurally, so using it to compare two negatives decides `exact(Ni) <= open(Nj)` - `{a: number}` counts as covered by `Record<string, number>` and is pruned, after which `{a: number, b: string} extends {a: number} | Record<string, number>` is answered no"
                   % (g, tg.rsplit("::", 1)[-1], (from_list[0].get("name") or from_list[0].get("method") or from_list[0]["k"]) if from_list else "", x["line"]), "%s:%s" % (f.file, x["line"]), sample={"caller": g, "procedure": tg})
    rep.floor(rid, "calls of an emptiness procedure", n, 1)


# ---------------------------------------------------------------------------------------------------------------------
def optionality_only_rule(cx, rep, rid):
    """C01.28.  `Required<T>` / `Partial<T>` change whether a property may be ABSENT; the property's type stays as
    written (`-?` removes `undefined` only, and null / undefined are one value for beff).  Decided: a frontend function
    that flips optionality (`to_required()` / `to_optional()` on the members of an object shape) builds nothing but the
    object around them - neither it nor a local helper it hands a member to calls a Runtype constructor other than the
    object-level ones.  A helper that rebuilds the member as a union without its nullish members makes
    `Required<{title?: string | null}>` reject `{title: null}`."""
    F = cx.rs
    trees = _core_trees(F)
    OBJECT_LEVEL = ("object", "new", "record", "clone", "inner", "to_required", "to_optional", "required", "optional")
    n = 0

    def ctor_calls(tree):
        out = []
        for x in walk(tree["body"]):
            if x["k"] in ("Call", "MethodCall"):
                cal = (x.get("callee") if x["k"] == "Call" else (x.get("resolved") or x.get("callee"))) or ""
                if "runtype::Runtype::" in cal and (x.get("ty") or "").endswith("runtype::Runtype"):
                    nm = cal.rsplit("::", 1)[-1]
                    if nm not in OBJECT_LEVEL:
                        out.append((nm, x["line"]))
                    elif nm == "new" and not any(y["k"] == "Struct" and (y.get("def") or "").endswith("RuntypeKind::Object") for y in walk(x)):
                        out.append((nm, x["line"]))
        return out
    for g in sorted(trees):
        t = trees[g]
        f = F.fns[g]
        if "/src/frontend/" not in (f.file or ""):
            continue
        flips = [x for x in walk(t["body"]) if x["k"] == "MethodCall" and x.get("method") in ("to_required", "to_optional")]
        # the same flip written out: `Optionality::Optional(ty) => Optionality::Required(..ty..)`
        member_lids = {b.get("lid") for pt in walk(t["body"]) if pt["k"] == "P.TupleStruct" and "Optionality::" in (pt.get("def") or "") for b in walk(pt) if b["k"] == "P.Binding"}
        if member_lids:
            C_ = Closure(t)
            for x in walk(t["body"]):
                if x["k"] == "Call" and "Optionality::" in (x.get("callee") or "") and any(y.get("lid") in member_lids for a in x.get("args") or [] for y in C_.nodes(a) if y["k"] == "Path"):
                    flips.append(x)
        if not flips:
            continue
        n += 1
        bad = [("%s()" % nm, ln, g) for nm, ln in ctor_calls(t)]
        for x in walk(t["body"]):
            if x["k"] in ("Call", "MethodCall"):
                tg = _callee_gid(F, x)
                if tg in trees and tg != g and not any(y["k"] == "MethodCall" and y.get("method") in ("to_required", "to_optional") for y in walk(trees[tg]["body"])):
                    ptys = [b.get("ty") or "" for p_ in trees[tg].get("params", []) for b in walk(p_) if b["k"] == "P.Binding"]
                    if any("Runtype" in ty or "Optionality" in ty for ty in ptys) and "Runtype" in (F.fns[tg].output or ""):
                        bad += [("%s() in %s" % (nm, tg.rsplit("::", 1)[-1]), x["line"], tg) for nm, _ln in ctor_calls(trees[tg])]
        rep.ob(rid, "%s/flips-optionality-only" % g.rsplit("::", 1)[-1], not bad,
               "%s flips the optionality of object members and ALSO rebuilds a member type (%s): Required / Partial leave the member's type as written - stripping the nullish members of `field?: T | null` makes `Required<..>` reject `{field: null}`, a member of the declared type"
               % (g, ", ".join(sorted({b[0] for b in bad}))), "%s:%s" % (f.file, bad[0][1] if bad else f.line), sample={"fn": g, "flips": len(flips)})
    rep.floor(rid, "frontend functions that flip the optionality of object members", n, 2)


# =====================================================================================================================
# TypeScript side
import tsast
from tsast import walk as twalk, s as ts_s, unparen


def _module_fns(mod):
    out = dict(mod.functions)
    for vn, (_k, init, _d) in mod.vars.items():
        if init is not None and init.get("type") in ("ArrowFunctionExpression", "FunctionExpression"):
            out[vn] = init
    return out


def _params(fn):
    from rules.ts_common import fn_params
    return fn_params(fn)


def _ident(e):
    e = unparen(e) if isinstance(e, dict) else e
    return e["value"] if isinstance(e, dict) and e.get("type") == "Identifier" else None


def own_only_read_rule(cx, rep, rid):
    """C08.16.  Every validator reads the declared properties of the INPUT with `input[k]` (own or inherited).  An
    *own-only getter* is a module helper that answers `hasOwnProperty.call(d, k) ? d[k] : undefined` - made for the
    runtime's own tables, which are indexed with input-derived strings.  Decided: no method of a runtime class applies
    an own-only getter to the input (directly, or through a private method that is handed the input): the discriminated
    union would then insist on an OWN tag while the merged-tag spelling of the same type accepts an inherited one - two
    equivalent spellings accept different values (class instances with a getter tag, Object.create)."""
    from rules.ts_common import Family, CODEGEN
    fam = Family(cx)
    mod = fam.mod
    getters = {}
    for name, fn in _module_fns(mod).items():
        ps = _params(fn)
        if not ps or ps[0] is None:
            continue
        d = ps[0]
        own = [c for c in twalk(fn) if c["type"] == "CallExpression" and ("hasOwnProperty.call(%s," % d in ts_s(c) or ts_s(c).startswith("Object.hasOwn(%s," % d))]
        reads = [m for m in twalk(fn) if m["type"] == "MemberExpression" and m["property"]["type"] == "Computed" and _ident(m["object"]) == d]
        if own and reads:
            getters[name] = fn
    rep.floor(rid, "own-only getters (hasOwnProperty-guarded table reads)", len(getters), 1)
    n = 0
    for cname, c in sorted(fam.classes.items()):
        # parameters that hold the input: the `input` parameter of the interface methods, and parameters of the class's
        # other methods that are handed it
        holds = {}
        for mname, m in c.methods.items():
            fn = m["function"]
            if fn.get("body") is None:
                continue
            ps = _params(fn)
            if mname in ("validate", "parseAfterValidation", "reportDecodeError") and len(ps) >= 2 and ps[1]:
                holds.setdefault(mname, set()).add(ps[1])
        for _ in range(2):
            for mname, m in c.methods.items():
                fn = m["function"]
                if fn.get("body") is None or mname not in holds:
                    continue
                for call in twalk(fn):
                    if call["type"] != "CallExpression":
                        continue
                    cal = unparen(call["callee"])
                    if cal.get("type") == "MemberExpression" and cal["object"].get("type") == "ThisExpression" and cal["property"].get("type") in ("Identifier", "PrivateName"):
                        tname = cal["property"].get("value") or "#" + cal["property"].get("id", {}).get("value", "?")
                        tm = c.methods.get(tname)
                        if not tm:
                            continue
                        tps = _params(tm["function"])
                        for ai, a in enumerate(call["arguments"]):
                            if _ident(a["expression"]) in holds[mname] and ai < len(tps) and tps[ai]:
                                holds.setdefault(tname, set()).add(tps[ai])
        for mname, names in sorted(holds.items()):
            fn = c.methods[mname]["function"]
            for call in twalk(fn):
                if call["type"] == "CallExpression" and _ident(call["callee"]) in getters and call["arguments"]:
                    n += 1
                    a0 = _ident(call["arguments"][0]["expression"])
                    rep.ob(rid, "%s.%s/%s" % (cname, mname, _ident(call["callee"])), a0 not in names,
                           "%s.%s reads a property of the INPUT through the own-only getter %s: every other validator reads declared properties with `input[k]` (inherited included), so the same type written with a merged tag (`{type: \"a\" | \"b\"; ..}`) accepts a class instance / Object.create value whose tag is inherited while the discriminated-union spelling rejects it - a meaning-preserving rewrite changes the validator"
                           % (cname, mname, _ident(call["callee"])), mod.loc(call), sample={"class": cname, "method": mname, "getter": _ident(call["callee"]), "first_argument": ts_s(call["arguments"][0]["expression"])})
    n_all = sum(1 for c in fam.classes.values() for m in c.methods.values() if m["function"].get("body") is not None
                for call in twalk(m["function"]) if call["type"] == "CallExpression" and _ident(call["callee"]) in getters)
    rep.floor(rid, "own-only getter calls in the methods of the runtime classes", n_all, 1)


def _prim_test(e, name, pol=True):
    """does `e` (holding with polarity pol) establish that `name` is not an object?"""
    e = unparen(e)
    t = e.get("type")
    if t == "UnaryExpression" and e["operator"] == "!":
        return _prim_test(e["argument"], name, not pol)
    if t == "BinaryExpression":
        op = e["operator"]
        l, r = unparen(e["left"]), unparen(e["right"])
        for a, b in ((l, r), (r, l)):
            if _ident(a) == name and (b.get("type") == "NullLiteral" or _ident(b) == "undefined"):
                return (op in ("==", "===") and pol) or (op in ("!=", "!==") and not pol)
            if a.get("type") == "UnaryExpression" and a["operator"] == "typeof" and _ident(a["argument"]) == name and b.get("type") == "StringLiteral":
                prim = b["value"] in ("string", "number", "boolean", "bigint", "symbol", "undefined")
                if b["value"] == "object" or b["value"] == "function":
                    return (op in ("!=", "!==") and pol) or (op in ("==", "===") and not pol)
                return prim and ((op in ("==", "===") and pol) or (op in ("!=", "!==") and not pol))
        if op == "||" and pol:
            return _prim_test(l, name, True) and _prim_test(r, name, True)
        if op == "&&" and pol:
            return _prim_test(l, name, True) or _prim_test(r, name, True)
        if op == "||" and not pol:
            return _prim_test(l, name, False) or _prim_test(r, name, False)
        if op == "&&" and not pol:
            return _prim_test(l, name, False) and _prim_test(r, name, False)
    return False


def composite_parse_rule(cx, rep, rid):
    """C03.21.  parse returns declared parts only.  A class that holds child validators (its parseAfterValidation
    delegates to a child's parseAfterValidation) may hand back the `input` itself only where a test on the input has
    established that it is not an object (`input == null`, `typeof input !== "object"`): any object kind - also the
    ones a deep merge treats as leaves (Map, Set) - is projected by the child that matches it.  A shortcut `if
    (isLeaf(input)) return input` in the union returns the caller's Map with the undeclared keys of its elements."""
    from rules.ts_common import Family, known_conditions
    import rules.ts_common as TC
    fam = Family(cx)
    mod = fam.mod
    n = 0
    for cname, c in sorted(fam.classes.items()):
        m = c.methods.get("parseAfterValidation")
        if not m or m["function"].get("body") is None:
            continue
        fn = m["function"]
        ps = _params(fn)
        if len(ps) < 2 or not ps[1]:
            continue
        inp = ps[1]
        delegates = [x for x in twalk(fn) if x["type"] == "CallExpression" and ts_s(x["callee"]).endswith(".parseAfterValidation")]
        if not delegates:
            continue
        n += 1
        aliases = {inp}
        for d in twalk(fn):
            if d["type"] == "VariableDeclarator" and d.get("init") is not None and _ident(d["init"]) in aliases and _ident(d["id"]):
                aliases.add(_ident(d["id"]))
        bad = []
        for r in tsast.walk_no_nested_fn(fn["body"]):
            if r["type"] == "ReturnStatement" and r.get("argument") is not None and _ident(r["argument"]) in aliases:
                conds = known_conditions(fn, r)
                ok = False
                for txt, pol in conds:
                    node = TC._NODES.get(txt)
                    if node is not None and any(_prim_test(node, a, pol) for a in aliases):
                        ok = True
                if not ok:
                    bad.append(r)
        rep.ob(rid, "%s.parseAfterValidation/returns-input-only-when-primitive" % cname, not bad,
               "%s.parseAfterValidation hands back its input itself on a path where no test has established that the input is not an object (conditions there: %s): a Map / Set / object that reaches this class is then returned as the caller's own value - undeclared keys of its elements survive parse, the result aliases the input and differs from what the member type returns on its own"
               % (cname, "; ".join(sorted(t_ for t_, _ in (known_conditions(fn, bad[0]) if bad else []))) or "none"),
               mod.loc(bad[0]) if bad else mod.loc(fn), sample={"class": cname, "delegating_calls": len(delegates)})
    rep.floor(rid, "classes whose parseAfterValidation delegates to children", n, 8)


def number_encoding_rule(cx, rep, rid):
    """C13.13.  Two validators that disagree on a value have different digests, so the canonical encoding of a number
    literal must be injective on doubles.  Decided: in the writer method that takes a `number` and feeds the
    length-prefixed string writer (with the module helpers it calls), the number is only tested (Number.isNaN /
    Object.is / Number.isInteger / comparisons) and rendered with the shortest round-trip rendering (`String(x)`, a
    template, `x.toString()`); any other call on it (toExponential, toFixed, toPrecision, Math.*) or arithmetic is a
    lossy rendering: `0.1 + 0.2` and `0.3` then share their bytes."""
    mod = cx.ts("packages/beff-client/src/hash.ts")
    ALLOWED_FN = ("String", "Number.isNaN", "Object.is", "Number.isInteger", "Number.isFinite", "isNaN", "Number.isSafeInteger", "JSON.stringify")
    ALLOWED_METHOD = ("toString",)
    sites = []
    fns = _module_fns(mod)
    for cname, c in mod.classes.items():
        for mname, m in c.methods.items():
            fn = m["function"]
            if fn.get("body") is None:
                continue
            for p in fn.get("params", []):
                pat = p.get("pat", p)
                ann = tsast.type_str((pat.get("typeAnnotation") or {}).get("typeAnnotation"))
                if ann == "number" and pat.get("type") == "Identifier":
                    # the value is rendered to text here when it (or a helper's result on it) is handed to a method taking a string
                    texty = [x for x in twalk(fn) if x["type"] == "CallExpression" and any(_ident(a["expression"]) in fns and False for a in x["arguments"])]
                    sites.append((cname, mname, fn, pat["value"]))
    n = 0
    seen = set()

    def judge(owner, fn, name, depth=0):
        nonlocal n
        key = (owner, name)
        if key in seen or depth > 3:
            return
        seen.add(key)
        for x in twalk(fn):
            t = x["type"]
            if t == "CallExpression":
                cal = unparen(x["callee"])
                args = [unparen(a["expression"]) for a in x["arguments"]]
                on_recv = cal.get("type") == "MemberExpression" and _ident(cal["object"]) == name
                in_args = any(_ident(a) == name for a in args)
                if not (on_recv or in_args):
                    continue
                cs = ts_s(cal)
                if in_args and _ident(cal) in fns:
                    hp = _params(fns[_ident(cal)])
                    for ai, a in enumerate(args):
                        if _ident(a) == name and ai < len(hp) and hp[ai]:
                            judge(_ident(cal), fns[_ident(cal)], hp[ai], depth + 1)
                    continue
                if in_args and cs.startswith("this."):
                    continue          # handed on to another writer method (bytes / uint32 writers take numbers by design)
                n += 1
                ok = (in_args and cs in ALLOWED_FN) or (on_recv and cal["property"].get("value") in ALLOWED_METHOD)
                rep.ob(rid, "%s/%s" % (owner, cs), ok,
                       "%s renders the number being encoded with %s(..): only the shortest round-trip rendering (String(x), `${x}`, x.toString()) is injective on doubles - toExponential(15) / toFixed / toPrecision keep at most 16 significant digits, so two literals that differ in the 17th (0.1 + 0.2 vs 0.3) are written as the same bytes and validators that disagree on a value share a hash256"
                       % (owner, cs), mod.loc(x), sample={"in": owner, "call": cs})
            if t == "BinaryExpression" and x["operator"] in ("|", "&", "^", ">>", ">>>", "<<", "%", "*", "/", "-") and (_ident(x["left"]) == name or _ident(x["right"]) == name):
                n += 1
                rep.ob(rid, "%s/arith/%s" % (owner, x["operator"]), False,
                       "%s applies `%s` to the number being encoded before rendering it: the canonical encoding of a number must be injective" % (owner, x["operator"]), mod.loc(x))
    # the number writer: takes a number and calls a string-taking writer with text derived from it
    for cname, mname, fn, pname in sites:
        feeds_text = False
        for x in twalk(fn):
            if x["type"] == "CallExpression" and ts_s(x["callee"]).startswith("this."):
                for a in x["arguments"]:
                    ae = unparen(a["expression"])
                    if ae.get("type") == "CallExpression" and (_ident(ae["callee"]) in fns or ts_s(ae["callee"]) in ("String",)) and any(_ident(unparen(b["expression"])) == pname for b in ae["arguments"]):
                        feeds_text = True
                    if ae.get("type") == "TemplateLiteral" and any(_ident(e_) == pname for e_ in ae["expressions"]):
                        feeds_text = True
        if feeds_text:
            judge("%s.%s" % (cname, mname), fn, pname)
    rep.floor(rid, "calls on the number being encoded (tests and renderings)", n, 3)


def verbatim_name_rule(cx, rep, rid):
    """C16.10.  Definitions are stored, looked up, referred to and exported under the NAME of the type.  Decided: no
    method of the printing context applies a function to a definition name (every use of a `name` parameter is a table
    key, an `in` test, an argument handed to another method of the context, or the text put into the $ref path), and
    the export keeps the table's keys.  A normalisation (`name.replace(/[^\w.-]/g, "_")`) applied where the $ref and
    the exported key are built, but not in the bookkeeping, folds `User$Input` and `User_Input` into one exported
    definition whose body depends on the call order."""
    from rules.ts_common import CODEGEN
    mod = cx.ts(CODEGEN)
    spc = None
    for cname, c in mod.classes.items():
        if any("Definition" in m_ for m_ in c.methods) and any(m_.startswith("export") for m_ in c.methods) and "getRef" in " ".join(c.methods) or (any("storeDefinition" == m_ for m_ in c.methods)):
            spc = c
            break
    if spc is None:
        rep.anchor_missing(rid, "the schema printing context class")
        return
    n = 0
    for mname, m in sorted(spc.methods.items()):
        fn = m["function"]
        if fn.get("body") is None:
            continue
        for p in fn.get("params", []):
            pat = p.get("pat", p)
            if pat.get("type") != "Identifier" or tsast.type_str((pat.get("typeAnnotation") or {}).get("typeAnnotation")) != "string":
                continue
            name = pat["value"]
            if "name" not in name.lower():
                continue
            bad = []
            for x in twalk(fn):
                if x["type"] != "CallExpression":
                    continue
                cal = unparen(x["callee"])
                args = [unparen(a["expression"]) for a in x["arguments"]]
                recv = cal.get("type") == "MemberExpression" and _ident(cal["object"]) == name
                if recv:
                    bad.append(x)
                    continue
                if any(_ident(a) == name for a in args):
                    if cal.get("type") == "MemberExpression" and cal["object"].get("type") == "ThisExpression":
                        continue        # handed to another method of the context, judged there
                    bad.append(x)
            n += 1
            rep.ob(rid, "%s.%s/%s-verbatim" % (spc.name, mname, name), not bad,
                   "%s.%s applies %s to the definition name: names must reach the $ref text, the bookkeeping and the export unchanged - a normalisation that is not injective (or is applied on one side only) folds two named types into one exported definition, whose body then depends on the order of the calls, and the other parser's $refs resolve to the wrong type"
                   % (spc.name, mname, ", ".join(sorted({ts_s(b["callee"]) for b in bad}))), mod.loc(bad[0]) if bad else mod.loc(fn), sample={"method": mname, "parameter": name})
    ex = next((m for mn, m in spc.methods.items() if mn.startswith("export")), None)
    if ex is not None:
        fn = ex["function"]
        rekey = [x for x in twalk(fn) if x["type"] == "CallExpression" and ts_s(x["callee"]) in ("Object.fromEntries", "Object.entries", "Object.keys")]
        n += 1
        rep.ob(rid, "%s.export/keeps-keys" % spc.name, not rekey,
               "the export of the definition table rebuilds it from entries (%s): the exported keys must be the names the definitions were stored under (a spread copy keeps them)" % ", ".join(sorted({ts_s(x["callee"]) for x in rekey})),
               mod.loc(rekey[0]) if rekey else mod.loc(fn), sample={"method": "export"})
    rep.floor(rid, "name parameters of the printing context's methods", n, 5)


def merge_keeps_keys_rule(cx, rep, rid):
    """C03.22.  parse of a union / intersection deep-merges the results of the matching members; what comes out is
    accepted by the same validator and keeps every declared key.  Decided, in the merge / clone helpers (the module
    function that builds the deep merge, with its inner functions): no key is skipped because of its NAME (a comparison
    of a key with "constructor" / "prototype" / "__proto__" that gates a copy) and no key is looked up in a data object
    with `in` (which also sees Object.prototype: `toString`, `valueOf` ..) - results are built with own-property
    definitions, which need neither.  (Found: `{constructor: string} | {b: number}` parsed `{"constructor": "x"}` to
    `{}`, which the same validator rejects.)"""
    from rules.ts_common import CODEGEN
    mod = cx.ts(CODEGEN)
    fns = _module_fns(mod)
    used = set()
    for cname, c in mod.classes.items():
        m = c.methods.get("parseAfterValidation")
        if m and m["function"].get("body") is not None:
            for x in twalk(m["function"]):
                if x["type"] == "CallExpression" and _ident(x["callee"]):
                    used.add(_ident(x["callee"]))
    # the merge function is a module const initialised by a call of a module function (the constructor of the merge)
    builders = set()
    for vn, (_k, init, _d) in mod.vars.items():
        if vn in used and init is not None and unparen(init).get("type") == "CallExpression" and _ident(unparen(init)["callee"]) in fns:
            builders.add(_ident(unparen(init)["callee"]))
    for u in used:
        if u in fns:
            builders.add(u)
    rep.floor(rid, "merge / clone helper families used by parseAfterValidation", len(builders), 1)
    NAMES = ("constructor", "prototype", "__proto__")
    n = 0
    for b in sorted(builders):
        fn = fns[b]
        name_tests = [x for x in twalk(fn) if x["type"] == "BinaryExpression" and x["operator"] in ("===", "!==", "==", "!=")
                      and any(unparen(sd).get("type") == "StringLiteral" and unparen(sd)["value"] in NAMES for sd in (x["left"], x["right"]))]
        in_tests = [x for x in twalk(fn) if x["type"] == "BinaryExpression" and x["operator"] == "in"]
        # a test that only chooses HOW the key is written (if / else, both branches write) drops nothing
        two_way = set()
        for st in twalk(fn):
            if st["type"] == "IfStatement" and st.get("alternate") is not None:
                two_way |= {id(x) for x in twalk(st["test"])}
        name_tests = [x for x in name_tests if id(x) not in two_way]
        n += 1
        rep.ob(rid, "%s/no-name-filter" % b, not name_tests,
               "%s (the deep merge of parse results) skips keys by NAME (%s): a declared property called `constructor` / `prototype` / `__proto__` is dropped from what parse returns - `{constructor: string} | {b: number}` parses `{\"constructor\": \"x\"}` to `{}`, which the same validator rejects"
               % (b, ", ".join(sorted({ts_s(x) for x in name_tests}))[:160]), mod.loc(name_tests[0]) if name_tests else mod.loc(fn), sample={"helper": b, "name_tests": len(name_tests)})
        n += 1
        rep.ob(rid, "%s/no-in-on-data" % b, not in_tests,
               "%s (the deep merge of parse results) tests `%s`: `in` also sees Object.prototype, so a source key called `toString` / `valueOf` / `hasOwnProperty` counts as present in the other branch's result and is dropped - `{a: string} | {toString: string}` parses `{a: \"x\", toString: \"y\"}` to `{a: \"x\"}`"
               % (b, ts_s(in_tests[0]) if in_tests else ""), mod.loc(in_tests[0]) if in_tests else mod.loc(fn), sample={"helper": b, "in_tests": len(in_tests)})


def reporter_visits_all_rule(cx, rep, rid):
    """C12.13.  Whenever a value is rejected at least one error is reported: the reporter of a container walks the
    elements its validator walks and reports those that fail.  Decided: inside a loop of a reportDecodeError method, no
    `continue` / `break` (and no `return` that is not the method's result) is taken under conditions none of which
    comes from VALIDATING that element (a `.validate(..)` call, a const bound to one, or a module predicate that calls
    one).  A skip keyed by anything else - a set of labels already seen, a counter - silences the report of an element
    the validator rejects: `Set<number>` holding `NaN` and `null` prints both as `item(null)` and reports nothing."""
    from rules.ts_common import Family, known_conditions
    fam = Family(cx)
    mod = fam.mod
    fns = _module_fns(mod)
    validating_helpers = {n_ for n_, f_ in fns.items() if any(x["type"] == "CallExpression" and ts_s(x["callee"]).endswith(".validate") for x in twalk(f_))}
    n = 0
    LOOPS = ("ForOfStatement", "ForInStatement", "ForStatement", "WhileStatement", "DoWhileStatement")
    for cname, c in sorted(fam.classes.items()):
        m = c.methods.get("reportDecodeError")
        if not m or m["function"].get("body") is None:
            continue
        fn = m["function"]
        loops = [x for x in twalk(fn) if x["type"] in LOOPS]
        if not loops:
            continue
        n += 1
        # consts bound to a validation
        okvars = set()
        for d in twalk(fn):
            if d["type"] == "VariableDeclarator" and d.get("init") is not None and _ident(d["id"]):
                txt = ts_s(d["init"])
                if ".validate(" in txt or any((h + "(") in txt for h in validating_helpers) or any(v in txt for v in okvars if len(v) > 1):
                    okvars.add(_ident(d["id"]))
        bad = []
        for lp in loops:
            for st in tsast.walk_no_nested_fn(lp["body"]):
                if st["type"] in ("ContinueStatement", "BreakStatement"):
                    # a break that belongs to a switch is not a loop exit
                    conds = known_conditions(fn, st)
                    inner = [c_ for c_ in conds]
                    ok = False
                    for txt, _pol in inner:
                        if ".validate(" in txt or any((h + "(") in txt for h in validating_helpers) or any(re_word(v, txt) for v in okvars):
                            ok = True
                    # only conditions INSIDE the loop count: compare with the conditions known at the loop itself
                    outer = {t_ for t_, _ in known_conditions(fn, lp)}
                    inside = [(t_, p_) for t_, p_ in conds if t_ not in outer]
                    if not inside:
                        continue        # unconditional `continue` at the end of a body etc.
                    if not any(".validate(" in t_ or any((h + "(") in t_ for h in validating_helpers) or any(re_word(v, t_) for v in okvars) for t_, _ in inside):
                        bad.append((st, [t_ for t_, _ in inside]))
        rep.ob(rid, "%s.reportDecodeError/visits-what-validate-visits" % cname, not bad,
               "%s.reportDecodeError leaves an iteration of its loop over the input under %s - none of these comes from validating the element: an element the validator rejects can be skipped, and when it is the only one `safeParse` returns `errors: []` (and parse throws `Failed to parse T - ` with no reason): `Set<number>` holding NaN and null prints both as item(null), the second is taken for a repeat"
               % (cname, "; ".join(sorted({t_ for b in bad for t_ in b[1]}))[:200]), mod.loc(bad[0][0]) if bad else mod.loc(fn), sample={"class": cname, "loops": len(loops)})
    rep.floor(rid, "reporters with a loop over the input", n, 5)


def re_word(w, txt):
    import re as _re
    return _re.search(r"(?<![\w.])%s(?![\w])" % _re.escape(w), txt) is not None


def printed_type_not_edited_rule(cx, rep, rid):
    """C15.18.  The text describe() prints for a type is produced by the type's own printer and compiles back to that
    type.  Decided: no string surgery (`replace`, `replaceAll`, `slice`, `substring`, `substr`, `split`, `trim..`) is
    applied to a value that holds printed type text (the result of a `describeTypeExpr(..)` / `describe(..)` call of a
    child, a const bound to one, or a parameter of a module helper that is handed one).  A textual clean-up works on
    the first match anywhere in the nested text: `labels?: Array<(undefined | string)>` loses the `undefined` of the
    ARRAY ITEM, and the compiled-again validator rejects `{labels: [undefined]}`."""
    from rules.ts_common import CODEGEN
    mod = cx.ts(CODEGEN)
    EDITS = ("replace", "replaceAll", "slice", "substring", "substr", "split", "trim", "trimStart", "trimEnd", "padStart", "padEnd")
    units = []
    for cname, c in mod.classes.items():
        for mname, m in c.methods.items():
            if m["function"].get("body") is not None:
                units.append(("%s.%s" % (cname, mname), m["function"]))
    fns = _module_fns(mod)
    for fname, fn in fns.items():
        units.append((fname, fn))

    text_fields = set()
    # the printers, by role: methods and module functions whose first parameter is the describe context (by its
    # annotation) and that return text or a description record
    printers = {"describe", "describeTypeExpr"}
    for uname_, fn_ in units:
        ps_ = fn_.get("params", [])
        if ps_:
            pat_ = ps_[0].get("pat", ps_[0])
            ann_ = tsast.type_str((pat_.get("typeAnnotation") or {}).get("typeAnnotation"))
            rt_ = tsast.type_str((fn_.get("returnType") or {}).get("typeAnnotation"))
            if ann_ == "DescribeContext" and rt_ in ("string", "TypeDescription"):
                printers.add(uname_.rsplit(".", 1)[-1])

    def is_print_call(e):
        e = unparen(e)
        if e.get("type") == "MemberExpression" and e["property"].get("type") == "Identifier" and e["property"]["value"] in text_fields:
            return True          # a field of a description record that was filled with printed text
        return e.get("type") == "CallExpression" and ts_s(e["callee"]).rsplit(".", 1)[-1] in printers
    for _r in range(2):
        for _un, _fn in units:
            loc_hold = set()
            for d in twalk(_fn):
                if d["type"] == "VariableDeclarator" and d.get("init") is not None and _ident(d["id"]) and is_print_call(d["init"]):
                    loc_hold.add(_ident(d["id"]))
            for o in twalk(_fn):
                if o["type"] == "ObjectExpression":
                    for pr in o["properties"]:
                        if pr["type"] == "KeyValueProperty" and pr["key"].get("type") == "Identifier" and (is_print_call(pr["value"]) or _ident(unparen(pr["value"])) in loc_hold):
                            text_fields.add(pr["key"]["value"])
                        if pr["type"] == "Identifier" and pr["value"] in loc_hold:
                            text_fields.add(pr["value"])
    # module helpers whose parameter is handed printed text (two rounds)
    text_params = {}
    for _ in range(4):
        for uname, fn in units:
            holds = set(text_params.get(uname, set()))
            for d in twalk(fn):
                if d["type"] == "VariableDeclarator" and d.get("init") is not None and _ident(d["id"]):
                    init = unparen(d["init"])
                    if is_print_call(init) or _ident(init) in holds:
                        holds.add(_ident(d["id"]))
            for call in twalk(fn):
                if call["type"] == "CallExpression" and _ident(call["callee"]) in fns:
                    hp = _params(fns[_ident(call["callee"])])
                    for ai, a in enumerate(call["arguments"]):
                        ae = unparen(a["expression"])
                        if (is_print_call(ae) or _ident(ae) in holds) and ai < len(hp) and hp[ai]:
                            text_params.setdefault(_ident(call["callee"]), set()).add(hp[ai])
            # fields of records that are filled with printed text (`{ typeExpr }`, `{ typeExpr: text }`)
            for o in twalk(fn):
                if o["type"] == "ObjectExpression":
                    for pr in o["properties"]:
                        if pr["type"] == "KeyValueProperty" and pr["key"].get("type") == "Identifier" and (is_print_call(pr["value"]) or _ident(unparen(pr["value"])) in holds):
                            text_fields.add(pr["key"]["value"])
                        if pr["type"] == "Identifier" and pr["value"] in holds:
                            text_fields.add(pr["value"])
            text_params[uname] = holds | text_params.get(uname, set())
    n = 0
    for uname, fn in sorted(units, key=lambda u: u[0]):
        holds = text_params.get(uname, set())
        touches = bool(holds) or any(is_print_call(x) for x in twalk(fn) if x["type"] == "CallExpression")
        if not touches:
            continue
        n += 1
        bad = []
        for call in twalk(fn):
            if call["type"] != "CallExpression":
                continue
            cal = unparen(call["callee"])
            if cal.get("type") == "MemberExpression" and cal["property"].get("value") in EDITS:
                recv = unparen(cal["object"])
                if _ident(recv) in holds or is_print_call(recv):
                    bad.append(call)
        rep.ob(rid, "%s/printed-text-not-edited" % uname, not bad,
               "%s edits printed type text with %s: the text of a type is what its own printer produced and is compiled back as it stands - a textual rewrite matches the first occurrence anywhere in the NESTED text (`labels?: Array<(undefined | string)>` loses the item's `undefined`; the compiled-again validator rejects what the original accepts) and changes the shape that is hashed (`note?: string | undefined` comes back without the union)"
               % (uname, ", ".join(sorted({ts_s(b["callee"]) for b in bad}))), mod.loc(bad[0]) if bad else mod.loc(fn), sample={"unit": uname, "text_holders": sorted(holds)[:6]})
    rep.floor(rid, "functions that hold printed type text", n, 6)


def cyclic_input_rule(cx, rep, rid):
    """C03.23.  No input makes validate / safeParse / parse throw anything but parse's documented error - a cyclic
    object is an input.  A validator recurses on the input only as deep as the TYPE does, except through a named
    reference of a recursive type, where type and input can go round together for ever.  Decided: the methods of the
    reference class (the class that looks its target up by name and delegates) that walk the input - validate,
    parseAfterValidation, reportDecodeError - test something kept in the context (a set of (name, input) pairs on the
    current path, a depth budget) before they delegate.  Today they delegate unconditionally: `type L = {next: L |
    null}` with `a.next = a` makes all three entry points throw RangeError (maximum call stack size exceeded)."""
    from rules.ts_common import Family
    fam = Family(cx)
    mod = fam.mod
    n = 0
    for cname, c in sorted(fam.classes.items()):
        v = c.methods.get("validate")
        if not v or v["function"].get("body") is None:
            continue
        fn = v["function"]
        # the reference class: its validate fetches the target out of a table by a name field and delegates
        # the reference class, by role: it declares an accessor of the registry of named validators (a method - abstract
        # or not - whose declared result is a dictionary of Runtype), and its validate delegates (b53 / b70: the lookup
        # itself may sit in a helper)
        registry = [mn for mn, mm in c.methods.items() if "Record<string,Runtype>" in tsast.type_str((mm["function"].get("returnType") or {}).get("typeAnnotation")).replace(" ", "")]
        delegs = [x for x in twalk(fn) if x["type"] == "CallExpression" and ts_s(x["callee"]).endswith(".validate")]
        if not registry or not delegs or len(list(twalk(fn))) > 80:
            continue
        for mname in ("validate", "parseAfterValidation", "reportDecodeError"):
            m = c.methods.get(mname)
            if not m or m["function"].get("body") is None:
                continue
            f2 = m["function"]
            ps = _params(f2)
            ctxn = ps[0] if ps else None
            guards = [x for x in twalk(f2) if x["type"] in ("IfStatement", "ConditionalExpression") and ctxn and any(_ident(y) == ctxn for y in twalk(x["test"]))]
            n += 1
            rep.ob(rid, "%s.%s/bounded-on-cyclic-input" % (cname, mname), bool(guards),
                   "%s.%s follows a named reference on the same input without consulting anything in the context (no set of (name, input) pairs on the path, no depth budget): for a recursive type and a CYCLIC input the type and the value go round together - `type L = {next: L | null}` with `a.next = a` makes validate, safeParse and parse throw RangeError: Maximum call stack size exceeded instead of answering (or failing with parse's documented error)"
                   % (cname, mname), mod.loc(f2), sample={"class": cname, "method": mname})
    rep.floor(rid, "input-walking methods of the reference class", n, 2)


def synthetic_name_digest_rule(cx, rep, rid):
    """C16.11 (= C02.23).  A definition name that the runtime makes up for a STRUCTURE (the variants of a discriminated
    union) is the identity of that structure inside a printing context: two different structures under one name means
    the first one printed wins - the exported definitions depend on the call order and the other union's schema admits
    what its validator rejects.  Decided: where a name handed to BOTH the ensure / store protocol and `getRef` is built
    by a method of the class from its arguments, no argument derives from the 32-bit structural `hash(..)` - only a
    collision-resistant digest (`hash256`) can stand for a structure.  (`hash()` of the constants `true` and `"true"`
    is the same number: witness w_synthetic_name_weak_hash.)"""
    from rules.ts_common import CODEGEN
    mod = cx.ts(CODEGEN)
    n = 0
    for cname, c in sorted(mod.classes.items()):
        meths = {mn: m["function"] for mn, m in c.methods.items() if m["function"].get("body") is not None}
        for mname, fn in sorted(meths.items()):
            for d in twalk(fn):
                if d["type"] != "VariableDeclarator" or d.get("init") is None or not _ident(d["id"]):
                    continue
                init = unparen(d["init"])
                # the name is built by a method of the class, by a module function, or in place (template / concatenation)
                builder = None
                parts = []
                if init.get("type") == "CallExpression":
                    cal = unparen(init["callee"])
                    if cal.get("type") == "MemberExpression" and cal["property"].get("type") == "Identifier" and cal["property"]["value"] in meths \
                            and (cal["object"].get("type") == "ThisExpression" or _ident(cal["object"]) == cname):
                        builder = cal["property"]["value"]
                    elif _ident(cal) in _module_fns(mod):
                        builder = _ident(cal)
                    parts = [a["expression"] for a in init["arguments"]]
                elif init.get("type") == "TemplateLiteral" and init["expressions"]:
                    builder = "<template>"
                    parts = list(init["expressions"])
                elif init.get("type") == "BinaryExpression" and init["operator"] == "+":
                    builder = "<concatenation>"
                    parts = [init]
                if builder is None:
                    continue
                x = _ident(d["id"])
                uses = [u for u in twalk(fn) if u["type"] == "CallExpression" and any(_ident(a["expression"]) == x for a in u["arguments"])]
                direct = any(ts_s(u["callee"]).endswith(".getRef") for u in uses) and len(uses) >= 2
                # or the name leaves the method inside a record / as the result and is given to getRef by another method
                # of the class (b77: `return { name: syntheticRefName, target }` .. `getRef(definition.name)`)
                escapes = any((o["type"] == "ObjectExpression" and any((pr["type"] == "KeyValueProperty" and _ident(unparen(pr["value"])) == x) or (pr["type"] == "Identifier" and pr["value"] == x) for pr in o["properties"]))
                              or (o["type"] == "ReturnStatement" and _ident(o.get("argument")) == x) for o in twalk(fn))
                class_refs = any(u["type"] == "CallExpression" and ts_s(u["callee"]).endswith(".getRef") for f2 in meths.values() for u in twalk(f2))
                if not direct and not (escapes and class_refs and builder not in ("<concatenation>",) and init.get("type") == "CallExpression"):
                    continue
                # the name X is made by `builder` and used for a $ref and for the definition protocol
                n += 1
                weak = []

                def origin(expr, owner_name, owner_fn, depth=0):
                    for y in twalk(expr):
                        if y["type"] == "CallExpression":
                            yc = unparen(y["callee"])
                            if yc.get("type") == "MemberExpression" and yc["property"].get("value") == "hash":
                                weak.append((owner_name, ts_s(y)))
                    if depth > 3:
                        return
                    ps = _params(owner_fn)
                    for y in twalk(expr):
                        nm = _ident(y)
                        if nm is None:
                            continue
                        # local const alias
                        for dd in twalk(owner_fn):
                            if dd["type"] == "VariableDeclarator" and _ident(dd["id"]) == nm and dd.get("init") is not None and dd is not d:
                                origin(dd["init"], owner_name, owner_fn, depth + 1)
                        if nm in ps:
                            pi = ps.index(nm)
                            for on, of in meths.items():
                                for call in twalk(of):
                                    if call["type"] == "CallExpression":
                                        cc = unparen(call["callee"])
                                        if cc.get("type") == "MemberExpression" and cc["property"].get("value") == owner_name and pi < len(call["arguments"]):
                                            origin(call["arguments"][pi]["expression"], on, of, depth + 1)
                for a in parts:
                    origin(a, mname, fn)
                rep.ob(rid, "%s/made-up-name-digest" % cname, not weak,
                       "the definition name built by %s.%s (used for the $ref and for the stored definition in %s.%s) derives from the 32-bit structural hash (%s): two different structures with the same 32-bit value - `{kind: \"on\", value: true} | {kind: \"off\"}` and `{kind: \"on\", value: \"true\"} | {kind: \"off\"}`, hash() of `true` and of `\"true\"` coincide - share their synthetic definitions inside one printing context: the union printed first decides the body, the exported definitions depend on the call order and the other union's schema admits what its validator rejects"
                       % (cname, builder, cname, mname, "; ".join(sorted({w[1] for w in weak}))), mod.loc(d), sample={"class": cname, "builder": builder, "weak_digests": sorted({w[1] for w in weak})})
    rep.floor(rid, "made-up definition names (built by a method, used for $ref and for the definition protocol)", n, 1)


_SUBREPORTS = {}


def lift_rule(cx, rep, rid, src_pid, src_rules, why):
    """a rule of another property that is also a necessary condition of this one: run that property's rules in a
    sub-report (once per process) and take over the verdicts of the named rules (findings recorded for the other
    property stay recorded there)"""
    import importlib
    import json as _json
    import os as _os
    from report import Report
    if src_pid not in _SUBREPORTS:
        sub = Report.__new__(Report)
        sub.pid = "sub"; sub.tier = rep.tier; sub.level = "other"; sub.t0 = 0
        sub.rules = {}; sub.violations = []; sub.samples = []; sub.analysed = {}; sub.assumptions = []; sub.trusted = []
        sub.explanation = ""; sub.notes = []; sub.extra = {}; sub.known = {}; sub.known_hit = set()
        importlib.import_module("rules." + src_pid.lower()).run(cx, sub)
        _SUBREPORTS[src_pid] = sub
    sub = _SUBREPORTS[src_pid]
    kf = _json.load(open(_os.path.join(_os.path.dirname(_os.path.dirname(_os.path.abspath(__file__))), "known_findings.json")))
    known_elsewhere = {e["key"] for e in kf.get("findings", [])}
    for r_ in src_rules:
        rr = sub.rules.get(r_, {"obligations": 0, "discharged": 0})
        bad = [v for v in sub.violations if v["rule"] == r_ and v["key"] not in known_elsewhere]
        rep.ob(rid, r_, not bad and rr["obligations"] > 0,
               "%s is violated, %s: %s" % (r_, why, "; ".join(v["msg"][:220] for v in bad[:2])),
               bad[0]["loc"] if bad else None, sample={"rule": r_, "obligations": rr["obligations"], "discharged": rr["discharged"]})


# ---------------------------------------------------------------------------------------------------------------------
REGISTRY = {
    "C09": [("C09.21", "a function that takes a Visibility reads it on every path to a value exit", visibility_consulted_rule),
            ("C09.20", "every route that registers an export payload registers it in the same namespaces", registration_routes_rule)],
    "C07": [("C07.16", "a materialised difference is handed over as computed: no operand Runtype reaches the result", semantic_handoff_rule),
            ("C07.15", "an operator over any operand evaluates the projection of every structural family and unites them", family_dispatch_rule)],
    "C01": [("C01.28", "Required / Partial flip optionality only: no member type is rebuilt", optionality_only_rule),
            ("C01.27", "no answer is taken from ONE member of an intersection or union (loops / find over the members of AllOf / AnyOf)", conjunct_selection_rule)],
    "C08": [("C08.18", "the metadata of a type (descriptions from comments) decides nothing outside the printer", metadata_free_structure_rule),
            ("C08.17", "the scope of a declaration's type parameters covers every part of the declaration that is converted", declaration_scope_rule),
            ("C08.16", "no runtime class reads a property of the input through an own-only (hasOwnProperty-guarded) getter", own_only_read_rule)],
    "C03": [("C03.23", "following a named reference is bounded on cyclic inputs (the context is consulted before delegating)", cyclic_input_rule),
            ("C03.22", "the deep merge of parse results drops no key because of its name (no name filter, no `in` on data)", merge_keeps_keys_rule),
            ("C03.21", "a class with child validators hands back the input itself only where a test established it is not an object", composite_parse_rule)],
    "C10": [("C10.8", "every change event reaches the compiler's registry: the watch glue forwards updates unconditionally (C14.10, C14.6 lifted) - a dropped event makes the output depend on the order in which changed files are registered",
             lambda cx, rep, rid: lift_rule(cx, rep, rid, "C14", ["C14.10", "C14.6"], "so whether a changed file is registered depends on which change event arrives first"))],
    "C12": [("C12.13", "a reporter's loop over the input skips an element only on the outcome of validating it", reporter_visits_all_rule)],
    "C13": [("C13.13", "a number literal is encoded with the shortest round-trip rendering only (injective on doubles)", number_encoding_rule)],
    "C02": [("C02.24", "every emitted $ref resolves: the $ref text is a pure function of the name and a definition is stored under its own name (C16.8 lifted)",
             lambda cx, rep, rid: lift_rule(cx, rep, rid, "C16", ["C16.8"], "so a $ref emitted while a name was in progress can differ from the key its definition is exported under and dangle")),
            ("C02.23", "a made-up definition name stands for one structure only: it derives from a collision-resistant digest (= C16.11)", synthetic_name_digest_rule)],
    "C15": [("C15.18", "printed type text is never edited as a string", printed_type_not_edited_rule)],
    "C16": [("C16.12", "made-up definition names are a function of the type alone: hash() / hash256() keep no state on the validator instances (C13.10 lifted)",
             lambda cx, rep, rid: lift_rule(cx, rep, rid, "C13", ["C13.10"], "so the synthetic definition names (built from hash()) depend on which parser was hashed or printed first")),
            ("C16.11", "a made-up definition name stands for one structure only: it derives from a collision-resistant digest", synthetic_name_digest_rule),
            ("C16.10", "definition names reach the $ref text, the bookkeeping and the export verbatim", verbatim_name_rule)],
    "C05": [("C05.17", "the positive argument of an emptiness procedure is never an element of a list of atomic types (negatives are not compared with it)", positive_argument_rule),
            ("C05.16", "an index signature's value type read as the type of one admitted key is optional", undeclared_key_reading_rule)],
}


def run_extra(pid, cx, rep):
    from rules import r17, r18
    for rid, desc, fn in REGISTRY.get(pid, []) + r17.REGISTRY.get(pid, []) + r18.REGISTRY.get(pid, []):
        rep.rule(rid, desc)
        fn(cx, rep, rid)
