"""C10 — compilation output is a deterministic function of the sources.

C10.1  no order-exposing use of a hash container is reachable from the entry
       points (closed-world classification of every call on a hash container;
       iteration needs a recognised order-insensitive consumer)
C10.2  no ambient input (clock, environment, pid, file system, RNG, addresses)
C10.3  no process-lifetime mutable state inside beff-core
"""
import re
from entry import reachable
from mirflow import FnFlow

LEVEL = "other"

HASH_RE = re.compile(r"\b(HashMap|HashSet|hash_map|hash_set|DashMap|DashSet|dashmap|hashbrown)\b")
# the callee is a method *of* a hash container (or of one of its iterator/entry types)
RECEIVER_RE = re.compile(
    r"^(?:<&?(?:'\w+ )?(?:mut )?)?(std::collections::(?:HashMap|HashSet|hash_map::\w+|hash_set::\w+)|hashbrown::\w+(?:::\w+)*|dashmap::(?:\w+::)*\w+)\b")

SAFE = {
    "new", "with_capacity", "with_hasher", "with_capacity_and_hasher", "default", "get", "get_mut", "get_key_value",
    "insert", "remove", "remove_entry", "contains_key", "contains", "len", "is_empty", "entry", "clear", "reserve",
    "clone", "clone_from", "eq", "ne", "extend", "from_iter", "from", "index", "capacity", "shrink_to_fit", "hasher",
    "or_insert", "or_insert_with", "or_insert_with_key", "or_default", "and_modify", "key", "get_or_insert_with",
    "replace", "take", "is_subset", "is_superset", "is_disjoint", "drop", "deref", "deref_mut", "try_insert",
    "insert_entry", "value", "value_mut", "pair", "into_mut",
}
ITER = {
    "iter", "iter_mut", "keys", "values", "values_mut", "into_keys", "into_values", "drain", "retain", "extract_if",
    "into_iter", "fmt", "serialize", "difference", "union", "intersection", "symmetric_difference", "par_iter",
    "alter_all", "retain_mut", "into_read_only", "shards", "shards_mut",
}
# methods of the iterator types themselves: downstream of an ITER creation which is judged on its own
DOWNSTREAM = {"next", "size_hint", "fold", "count", "last", "nth", "for_each", "try_fold", "next_back", "advance_by"}

AMBIENT_PREFIXES = (
    "std::time::SystemTime::now", "std::time::Instant::now", "std::time::SystemTime::elapsed", "std::time::Instant::elapsed",
    "std::env::", "std::process::id", "std::thread::current", "std::thread::spawn", "std::fs::", "std::io::stdin",
    "std::net::", "rand::", "getrandom::", "fastrand::", "std::rc::Rc::<T, A>::as_ptr", "std::rc::Rc::<T>::as_ptr",
    "std::sync::Arc::<T, A>::as_ptr", "std::sync::Arc::<T>::as_ptr", "std::fmt::Pointer::fmt", "std::ptr::addr",
    "core::ptr::const_ptr::<impl *const T>::addr", "core::ptr::mut_ptr::<impl *mut T>::addr",
    "core::ptr::const_ptr::<impl *const T>::expose_provenance", "js_sys::Date", "js_sys::Math::random",
    "web_sys::Performance", "std::path::Path::exists", "std::path::Path::canonicalize",
    "core::fmt::rt::Argument::<'_>::new_pointer",
)
# (a randomly keyed hasher is an ambient input too: `RandomState::new()` draws per-process keys, so a hash VALUE
#  computed with it - not only an iteration order - differs between runs)
AMBIENT_RE = re.compile(r"as std::fmt::Pointer>::fmt|RandomState::new$|RandomState as std::default::Default>::default|RandomState as std::hash::BuildHasher>::(hash_one|build_hasher)|ahash::RandomState")


def method_of(path):
    return path.rsplit("::", 1)[-1]


def hasher_of(call):
    """'random' | 'deterministic:<S>' for the container the call operates on"""
    c = call.callee
    full = call.best_full or ""
    targs = c.get("targs", [])
    cand = " ".join(targs) + " " + full
    if "RandomState" in cand:
        return "random"
    m = re.search(r"(BuildHasherDefault<[^>]*>|FxBuildHasher|\w*BuildHasher\w*|ahash::\w+)", cand)
    if m:
        if "ahash" in m.group(1):
            return "random"
        return "deterministic:" + m.group(1)
    # std HashMap/HashSet print with the default hasher elided
    return "random"


def classify_calls(F, fns):
    """yield (call, kind) for every call on a hash container made by the given fns"""
    for g in sorted(fns):
        f = F.fns[g]
        for call in f.calls:
            if call.indirect:
                continue
            paths = [p for p in (call.path, call.resolved) if p]
            recv = None
            for p in paths:
                if RECEIVER_RE.search(p):
                    recv = p
                    break
            if recv is None:
                # trait method with a hash container as Self (e.g. IntoIterator for &HashMap, Debug)
                st = call.targs[0] if (call.trait and call.targs) else None
                if st and re.match(r"^&?(?:'\w+ )?(?:mut )?(std::collections::(HashMap|HashSet|hash_map::\w+|hash_set::\w+)|dashmap::(\w+::)*\w+|hashbrown::\w+)\b", st):
                    recv = call.best
                elif (call.path or "").startswith("core::fmt::rt::Argument::<'_>::new_debug") and call.targs and HASH_RE.search(call.targs[-1]):
                    yield call, "ITER", "fmt"
                    continue
                else:
                    continue
            m = method_of(recv)
            if m.startswith("{closure"):
                continue
            subject = call.targs[0] if (call.trait and call.targs) else recv
            is_iter_type = re.search(r"(hash_map::|hash_set::|dashmap::iter|dashmap::mapref|hashbrown::\w+::(Iter|Drain|Keys|Values))", subject) is not None
            if m in ITER and not is_iter_type:
                yield call, "ITER", m
            elif is_iter_type:
                # any method of an iterator/entry type: downstream of a creation site judged on its own
                yield call, "DOWNSTREAM", m
            elif m in SAFE:
                yield call, "SAFE", m
            else:
                yield call, "UNCLASSIFIED", m


def unsize_to_fmt_object(F, fns):
    """Assign statements `_x = &hash_container as &dyn Debug|Display` (Unsize coercion) in the given fns"""
    for g in sorted(fns):
        f = F.fns[g]
        if not f.mir:
            continue
        locs = f.mir["locals"]
        for b in f.mir["blocks"]:
            for st in b["stmts"]:
                if st["k"] != "Assign" or st["rv"]["k"] != "Cast" or "Unsize" not in st["rv"].get("cast", ""):
                    continue
                tgt = st["rv"].get("ty", "")
                if "dyn " not in tgt or not re.search(r"\b(Debug|Display)\b", tgt):
                    continue
                pl = st["rv"]["op"].get("place")
                if pl is None or pl["p"]:
                    continue
                src = locs[pl["l"]]["ty"]
                if re.match(r"^&?(?:'\w+ )?(?:mut )?(std::collections::(HashMap|HashSet)|dashmap::\w+)\b", src):
                    yield f, st


def for_loop_order_insensitive(F, call, deterministic):
    """for-loop over a hash container (typed HIR): accepted when the body has no early exit and only accumulates
    into ordered/hash containers; for deterministic-hasher containers (shard/insertion order only) pushes into
    local Vecs that are sorted after the loop are accepted as well"""
    from facts import walk as hwalk
    f = call.fn
    tree = F.hir.get(f.root or f.id)
    if tree is None:
        return False, "no HIR"
    loops = [n for n in hwalk(tree["body"]) if n["k"] == "Match" and n.get("src") == "ForLoopDesugar" and n["line"] == call.line
             and len(n["arms"]) == 1 and n["arms"][0]["pat"]["k"] == "P.Binding"]
    if len(loops) != 1:
        return False, "for-loop not found in the typed HIR"
    lp = loops[0]
    body = lp["arms"]
    for n in hwalk(body):
        if n["k"] in ("Ret", "Break") and not any("desugar" in m for m in (n.get("mac") or [])):
            return False, "the loop body can leave the loop early (%s): which element is seen first matters" % n["k"]
        if n["k"] == "Match" and (n.get("src") or "").startswith("TryDesugar"):
            return False, "the loop body propagates an error with `?`: which failing element is seen first matters"
    pushed = set()
    for n in hwalk(body):
        if n["k"] == "MethodCall":
            recv_ty = (n.get("recv_ty") or "")
            base = [x["name"] for x in hwalk(n["recv"]) if x["k"] == "Path" and x.get("res") == "local"]
            m = n["method"]
            if m in ("push", "push_str", "extend", "append", "insert", "entry", "or_insert_with", "or_insert", "or_default", "remove", "push_back"):
                t = recv_ty.replace("&mut ", "").replace("&", "")
                if re.match(r"^std::collections::(BTreeMap|BTreeSet|HashMap|HashSet)<", t) or "btree_map::Entry" in t or "hash_map::Entry" in t:
                    continue
                if t.startswith("std::vec::Vec<") and m in ("push", "extend", "append"):      # extend / append: the same accumulation, several elements at once (b105)
                    r0 = n["recv"]
                    while r0["k"] in ("AddrOf", "Unary"):
                        r0 = r0["e"]
                    if r0["k"] == "Path" and base and deterministic:
                        pushed.add(base[0])
                        continue
                    if r0["k"] == "MethodCall" and deterministic and any(x["k"] == "MethodCall" and x["method"] == "entry" for x in hwalk(r0)):
                        continue   # push into the per-key Vec obtained from entry() of an ordered map (one entry per visited key)
                    return False, "the loop body pushes into a Vec in hash order"
                if m in ("entry", "or_insert_with", "or_insert", "or_default"):
                    continue
                return False, "the loop body mutates %s with %s in hash order" % (t[:40], m)
        if n["k"] in ("Assign", "AssignOp"):
            return False, "the loop body assigns to a variable in hash order"
    # every Vec pushed to is sorted after the loop
    end_line = max([x.get("line", 0) for x in hwalk(body)] + [lp["line"]])
    for v in sorted(pushed):
        sorts = [n for n in hwalk(tree["body"]) if n["k"] == "MethodCall" and n["method"] in ("sort", "sort_by", "sort_by_key", "sort_unstable", "sort_unstable_by", "sort_unstable_by_key")
                 and [x["name"] for x in hwalk(n["recv"]) if x["k"] == "Path" and x.get("res") == "local"] == [v] and n["line"] > end_line]
        if not sorts:
            return False, "Vec `%s` filled in hash order is not sorted after the loop" % v
        # a sort erases the hash order only where its order is TOTAL on the elements: a plain sort of an Ord element
        # is (ties are equal elements); a sort by a KEY is only when the key is unique - ties keep the hash order
        # (stable sort) or any order (unstable).  Unique keys are reviewed facts (tables/c10_unique_sort_keys.json);
        # the key closure must read at least the reviewed fields (seed C10-r sorted the JSDoc candidates by the
        # position of the token they lead, which two stacked comments share)
        first = min(sorts, key=lambda n_: n_["line"])
        if first["method"] not in ("sort", "sort_unstable"):
            import json as _json, os as _os
            tab = _json.load(open(_os.path.join(_os.path.dirname(_os.path.dirname(_os.path.abspath(__file__))), "tables", "c10_unique_sort_keys.json")))["keys"]
            owner_id = f.root or f.id
            read = {x["name"] for a_ in first.get("args", []) for x in hwalk(a_) if x["k"] == "Field"}
            # (a key function of the compiler: follow it one level)
            for a_ in first.get("args", []):
                for x in hwalk(a_):
                    if x["k"] in ("Call", "MethodCall"):
                        g2 = F._callee_gid("beff_core", x.get("resolved") or x.get("callee") or "")
                        if g2 in F.hir:
                            read |= {y["name"] for y in hwalk(F.hir[g2]["body"]) if y["k"] == "Field"}
            ent = [e for e in tab if owner_id.endswith(e["fn_suffix"]) and e["vec"] == v]
            if not ent:
                return False, "Vec `%s` filled in hash order is sorted by a key (%s) that no reviewed entry of tables/c10_unique_sort_keys.json states to be unique: elements with equal keys stay in hash order" % (v, ", ".join(sorted(read)) or "?")
            if not set(ent[0]["unique_fields"]) <= read:
                return False, "Vec `%s` filled in hash order is sorted by (%s), which no longer includes the reviewed unique key (%s): elements with equal keys stay in hash order - or, with an unstable sort, in any order - so the result depends on the iteration order of the hash container (for swc's comment map: on the number of shards, i.e. on the CPU count of the process)" % (v, ", ".join(sorted(read)) or "?", ", ".join(ent[0]["unique_fields"]))
        # between the loop and the sort the Vec is still in hash order: a loop over it there may only regroup it per key
        # (push into the per-key Vec obtained from entry() of an ordered map, as inside the loop itself: one hash entry
        # per key, so each group keeps the order of its entry) - b105 groups before it sorts
        first_sort = min(n["line"] for n in sorts)
        for lp2 in hwalk(tree["body"]):
            if lp2["k"] == "Match" and lp2.get("src") == "ForLoopDesugar" and end_line < lp2["line"] < first_sort \
                    and any(x["k"] == "Path" and x.get("res") == "local" and x.get("name") == v for x in hwalk(lp2["scrut"])):
                for n in hwalk(lp2["arms"]):
                    if n["k"] in ("Ret", "Break") and not any("desugar" in m_ for m_ in (n.get("mac") or [])):
                        return False, "Vec `%s` is walked in hash order before it is sorted, and the walk can leave early" % v
                    if n["k"] in ("Assign", "AssignOp"):
                        return False, "Vec `%s` is walked in hash order before it is sorted, and the walk assigns to a variable" % v
                    if n["k"] == "MethodCall" and n["method"] in ("push", "push_str", "extend", "append", "push_back"):
                        r0 = n["recv"]
                        while r0["k"] in ("AddrOf", "Unary"):
                            r0 = r0["e"]
                        if not (r0["k"] == "MethodCall" and any(x["k"] == "MethodCall" and x["method"] == "entry" and re.match(r"^(&mut )?std::collections::BTreeMap<", (x.get("recv_ty") or "")) for x in hwalk(r0))):
                            return False, "Vec `%s` is walked in hash order before it is sorted, and the walk pushes into something that is not a per-key group of an ordered map" % v
    return True, "for-loop without early exit that only accumulates into ordered/hash containers%s" % (" and Vecs sorted after the loop (%s)" % ", ".join(sorted(pushed)) if pushed else "")


def judge_iteration(F, call):
    """is the iterator produced by this ITER call consumed order-insensitively? -> (ok, why)"""
    m = method_of(call.best)
    if m in ("fmt", "serialize", "retain", "retain_mut", "alter_all"):
        return False, "%s visits the entries in hash order" % m
    flow = FnFlow(call.fn)
    ok, why = flow.order_insensitive_consumer(call, closure_lookup=lambda path: F.fns.get(F._callee_gid(call.fn.crate, path)))
    if not ok and ("for-loop" in why or "next" in why or "no consuming call" in why or "into_iter" in why):
        det = hasher_of(call).startswith("deterministic")
        ok2, why2 = for_loop_order_insensitive(F, call, det)
        if ok2:
            return True, why2
        return False, why + "; " + why2
    return ok, why


def site_key(call, m):
    cont = "HashMap" if "HashMap" in (call.best_full or "") else "HashSet" if "HashSet" in (call.best_full or "") else \
        "DashMap" if "ashMap" in (call.best_full or "") or "dashmap" in (call.best_full or "") else "hash"
    return "%s/%s.%s" % (call.fn.id, cont, m)


def serialised_hash_rule(F, rep, rid):
    """`#[derive(Serialize)]` iterates inside generated code: no loop of the repository mentions the container, yet a
    HashMap / HashSet field is written entry by entry in the order of its RandomState - different in every process and
    for every `HashMap::new()`.  The diagnostics handed to the host are serialised this way.  Decided on the types: the
    closure of the types that implement serde's Serialize (through fields that are local types, Vec / Option / Box /
    Rc of them) contains no field whose type mentions HashMap / HashSet; a field marked `#[serde(skip)]` cannot be
    seen in the type facts and is not excused."""
    import re as _re
    roots = {i["self"].split("<")[0] for i in F.impls if (i.get("trait") or "").endswith("Serialize") and i.get("crate") in ("beff_core", "beff_wasm")}
    by_last = {}
    for k in F.adts:
        by_last.setdefault(k.rsplit("::", 1)[-1], []).append(k)
    seen, work = set(), []
    for r in sorted(roots):
        for k in by_last.get(r.rsplit("::", 1)[-1], []):
            work.append((k, r))
    n = 0
    while work:
        k, via = work.pop()
        if k in seen:
            continue
        seen.add(k)
        a = F.adts[k]
        for v in a["variants"]:
            for fl in v["fields"]:
                n += 1
                bad = _re.search(r"\bHash(Map|Set)<", fl["ty"])
                rep.ob(rid, "%s.%s" % (k, fl["name"]), not bad,
                       "%s.%s : %s is part of a serialised value (reached from %s, which implements Serialize): the derived serialiser writes its entries in hash order, so the text handed to the host differs from run to run for the same input" % (k, fl["name"], fl["ty"], via),
                       "%s:%s" % (a["file"], a["line"]), sample={"type": k, "field": fl["name"], "field_type": fl["ty"]})
                for m in _re.finditer(r"[A-Za-z_][\w:]*", fl["ty"]):
                    nm = m.group(0).rsplit("::", 1)[-1]
                    for k2 in by_last.get(nm, []):
                        if k2 not in seen and F.adts[k2].get("crate") == a.get("crate"):
                            work.append((k2, via))
    rep.floor(rid, "fields of serialised types", n, 3)


def run(cx, rep):
    F = cx.rs
    reach, parent, roots, exports = reachable(F)
    rep.analysed = {"functions_total": len(F.fns), "functions_reachable": len(reach), "entry_points": sorted(roots),
                    "call_sites_scanned": sum(len(F.fns[g].calls) for g in reach)}
    rep.explanation = (
        "May-analysis over the resolved call graph (MIR call terminators with Instance-resolved callees, closure "
        "creation, fn-pointer reification, callbacks through local impls of foreign traits) from the compiler entry "
        "points. Every call on a hash container is classified (closed world: an API the table does not know fails "
        "the check); iteration of a RandomState container is accepted only with a recognised order-insensitive "
        "consumer; ambient inputs and process-lifetime state are expected-zero rules with positive controls in the "
        "canary crate. Decides: no value on a path from an entry point can depend on hash order, clock, environment "
        "or addresses. Does not decide: determinism of swc/serde_json (assumed).")
    rep.trusted = ["rustc MIR + Instance::try_resolve", "call-graph over-approximation described in DESIGN.md 1.1",
                   "swc, serde_json, std are deterministic given their inputs"]
    rep.assumptions = ["dependency crates are not analysed", "FileManager answers are the only external input"]
    if len(reach) < 600:
        rep.rule("C10.0", "reachability sanity")
        rep.floor("C10.0", "reachable functions", len(reach), 600)

    accepted = {(e["fn"], e["container"]): e for e in cx.table("c10_accepted_iterations.json")["sites"]}

    rep.rule("C10.1", "every reachable use of a hash container is order-insensitive")
    n_hash = 0
    for call, kind, m in classify_calls(F, reach):
        n_hash += 1
        loc = "%s:%s" % (call.file, call.line)
        if kind in ("SAFE", "DOWNSTREAM"):
            rep.ob("C10.1", site_key(call, m), True, sample={"site": loc, "api": call.best, "class": kind})
            continue
        if kind == "UNCLASSIFIED":
            rep.ob("C10.1", "unclassified/" + site_key(call, m), False,
                   "call to %s on a hash container is not in the classification table (neither known order-insensitive nor known iteration); classify it" % call.best, loc)
            continue
        hz = hasher_of(call)
        key = site_key(call, m)
        tab = None
        for (fn, cont), e in accepted.items():
            if call.fn.id == fn and cont in (call.best_full or "") + " " + " ".join(call.targs):
                tab = e
        if tab is not None:
            rep.ob("C10.1", key, True, sample={"site": loc, "api": call.best, "hasher": hz, "accepted_because": tab["reason"]})
            continue
        ok, why = judge_iteration(F, call)
        path = " -> ".join(F.path_to(call.fn.id, parent)[-4:])
        rep.ob("C10.1", key, ok,
               "order-exposing iteration %s (hasher: %s) reachable via %s; consumer: %s" % (call.best_full, hz, path, why), loc,
               sample={"site": loc, "api": call.best, "hasher": hz, "consumer": why})
    rep.floor("C10.1", "hash-container call sites classified", n_hash, 30)
    # Debug/Display formatting through a trait object: `&HashMap as &dyn Debug` (derived Debug impls, format!)
    n_unsize = 0
    for f, st in unsize_to_fmt_object(F, reach):
        n_unsize += 1
        rep.ob("C10.1", "%s/dyn-fmt" % f.id, False,
               "a hash container is coerced to a formatting trait object (%s): its Debug/Display output follows hash order" % st["rv"]["ty"],
               "%s:%s" % (f.file, st.get("line")))

    rep.rule("C10.2", "no ambient input reachable (clock, env, pid, fs, rng, addresses, randomly keyed hashers)")
    n_scanned = 0
    for g in sorted(reach):
        f = F.fns[g]
        for call in f.calls:
            n_scanned += 1
            p = call.best or ""
            if any(p.startswith(a) for a in AMBIENT_PREFIXES) or AMBIENT_RE.search(p) or \
                    any((call.path or "").startswith(a) for a in AMBIENT_PREFIXES):
                rep.ob("C10.2", "%s/%s" % (f.id, p), False,
                       "ambient input %s reachable via %s" % (p, " -> ".join(F.path_to(f.id, parent)[-4:])),
                       "%s:%s" % (call.file, call.line))
        if f.mir:
            for b in f.mir["blocks"]:
                for st in b["stmts"]:
                    if st["k"] == "Assign" and st["rv"]["k"] == "Cast" and "ExposeProvenance" in st["rv"].get("cast", "") \
                            and "ExposedProvenance" not in st["rv"].get("cast", ""):
                        rep.ob("C10.2", "%s/ptr-to-int" % f.id, False, "pointer address converted to integer", "%s:%s" % (f.file, st.get("line")))
    rep.ob("C10.2", "scan", True, sample={"calls_scanned": n_scanned, "forbidden_prefixes": len(AMBIENT_PREFIXES)})

    # ---------------------------------------------------------------- C10.4
    # (shared with C14.7) what the session happens to have loaded is an ambient input too
    rep.rule("C10.4", "no result depends on which modules happen to be loaded already (cache-only lookups)")
    from rules.c14 import cache_only_lookup_rule, cached_modules_immutable_rule
    cache_only_lookup_rule(cx, rep, "C10.4")
    # ---------------------------------------------------------------- C10.5
    # (shared with C14.8) a module object that changes while it is used makes the second compilation over the same
    # registered modules differ from the first
    rep.rule("C10.5", "parsed modules are not changed by compiling them (no interior mutability, read-only comment map)")
    cached_modules_immutable_rule(cx, rep, "C10.5")
    # ---------------------------------------------------------------- C10.7
    rep.rule("C10.7", "no serialised type holds a hash container (derived Serialize writes the entries in iteration order)")
    serialised_hash_rule(F, rep, "C10.7")
    rep.rule("C10.3", "beff-core holds no process-lifetime mutable state (static / thread_local)")
    core_statics = [s for s in F.statics if s["crate"] == "beff_core"]
    for s in core_statics:
        rep.ob("C10.3", "static/" + s["id"], False,
               "static %s: %s in beff-core: compilation results may depend on earlier compilations in the process" % (s["id"], s["ty"]),
               "%s:%s" % (s["file"], s["line"]))
    tl = [c for g in reach for c in F.fns[g].calls if (c.best or "").startswith("std::thread::LocalKey") and F.fns[g].crate == "beff_core"]
    for c in tl:
        # swc's GLOBALS scoped key is not std LocalKey; any LocalKey use inside beff-core is local state
        rep.ob("C10.3", "tls/%s" % c.fn.id, False, "thread-local accessed in beff-core", "%s:%s" % (c.file, c.line))
    rep.ob("C10.3", "inventory", True, sample={"beff_core_statics": len(core_statics), "local_key_uses_in_core": len(tl)})

    # ---- positive controls (canary crate) --------------------------------------
    rep.rule("C10.ctl", "positive controls: each forbidden construct is found in the canary crate")
    C = cx.canary
    croots = [f.id for f in C.fns.values() if f.name == "entry"]
    creach = C.reachable(croots)
    bad = good = 0
    for call, kind, m in classify_calls(C, creach):
        if kind == "ITER":
            ok, why = judge_iteration(C, call)
            if ok:
                good += 1
            else:
                bad += 1
    rep.ob("C10.ctl", "iteration-flagged", bad >= 6, "canary: expected >= 6 flagged hash iterations, got %d" % bad,
           sample={"canary_flagged_iterations": bad})
    verdicts = {}
    for call, kind, m in classify_calls(C, set(C.fns)):
        if kind == "ITER" and call.fn.name in ("sorted_by_map_key", "sorted_by_value"):
            verdicts[call.fn.name] = judge_iteration(C, call)[0]
    rep.ob("C10.ctl", "vec-sort-total-key", verdicts == {"sorted_by_map_key": True, "sorted_by_value": False},
           "canary: collect-then-sort must be accepted only when the sort key is the unique map key (got %s)" % verdicts, sample={"canary_sort_verdicts": verdicts})
    nun = len(list(unsize_to_fmt_object(C, set(C.fns))))
    rep.ob("C10.ctl", "dyn-fmt", nun >= 1, "canary: expected >= 1 hash container coerced to dyn Debug, got %d" % nun,
           sample={"canary_dyn_fmt": nun})
    rep.ob("C10.ctl", "iteration-accepted", good >= 3, "canary: expected >= 3 accepted order-insensitive consumers, got %d" % good,
           sample={"canary_accepted_iterations": good})
    amb = 0
    for g in creach:
        for call in C.fns[g].calls:
            p = call.best or ""
            if any(p.startswith(a) for a in AMBIENT_PREFIXES) or AMBIENT_RE.search(p):
                amb += 1
    rep.ob("C10.ctl", "ambient", amb >= 8, "canary: expected >= 8 ambient calls (clock x2, env, pid, fs, address x2, random hasher), got %d" % amb, sample={"canary_ambient_calls": amb})
    rep.ob("C10.ctl", "statics", len([s for s in C.statics if not s["nested"]]) >= 4,
           "canary: expected >= 4 statics, got %d" % len(C.statics), sample={"canary_statics": [s["id"] for s in C.statics]})

    # ---------------------------------------------------------------- C10.6
    rep.rule("C10.6", "twin accessors of the module tables agree (type / value)")
    import twins
    twins.twin_rule(cx, rep, "C10.6", r"swc_tools/", floor=2)
