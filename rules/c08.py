"""C08 — meaning-preserving rewrites of the source do not change validators.

C08.1  identity of a Runtype ignores metadata: the hand-written PartialEq / Ord / Hash read only `kind`;
       attaching a description writes only `metadata`
C08.2  canonical containers: union / intersection members, object properties, template alternatives are ordered sets/maps
C08.3  the hoisting key covers every field: Printable*Key converters bind and use every field of every variant
C08.4  (TypeScript) digests read structure only: no hash()/hash256() reads metadata or names; key iteration is sorted
"""
import re
from facts import walk, walk_inlined, WASM

from facts import mentions_str_lit

LEVEL = "other"


def locals_in(n):
    return [x["name"] for x in walk(n) if x["k"] == "Path" and x.get("res") == "local"]


def field_reads(f, adt):
    """field names of `adt` projected anywhere in the MIR of f"""
    out = set()
    pre = "f:%s::" % adt

    def scan_place(pl):
        for p in pl["p"]:
            if p.startswith(pre):
                out.add(p[len(pre):])

    def scan_op(op):
        if op and op.get("place"):
            scan_place(op["place"])
    for b in f.mir["blocks"]:
        for st in b["stmts"]:
            if st["k"] == "Assign":
                scan_place(st["place"])
                rv = st["rv"]
                for k in ("op", "a", "b"):
                    if isinstance(rv.get(k), dict):
                        scan_op(rv[k])
                if rv.get("place"):
                    scan_place(rv["place"])
                for o in rv.get("ops", []):
                    scan_op(o)
        t = b["term"]
        for a in t.get("args", []):
            scan_op(a)
        if t.get("dest"):
            scan_place(t["dest"])
        if t["k"] == "SwitchInt":
            scan_op(t["discr"])
    return out


def field_writes(f, adt):
    out = set()
    pre = "f:%s::" % adt
    for b in f.mir["blocks"]:
        for st in b["stmts"]:
            if st["k"] == "Assign":
                for p in st["place"]["p"]:
                    if p.startswith(pre):
                        out.add(p[len(pre):])
        t = b["term"]
        if t.get("dest"):
            for p in t["dest"]["p"]:
                if p.startswith(pre):
                    out.add(p[len(pre):])
    return out


def all_of_merge_rule(cx, rep, rid):
    F = cx.rs
    RT = "ast::runtype::Runtype"
    ao = [f for f in F.fns.values() if f.impl_self == RT and f.name == "all_of" and f.id in F.hir]
    if len(ao) != 1:
        rep.anchor_missing(rid, "Runtype::all_of")
    else:
        tree = F.hir[ao[0].id]
        # the merge may live in all_of itself or in private helpers it delegates to
        nodes = [n for n, _o in walk_inlined(F, ao[0].id, private_only=True)]
        # the merge keeps the last writer of a key (extend/insert into the accumulated key-value list):
        # that is order-independent only if colliding values were compared for equality as stored
        cmps = [n for n in nodes if n["k"] == "Binary" and n["op"] in ("Ne", "Eq") and "Optionality" in (n["l"].get("ty") or "") + (n["r"].get("ty") or "")]
        allc = [n for n in nodes if n["k"] == "Binary" and n["op"] in ("Ne", "Eq") and n["l"]["k"] != "Lit" and n["r"]["k"] != "Lit"
                and "usize" not in (n["l"].get("ty") or "")]
        def plain(e):
            while e["k"] in ("AddrOf", "Unary"):
                e = e["e"]
            return e["k"] == "Path" and e.get("res") == "local"
        ok = len(cmps) >= 1 and all(plain(c["l"]) and plain(c["r"]) for c in cmps) and len(allc) == len(cmps)
        rep.ob(rid, "all_of/collision-compares-stored-values", ok,
               "Runtype::all_of merges object members with last-writer-wins; the collision test must compare the stored property values themselves (optionality included), found comparisons %s: members that differ in what is not compared are merged in source order, so `A & B` and `B & A` yield different validators" % (
                   [(c["l"].get("ty"), c["l"]["k"], c["r"]["k"]) for c in allc]), ao[0].loc(), sample={"comparisons": len(cmps)})
        # the accumulated member list, by type (a collection of (key, Optionality<Runtype>) pairs)
        ext = [n for n in nodes if n["k"] == "MethodCall" and n["method"] in ("extend", "insert", "push")
               and "Optionality<" in (n.get("recv_ty") or "") and any(x["k"] == "Path" and x.get("res") == "local" for x in walk(n["recv"]))]
        early = [n for n in nodes if n["k"] == "Ret"]

        def builds_all_of(e, depth=0):
            """the expression constructs RuntypeKind::AllOf, directly or through a private constructor helper that
            does nothing but build it (no object merge inside)"""
            for x in walk(e):
                if x["k"] in ("Call", "Path") and "RuntypeKind::AllOf" in (x.get("def") or x.get("callee") or ""):
                    return True
                if x["k"] in ("Call", "MethodCall") and depth < 2:
                    g = F._callee_gid(ao[0].crate, x.get("callee") or "")
                    if g in F.hir and g != ao[0].id and (F.fns[g].impl_self == RT):
                        body = F.hir[g]["body"]
                        merges = any(y["k"] in ("Call", "Path") and re.search(r"Runtype::object$|RuntypeKind::Object$", y.get("def") or y.get("callee") or "") for y in walk(body))
                        if not merges and builds_all_of(body, depth + 1):
                            return True
            return False
        direct = any(builds_all_of(r) for r in early)
        # the same decision split over a helper: the collision test leaves the merging code early (`return None`,
        # `break`) without building the merged object, and the caller builds the AllOf for that outcome
        def leaves_without_merge():
            lets = {}
            for n in nodes:
                if n["k"] == "LetStmt" and n.get("init") is not None and n["pat"].get("k") == "P.Binding":
                    lets[n["pat"]["lid"]] = n["init"]
            for n in nodes:
                if n["k"] != "If":
                    continue
                cond_nodes = list(walk(n["cond"]))
                for x in list(cond_nodes):
                    if x["k"] == "Path" and x.get("lid") in lets:
                        cond_nodes += list(walk(lets[x["lid"]]))
                # the comparison may sit in a private predicate the condition calls (`has_conflicting_key(..)`)
                for x in list(cond_nodes):
                    if x["k"] in ("Call", "MethodCall"):
                        tg = F._callee_gid(ao[0].crate, (x.get("resolved") or x.get("callee") or ""))
                        if tg in F.hir and tg != ao[0].id and (F.fns[tg].output or "") == "bool":
                            cond_nodes += list(walk(F.hir[tg]["body"]))
                if not any(c is x for c in cmps for x in cond_nodes):
                    continue
                for r in walk(n["then"]):
                    if r["k"] in ("Ret", "Break") and not any(
                            y["k"] in ("Call", "Path") and re.search(r"Runtype::object$|RuntypeKind::Object$", y.get("def") or y.get("callee") or "") for y in walk(r)):
                        return True
            return False
        anywhere = any(x["k"] in ("Call", "Path") and "RuntypeKind::AllOf" in (x.get("def") or x.get("callee") or "") for x in nodes)
        rep.ob(rid, "all_of/conflict-keeps-intersection", len(ext) >= 1 and (direct or (anywhere and leaves_without_merge())),
               "on a collision all_of must keep the members as an (order-free) AllOf set instead of merging", ao[0].loc())



def symmetric_merge_rule(cx, rep, rid):
    """Binary merge / selection functions over IR nodes are applied to members in set order (BTreeSet), which has
    nothing to do with meaning, so they must treat their two operands alike.  Decided part: the payload they return
    (followed backwards through values whose type mentions the payload type only, not through tests) reaches both
    same-typed operands or neither; a function that can hand back its left operand but never its right one gives a
    different validator when the members are spelled, named or ordered differently."""
    import collections
    from mirflow import FnFlow, Origins
    F = cx.rs
    n = 0
    for g, f in sorted(F.fns.items()):
        if not f.mir or f.kind == "Closure" or not (f.file or "").endswith(("print/printer.rs", "ast/runtype.rs")):
            continue
        ins = f.inputs or []
        cnt = collections.Counter(t for t in ins if t.startswith("&") and not t.startswith("&mut") and "Runtype" in t)
        same = [t for t, k in cnt.items() if k == 2]
        if len(same) != 1 or "Runtype" not in (f.output or ""):
            continue
        idx = [i + 1 for i, t in enumerate(ins) if t == same[0]]
        O = Origins(FnFlow(f), keep=lambda ty: "Runtype" in ty or ty.startswith("{closure") or ty.startswith("[closure"))
        got = {o[1] for o in O.of_local(0) if o[0] == "param"} & set(idx)
        n += 1
        names = [f.mir["locals"][i].get("name") or "_%d" % i for i in idx]
        rep.ob(rid, "%s/operands" % f.id.rsplit("::", 1)[-1], got == set(idx) or not got,
               "%s can return (a part of) its operand `%s` but never `%s`: the two operands arrive in set order, so the result depends on how the members are named or ordered" % (
                   f.id, "`, `".join(f.mir["locals"][i].get("name") or "?" for i in sorted(got)), "`, `".join(f.mir["locals"][i].get("name") or "?" for i in sorted(set(idx) - got))),
               f.loc(), sample={"fn": f.id, "operands": names, "returned_payload_reaches": sorted(got)})
    rep.floor(rid, "binary merge functions over Runtype operands", n, 2)


def sibling_tables_rule(cx, rep, rid):
    """The discriminated-union validator gets two tables keyed by tag: the one validate()/parse/hash256 dispatch on and
    the one schema() prints.  Both must select the variants of a tag in the same way; they are built either by one
    function called twice or by two pieces of code whose selection predicates must stay alpha-equivalent.  Decided:
    every `ObjectLit` construction whose properties come from mapping the discriminator values selects with predicates
    of the same structural shape."""
    from facts import hir_shape
    F = cx.rs
    n = 0
    for g in sorted(F.hir):
        f = F.fns.get(g)
        if f is None or "/src/print/" not in (f.file or ""):
            continue
        tree = F.hir[g]
        if not tree.get("params") or not mentions_str_lit(F, tree["body"], "AnyOfDiscriminatedRuntype"):
            continue
        n += 1
        tables = []
        # (tables built inline in this function; when a refactoring has moved the construction into one helper that
        # is called twice there is a single piece of code and nothing to compare)
        for x in walk(tree["body"]):
            if x["k"] == "Struct" and (x.get("def") or "").endswith("ObjectLit"):
                props = [fl["e"] for fl in x["fields"] if fl["name"] == "props"]
                if props and any(y["k"] == "Closure" for y in walk(props[0])):
                    tables.append(props[0])
        # compared: the SELECTION of the variants of a tag (the predicates given to filter-like adaptors).  What is then
        # built from the selected variants may differ - the schema table narrows the tag of a variant that carries
        # several literals to its key (fix efd9347), the dispatch table must not.
        SELECT = ("filter", "filter_map", "find", "find_map", "position", "take_while", "skip_while", "retain")
        def selection(t):
            return tuple(hir_shape(a) for x in walk(t) if x["k"] == "MethodCall" and x.get("method") in SELECT for a in x["args"])
        shapes = {selection(t) for t in tables}
        if not tables:
            rep.ob(rid, "%s/tables-agree" % f.id.rsplit("::", 1)[-1], True, sample={"fn": f.id, "tables": "built elsewhere (shared builder)"})
            continue
        rep.ob(rid, "%s/tables-agree" % f.id.rsplit("::", 1)[-1], len(shapes) == 1,
               "%s builds %d tag tables for AnyOfDiscriminatedRuntype with %d different pieces of code: the table validate() dispatches on and the one schema() prints select the variants of a tag differently, so validator, schema and hash256 of the same type disagree" % (f.id, len(tables), len(shapes)),
               "%s:%s" % (f.file, tables[-1]["line"]), sample={"fn": f.id, "tables": len(tables), "distinct_shapes": len(shapes)})
    rep.floor(rid, "functions constructing AnyOfDiscriminatedRuntype", n, 1)


def hoist_key_converters(F):
    """(key ADTs, converter functions) of the printer's hoisting table, by role"""
    key_adts = set()
    for gid, a in F.adts.items():
        if not gid.startswith("print::"):
            continue
        for v in a["variants"]:
            for fl in v["fields"]:
                m_ = re.match(r"^std::collections::(?:BTreeMap|HashMap)<([\w:]+), (.*)>$", fl["ty"])
                if not m_ or m_.group(1) not in F.adts:
                    continue
                val = m_.group(2)
                # the value holds an emitted expression: directly, in a tuple, or as a field of a local record type
                holds = "swc_ecma_ast::Expr" in val or any(
                    "swc_ecma_ast::Expr" in f2["ty"] for o_, a2 in F.adts.items() if re.search(r"(?<![\w:])%s(?![\w])" % re.escape(o_), val)
                    for v2 in a2["variants"] for f2 in v2["fields"])
                if holds:
                    key_adts.add(m_.group(1))
    work = list(key_adts)
    while work:
        k_ = work.pop()
        for v in F.adts[k_]["variants"]:
            for fl in v["fields"]:
                for other in F.adts:
                    if other.startswith("print::") and other not in key_adts and re.search(r"(?<![\w:])%s(?![\w])" % re.escape(other), fl["ty"]):
                        key_adts.add(other)
                        work.append(other)
    convs = [f for f in F.fns.values() if f.impl_self in key_adts and f.id in F.hir and f.kind == "AssocFn" and len(f.inputs or []) == 1
             and (f.inputs[0] or "").startswith("&ast::") and (f.output or "") in key_adts]
    return key_adts, convs


def hoist_key_optionality_rule(cx, rep, rid):
    """no converter of the hoisting table (or helper it calls) reads a field through an accessor that forgets whether
    the member is optional: `{[k: string]: V}` and `{[k: string]?: V}` would share one hoisted validator, whichever is
    printed first"""
    F = cx.rs
    key_adts, convs = hoist_key_converters(F)
    from rules.c02 import optionality_erasers
    erasers = optionality_erasers(F)
    for f in sorted(convs, key=lambda x: x.id):
        er = []
        for x, _o in walk_inlined(F, f.id, private_only=True):
            if x["k"] in ("Call", "MethodCall"):
                cal = x.get("resolved") or x.get("callee") or ""
                if F._callee_gid(f.crate, cal) in erasers or re.sub(r"<[^<>]*>", "<T>", cal) in erasers:
                    er.append(x)
        rep.ob(rid, "%s/keeps-optionality" % f.name, not er,
               "%s builds a hoist key through an accessor that forgets the optionality of a member (%s): two types that differ only there get the same key, and the second one is emitted as a reference to the first one's validator" % (f.id, ", ".join(sorted({(x.get("method") or (x.get("callee") or "?").rsplit("::", 1)[-1]) for x in er}))),
               "%s:%s" % (f.file, er[0]["line"] if er else f.line), sample={"converter": f.name})


def hoist_key_faithful_rule(cx, rep, rid):
    """A hoist key is the IDENTITY of a sub-validator inside one emitted module: two IR nodes with equal keys share one
    `direct_hoist_N`.  So the key must carry every payload of the node itself (cloned) or converted by another
    converter of the table - never a value COMPUTED from the payload by some other function of the compiler: a printer
    such as `RuntypeUUID::diag_print()` prints the bare name, and the references `a.ts::X` and `b.ts::X` (or `Box<A>`
    and a type named `Box_A`) get one key - the second type is emitted as the first one's validator (seed C09-q).
    Decided: inside the converters every call that resolves to a function of the compiler is a converter of the table
    (its result is a key type, possibly inside a container) or a `Clone::clone`."""
    F = cx.rs
    key_adts, convs = hoist_key_converters(F)
    n = 0
    for f in sorted(convs, key=lambda x: x.id):
        bad = []
        for x in walk(F.hir[f.id]["body"]):
            if x["k"] not in ("Call", "MethodCall"):
                continue
            cal = x.get("resolved") or x.get("callee") or ""
            fn = F.fns.get(F._callee_gid(f.crate, cal))
            if fn is None:
                continue
            n += 1
            out = fn.output or ""
            if fn.impl_trait == "std::clone::Clone" or any(re.search(r"(?<![\w:])%s(?![\w])" % re.escape(k_), out) for k_ in key_adts):
                continue
            bad.append((x, fn))
        rep.ob(rid, "%s/payload-whole" % f.name, not bad,
               "%s builds a hoist key from a value computed by %s: the key is the identity of the emitted sub-validator, and a computed projection (a printed name, a summary) can coincide for different nodes - e.g. same-named types of two files, or an instantiation and a plain type that print alike - so the second one is emitted as a reference to the first one's validator" % (
                   f.id, ", ".join(sorted({b[1].id for b in bad}))),
               "%s:%s" % (f.file, bad[0][0]["line"] if bad else f.line), sample={"converter": f.name})
    rep.floor(rid, "calls of compiler functions inside the hoist-key converters", n, 12)


def run(cx, rep):
    F = cx.rs
    rep.explanation = (
        "Structural rules: (1) field-access facts on the MIR of the three hand-written identity impls of Runtype (only "
        "`kind` may be read) and of the description setter (only `metadata` may be written); (2) type facts on the IR "
        "ADTs (ordered containers make member/property order irrelevant by construction); (3) key-coverage of the "
        "Printable*Key converters used to hoist shared sub-validators: every pattern-bound field of every variant is "
        "used, no field is dropped by `..` or `_`, and the target variant has the source variant's name - two types that "
        "differ in a dropped field would otherwise share one hoisted constant; (4) on the TypeScript side, digest methods "
        "read no metadata/name field and iterate object keys only over sorted copies. Decides these necessary "
        "conditions; does not decide behavioural equality across spellings.")
    rep.trusted = ["rustc MIR/HIR/ADT facts", "swc AST of codegen-v2.ts"]
    RT = "ast::runtype::Runtype"
    # ---------------------------------------------------------------- C08.1
    rep.rule("C08.1", "Runtype identity (Eq/Ord/Hash) reads only `kind`; descriptions write only `metadata`")
    want = {"std::cmp::PartialEq": "eq", "std::cmp::Ord": "cmp", "std::hash::Hash": "hash"}
    found = 0
    for tr, m in want.items():
        fs = [f for f in F.fns.values() if f.impl_trait == tr and f.impl_self == RT and f.name == m]
        derived = [i for i in F.impls if i.get("trait") == tr and i["self"] == RT and i.get("derived")]
        if derived:
            rep.ob("C08.1", "%s/hand-written" % m, False, "%s for Runtype is now derived: a derived impl compares metadata (descriptions, JSDoc) too" % tr,
                   "%s:%s" % (derived[0]["file"], derived[0]["line"]))
            continue
        if len(fs) != 1:
            rep.anchor_missing("C08.1", "impl %s for Runtype" % tr)
            continue
        found += 1
        r = field_reads(fs[0], RT)
        rep.ob("C08.1", "%s/reads" % m, r == {"kind"},
               "<Runtype as %s>::%s reads fields %s: identity must depend on `kind` only (JSDoc/description must not split or reorder union members, hoisted constants, named types)" % (tr, m, sorted(r)),
               fs[0].loc(), sample={"impl": tr, "fields_read": sorted(r)})
    pc = [f for f in F.fns.values() if f.impl_trait == "std::cmp::PartialOrd" and f.impl_self == RT and f.name == "partial_cmp"]
    for f in pc:
        r = field_reads(f, RT)
        calls_cmp = any((c.best or "").endswith("<ast::runtype::Runtype as std::cmp::Ord>::cmp") for c in f.calls)
        rep.ob("C08.1", "partial_cmp", (not r and calls_cmp) or r == {"kind"}, "PartialOrd for Runtype must delegate to Ord (reads %s)" % sorted(r), f.loc())
    wd = [f for f in F.fns.values() if f.impl_self == RT and f.name in ("with_description", "with_metadata") and f.mir]
    rep.floor("C08.1", "description setters", len(wd), 1)
    for f in wd:
        w = field_writes(f, RT)
        # a setter that rebuilds the struct: Aggregate with kind moved from self
        rep.ob("C08.1", "%s/writes" % f.name, w <= {"metadata"}, "%s writes fields %s of Runtype (only metadata may change)" % (f.id, sorted(w)), f.loc(),
               sample={"fn": f.name, "fields_written": sorted(w)})
    # ---------------------------------------------------------------- C08.2
    rep.rule("C08.2", "canonical (ordered) containers in the IR")
    rk = F.adts.get("ast::runtype::RuntypeKind")
    if rk is None:
        rep.anchor_missing("C08.2", "RuntypeKind")
    else:
        vs = {v["name"]: v for v in rk["variants"]}
        checks = [("AnyOf", 0, "BTreeSet<"), ("AllOf", 0, "BTreeSet<")]
        for vn, idx, want_t in checks:
            t = vs[vn]["fields"][idx]["ty"] if vn in vs and vs[vn]["fields"] else "?"
            rep.ob("C08.2", "RuntypeKind::%s" % vn, "std::collections::" + want_t in t, "RuntypeKind::%s holds %s: member order would become observable" % (vn, t),
                   "%s:%s" % (rk["file"], rk["line"]), sample={"variant": vn, "type": t})
        obj = {f["name"]: f["ty"] for f in vs.get("Object", {}).get("fields", [])}
        rep.ob("C08.2", "RuntypeKind::Object.vs", "BTreeMap<" in obj.get("vs", ""), "Object.vs is %s: property order would become observable" % obj.get("vs"), "%s:%s" % (rk["file"], rk["line"]))
    tp = F.adts.get("ast::runtype::TplLitTypeItem")
    if tp:
        one = [v for v in tp["variants"] if v["name"] == "OneOf"]
        rep.ob("C08.2", "TplLitTypeItem::OneOf", bool(one) and "BTreeSet<" in one[0]["fields"][0]["ty"], "template alternatives must be an ordered set", "%s:%s" % (tp["file"], tp["line"]))
    # ---------------------------------------------------------------- C08.3
    rep.rule("C08.3", "hoist keys cover every field of every variant")
    # the hoist-key types, by role: the key type of the printer's table of hoisted expressions (a map whose values hold
    # an emitted `Expr`) and the local types it is built from - whatever module a refactoring keeps them in
    key_adts, convs = hoist_key_converters(F)
    rep.floor("C08.3", "hoist-key types", len(key_adts), 2)
    rep.floor("C08.3", "Printable*Key converters", len(convs), 4)
    n_arms = 0
    for f in sorted(convs, key=lambda x: x.id):
        tree = F.hir[f.id]
        ms = [n for n in walk(tree["body"]) if n["k"] == "Match" and n.get("src") == "Normal"]
        if ms:
            m = ms[0]
            adt = m.get("scrut_adt")
            src_adt = F.adts.get(adt)
            variants_seen = set()
            for a in m["arms"]:
                p = a["pat"]
                while p["k"] in ("P.Ref",):
                    p = p["sub"]
                d = p.get("def")
                if p["k"] in ("P.Wild", "P.Binding") or not d:
                    rep.ob("C08.3", "%s/catch-all" % f.name, False, "%s has a catch-all arm: distinct kinds would share one hoist key" % f.id, "%s:%s" % (f.file, a["line"]))
                    continue
                n_arms += 1
                vname = d.rsplit("::", 1)[-1]
                variants_seen.add(vname)
                bound = []
                dropped = bool(p.get("rest"))
                subs = [fl["pat"] for fl in p.get("fields", [])] + list(p.get("pats", []))
                for sp in subs:
                    if sp["k"] == "P.Binding":
                        bound.append(sp["name"])
                    elif sp["k"] == "P.Wild":
                        dropped = True
                used = set(locals_in(a["body"]))
                unused = [b for b in bound if b not in used]
                # target variant: Self::<V> constructor of the same name
                tgt = set()
                for x in walk(a["body"]):
                    dd = x.get("def") or (x.get("callee") if x["k"] == "Call" else None) or ""
                    mm = re.search(r"Printable\w+Key::(\w+)$", dd)
                    if mm and x["k"] in ("Path", "Call", "Struct"):
                        tgt.add(mm.group(1))
                # number of payload fields of the source variant
                nfields = None
                if src_adt:
                    sv = [v for v in src_adt["variants"] if v["name"] == vname]
                    nfields = len(sv[0]["fields"]) if sv else None
                ok = not dropped and not unused and (vname in tgt) and (nfields is None or len(bound) == nfields)
                rep.ob("C08.3", "%s/%s" % (f.name, vname), ok,
                       "%s arm %s: %s%s%s: two types differing only there would share one hoisted constant" % (
                           f.id, vname, "drops fields with `..`/`_`; " if dropped else "", "binds but does not use %s; " % unused if unused else "",
                           "" if vname in tgt else "builds key variant %s; " % sorted(tgt)), "%s:%s" % (f.file, a["line"]),
                       sample={"converter": f.name, "variant": vname, "fields": bound})
            if src_adt:
                missing = {v["name"] for v in src_adt["variants"]} - variants_seen
                rep.ob("C08.3", "%s/all-variants" % f.name, not missing, "%s does not handle %s" % (f.id, sorted(missing)), f.loc())
        else:
            # struct converter: every field of the source struct parameter is read
            ps = [p.get("name") for p in tree["params"]]
            pty = (f.inputs or ["?"])[0].lstrip("&").strip()
            src_adt = F.adts.get(pty)
            read = {x["name"] for x in walk(tree["body"]) if x["k"] == "Field" and locals_in(x["e"]) == ps[:1]}
            if src_adt and src_adt["kind"] == "Struct":
                need = {fl["name"] for fl in src_adt["variants"][0]["fields"]}
                rep.ob("C08.3", "%s/fields" % f.name, need <= read, "%s ignores fields %s of %s in the hoist key" % (f.id, sorted(need - read), pty), f.loc(),
                       sample={"converter": f.name, "source": pty, "fields_read": sorted(read)})
    rep.floor("C08.3", "converter arms", n_arms, 26)
    hoist_key_optionality_rule(cx, rep, "C08.3")
    # ---------------------------------------------------------------- C08.19 (= C09.22)
    rep.rule("C08.19", "a hoist key carries the payloads of the node whole (cloned or converted by the table's converters), never a computed projection")
    hoist_key_faithful_rule(cx, rep, "C08.19")
    for i in F.impls:
        if i["self"] in key_adts and i.get("trait") in ("std::cmp::PartialEq", "std::cmp::Ord"):
            rep.ob("C08.3", "derived/%s/%s" % (i["self"].rsplit("::", 1)[-1], i["trait"].rsplit("::", 1)[-1]), bool(i.get("derived")),
                   "%s for %s is hand-written: the hoist key must compare all of its fields" % (i["trait"], i["self"]), "%s:%s" % (i["file"], i["line"]))
    # ---------------------------------------------------------------- C08.5
    rep.rule("C08.5", "merging intersection members into one object is order-independent")
    all_of_merge_rule(cx, rep, "C08.5")
    rep.rule("C08.10", "an intersection folded into one object keeps no index signature (declared keys would escape it)")
    merged_object_closed_rule(cx, rep, "C08.10")
    rep.rule("C08.11", "the body of a named declaration is read in its own scope (not in the scope of the place that first refers to it)")
    declaration_scope_rule(cx, rep, "C08.11")
    # ---------------------------------------------------------------- C08.12
    rejecting_visited_set_rule(cx, rep, "C08.12")
    # ---------------------------------------------------------------- C08.13
    per_binding_result_rule(cx, rep, "C08.13")
    # ---------------------------------------------------------------- C08.14 (= C13.12)
    # renaming an alias (or inlining it) reorders the members of a union / intersection of named types as the compiler
    # lists them; a digest written in list order changes with it
    rep.rule("C08.14", "hash256 / hash of a union or intersection do not change when its named members are renamed or inlined (= C13.12)")
    from rules.c01 import lifted_rules
    lifted_rules(cx, rep, "C08.14", (("rules.c13", "C13.12"),))
    # ---------------------------------------------------------------- C08.15 (= C01.7)
    # `interface X extends B { .. }` and `type X = B & { .. }` are two spellings of one type: a lowering that rebuilds
    # the members of one spelling from a node it took apart must carry over every constraint of the node
    rep.rule("C08.15", "a frontend function that rebuilds a type from the parts of a node it matched carries over all of the node's constraints (= C01.7)")
    lifted_rules(cx, rep, "C08.15", (("rules.c01", "C01.7"),))
    rep.rule("C08.7", "the dispatch table and the schema table of a discriminated union are built alike")
    sibling_tables_rule(cx, rep, "C08.7")
    rep.rule("C08.8", "renaming, introducing or inlining a generic wrapper does not change what a type parameter means (scope stacks are searched innermost-first; = C01.8)")
    from rules.c01 import scope_stack_rule
    scope_stack_rule(cx, rep, "C08.8")
    rep.rule("C08.9", "a value merged from the existing entry of a map is stored whether or not the entry exists")
    n89 = lost_update_rule(F, rep, "C08.9", lambda f: f.crate != WASM)
    rep.floor("C08.9", "or_insert sites", n89, 1)
    if cx.canary is not None:
        hits = lost_update_rule(cx.canary, None, None, lambda f: True, collect=True)
        rep.ob("C08.9", "control/canary-lost-update", any("lost_update" in h for h in hits) and not any("kept_update" in h or "first_wins" in h for h in hits),
               "positive control: the canary crate's or_insert of a merged value must be reported, its insert / first-wins twins must not (reported: %s)" % hits, "canary/rs/src/lib.rs")
    rep.rule("C08.6", "binary merges of set-ordered members treat both operands alike")
    symmetric_merge_rule(cx, rep, "C08.6")
    # ---------------------------------------------------------------- C08.4
    rep.rule("C08.4", "digests (hash / hash256) read structure only and iterate keys in sorted order")
    from rules import ts_common
    ts_common.digest_structure_rules(cx, rep, "C08.4")



def lost_update_rule(F, rep, rid, select, collect=False):
    """`m.entry(k).or_insert(v)` stores v only when k is ABSENT.  When v was computed from the entry that is already
    there (`match m.get(&k) { Some(old) => merge(old, new), None => new }`), the store is skipped in exactly the case
    the merge was computed for, and the first writer wins: with members that arrive in set order, which declaration of
    a property survives then depends on how the members are named.  Decided for every or_insert / or_insert_with:
    its value does not derive (through local `let`s) from a lookup in the same map."""
    hits = []
    n = 0
    for g in sorted(F.hir):
        f = F.fns.get(g)
        if f is None or not select(f):
            continue
        tree = F.hir[g]
        lets = {}
        for x in walk(tree["body"]):
            if x["k"] == "LetStmt" and x.get("init") is not None and x["pat"].get("k") == "P.Binding":
                lets[x["pat"]["lid"]] = x["init"]

        def root(e):
            while e["k"] in ("AddrOf", "Unary", "DropTemps", "Field", "MethodCall") and (e.get("e") is not None or e.get("recv") is not None):
                if e["k"] == "MethodCall":
                    if e["method"] not in ("borrow_mut", "borrow", "as_mut", "as_ref", "deref", "deref_mut"):
                        return None
                    e = e["recv"]
                else:
                    e = e["e"]
            return (e.get("lid"),) if e["k"] == "Path" and e.get("res") == "local" else None

        def looks_up(e, m, depth=0, seen=None):
            seen = seen if seen is not None else set()
            for y in walk(e):
                if y["k"] == "MethodCall" and y["method"] in ("get", "get_mut", "contains_key", "remove", "get_key_value") and root(y["recv"]) == m:
                    return True
                if y["k"] == "Path" and y.get("lid") in lets and y["lid"] not in seen and depth < 4:
                    seen.add(y["lid"])
                    if looks_up(lets[y["lid"]], m, depth + 1, seen):
                        return True
            return False
        for x in walk(tree["body"]):
            if x["k"] != "MethodCall" or x["method"] not in ("or_insert", "or_insert_with") or not x["args"]:
                continue
            ent = x["recv"]
            while ent["k"] == "MethodCall" and ent["method"] != "entry":
                ent = ent["recv"]
            if ent["k"] != "MethodCall" or ent["method"] != "entry":
                continue
            m = root(ent["recv"])
            if m is None:
                continue
            n += 1
            bad = looks_up(x["args"][0], m)
            if collect:
                if bad:
                    hits.append(g)
                continue
            rep.ob(rid, "%s/or_insert@%d" % (g.rsplit("::", 1)[-1], n), not bad,
                   "%s stores with entry(..).or_insert(v) a value v that was computed from the map's existing entry: when the key is present - the only case in which the merge differs from the new value - nothing is stored, so the first declaration wins instead of the merged one" % g,
                   "%s:%s" % (f.file, x["line"]), sample={"fn": g, "value_derives_from_lookup_in_same_map": bad})
    return hits if collect else n


def merged_object_closed_rule(cx, rep, rid):
    """The runtime checks an index signature against the UNDECLARED keys only - sound for an object type literal,
    where TypeScript forces every declared property to conform to the index signature.  In an intersection
    `{name: T} & Record<string, V>` the property `name` has type `T & V`; as long as the two members stay separate
    validators the dictionary member sees every key.  Folding the index signature into the merged object exempts the
    declared keys from it, and the inline spelling of the intersection accepts values the spelling through aliases
    (references are never merged) rejects.  Decided: every object the intersection constructor (and its private
    helpers) builds from merged members has `indexed_properties: None`."""
    F = cx.rs
    RT = "ast::runtype::Runtype"
    ao = [f for f in F.fns.values() if f.impl_self == RT and f.name == "all_of" and f.id in F.hir]
    if len(ao) != 1:
        rep.anchor_missing(rid, "Runtype::all_of")
        return
    n = 0
    seen_fns = set()

    def objects_built(gid, depth=0):
        """(node, index-signature expression or None-marker) for every RuntypeKind::Object built in gid or, one level
        down, in the Runtype constructor helpers it calls"""
        out = []
        for x, _o in walk_inlined(F, gid, private_only=True):
            if x["k"] == "Struct" and (x.get("def") or "").endswith("RuntypeKind::Object"):
                ip = [fl for fl in x.get("fields", []) if fl.get("name") == "indexed_properties"]
                out.append((x, (ip[0].get("e") or ip[0].get("expr")) if ip else None))
            elif x["k"] in ("Call", "MethodCall") and depth < 1:
                g = F._callee_gid(ao[0].crate, x.get("callee") or "")
                if g in F.hir and g != gid and F.fns[g].impl_self == RT and g not in seen_fns and F.fns[g].name != "all_of" \
                        and "Runtype" in (F.fns[g].output or "") and not any(y["k"] == "Match" for y in walk(F.hir[g]["body"])):
                    seen_fns.add(g)
                    out += objects_built(g, depth + 1)
        return out
    for x, e in objects_built(ao[0].id):
        n += 1
        is_none = e is not None and e["k"] == "Path" and (e.get("def") or "").endswith("::None")
        rep.ob(rid, "all_of/merged-object-has-no-index-signature#%d" % (n - 1), is_none,
               "the intersection constructor builds a merged object whose index signature is not `None`: the runtime applies an index signature to the undeclared keys only, so `{name: T} & Record<string, V>` written inline stops requiring `name: V` while the same intersection through aliases still does",
               "%s:%s" % (ao[0].file, x["line"]))
    rep.floor(rid, "objects built by the intersection constructor", n, 1)


def declaration_scope_rule(cx, rep, rid):
    """Type parameters (and mapped-type variables) are kept on ONE stack of the frontend context and looked up by name.
    The body of a NAMED declaration must be read with none of the names of the place that refers to it in scope:
    `type T = number; type Inner = { v: T }; type Wrap<T> = { inner: Inner; w: T }` - reached through `Wrap<string>`
    first, `Inner` was memoised as `{ v: string }` (and so for every later use).  Decided: the function that memoises
    named types (it inserts the in-progress marker into the table of named validators) reaches the extraction of the
    declaration (the functions that PUSH onto the scope stack) only through code that first takes the stack away
    (`mem::take` / `mem::replace`) and puts it back afterwards."""
    F = cx.rs
    from facts import walk as hwalk
    # the scope stack: a field of the frontend context holding (name, Runtype) pairs that is pushed to
    stack_fields = set()
    pushers = set()
    for g, t in F.hir.items():
        f = F.fns.get(g)
        if f is None or "/src/frontend/" not in (f.file or ""):
            continue
        for x in hwalk(t["body"]):
            if x["k"] == "MethodCall" and x["method"] == "push" and x["recv"]["k"] == "Field" and re.search(r"Vec<\(std::string::String, ast::runtype::Runtype\)>", x["recv"].get("ty") or ""):
                stack_fields.add(x["recv"]["name"])
                pushers.add(g.split("::{closure")[0])
    if len(stack_fields) != 1:
        rep.anchor_missing(rid, "the scope stack of the frontend (a Vec<(String, Runtype)> field that is pushed to); found %s" % sorted(stack_fields))
        return
    sf = next(iter(stack_fields))

    def resets(g):
        """the function takes the stack away and assigns it back"""
        t = F.hir.get(g)
        if t is None:
            return False
        took = any(x["k"] == "Call" and (x.get("callee") or "") in ("std::mem::take", "std::mem::replace", "core::mem::take", "core::mem::replace")
                   and any(y["k"] == "Field" and y["name"] == sf for y in hwalk(x)) for x in hwalk(t["body"]))
        back = any(x["k"] == "Assign" and x.get("l", {}).get("k") == "Field" and x["l"]["name"] == sf for x in hwalk(t["body"]))
        return took and back

    def reaches_push(g, depth=0, seen=None):
        seen = seen or set()
        if g in pushers:
            return True
        if depth >= 5 or g in seen or g not in F.hir:
            return False
        seen.add(g)
        f = F.fns[g]
        for x in hwalk(F.hir[g]["body"]):
            if x["k"] in ("Call", "MethodCall"):
                tg = F._callee_gid(f.crate, (x.get("resolved") or x.get("callee") or ""))
                if tg in F.hir and reaches_push(tg, depth + 1, seen):
                    return True
        return False
    # the memoising function: inserts a `None` marker into a map field keyed by the named-type id
    n = 0
    for g, t in sorted(F.hir.items()):
        f = F.fns.get(g)
        if f is None or f.kind == "Closure" or "/src/frontend/" not in (f.file or ""):
            continue
        marks = [x for x in hwalk(t["body"]) if x["k"] == "MethodCall" and x["method"] == "insert" and x["recv"]["k"] == "Field" and len(x["args"]) == 2
                 and x["args"][1]["k"] == "Path" and (x["args"][1].get("def") or "").endswith("::None") and "RuntypeUUID" in (x["recv"].get("ty") or "")]
        if not marks:
            continue
        for x in hwalk(t["body"]):
            if x["k"] not in ("Call", "MethodCall"):
                continue
            tg = F._callee_gid(f.crate, (x.get("resolved") or x.get("callee") or ""))
            if tg not in F.hir or tg == g or "Runtype" not in (F.fns[tg].output or ""):
                continue
            if not reaches_push(tg) and not (resets(tg) and any(reaches_push(F._callee_gid(f.crate, (y.get("resolved") or y.get("callee") or ""))) for y in hwalk(F.hir[tg]["body"]) if y["k"] in ("Call", "MethodCall"))):
                continue
            n += 1
            ok = resets(g) or resets(tg)
            rep.ob(rid, "%s/%s#%d" % (g.rsplit("::", 1)[-1], tg.rsplit("::", 1)[-1], n - 1), ok,
                   "%s memoises named types and extracts the declaration through %s with the scope stack `%s` of the referring place still in force: a name inside the declaration that equals a type parameter (or mapped-type variable) of the place it is first reached from is captured, and the wrong body is memoised for every later use" % (g, tg, sf),
                   "%s:%s" % (f.file, x["line"]), sample={"memo_fn": g, "extractor": tg, "stack": sf})
    rep.floor(rid, "extractions of a named declaration from the memoising function", n, 1)


# ---------------------------------------------------------------------------------------------------- C08.12
def rejecting_visited_set_rule(cx, rep, rid):
    """A set of names `already met` that turns a second meeting into an ERROR is a cycle detector only if it holds
    the names on the CURRENT PATH of the recursion: a name reached twice through two different branches (a diamond:
    `type K1 = Base | 'x'; type K2 = Base | 'y'; K1 | K2`) is not a cycle.  So in a recursion that branches (calls
    itself from a loop or from two places) and shares one set through a `&mut` parameter, an insert whose failure
    leaves the function with an error must be paired with a removal after the descent (or the set is cloned per
    branch).  A set that is only used to SKIP what was done before (memo, work list) is not concerned.  The seeded
    change C08-l added such a guard without the removal: aliases that share a member stopped resolving, and
    `Record<K1 | K2, V>` silently became an index signature - the inlined spelling kept its four required keys."""
    F = cx.rs
    from facts import walk as hwalk
    rep.rule(rid, "a shared visited set whose hit is reported as an error holds the current path only (insert paired with remove in a branching recursion)")
    n = 0
    sccs = None
    for g, tree in sorted(F.hir.items()):
        f = F.fns.get(g)
        if f is None or f.crate == "beff_wasm" or f.kind == "Closure" or "/tests/" in (f.file or ""):
            continue
        plids = {}
        for i, p in enumerate(tree["params"]):
            for q in hwalk(p):
                if q["k"] == "P.Binding" and ("BTreeSet<" in (q.get("ty") or "") or "HashSet<" in (q.get("ty") or "")) and (q.get("ty") or "").startswith("&mut"):
                    plids[q.get("lid")] = i
        if not plids:
            continue
        def set_local(e):
            while isinstance(e, dict) and e.get("k") in ("AddrOf", "Deref", "DropTemps", "Unary") and e.get("op") != "Not":
                e = e["e"]
            return e.get("lid") if isinstance(e, dict) and e.get("k") == "Path" and e.get("lid") in plids else None
        def errors(b):
            for x in hwalk(b):
                if x["k"] == "Ret" and x.get("e") is not None and any(y["k"] == "Call" and (y.get("callee") or "").endswith("::Err") for y in hwalk(x["e"])):
                    return True
                if x["k"] == "Call" and (x.get("callee") or "").endswith("::Err"):
                    return True
                if x["k"] in ("Call", "MethodCall") and x.get("mac") and any(m in ("bail", "anyhow") for m in x.get("mac") or []):
                    return True
            return False
        rejecting = []
        for x in hwalk(tree["body"]):
            if x["k"] != "If":
                continue
            c = x["cond"]
            while c.get("k") == "DropTemps":
                c = c["e"]
            neg = False
            if c.get("k") == "Unary" and c.get("op") == "Not":
                neg, c = True, c["e"]
            if c.get("k") == "MethodCall" and c.get("method") == "insert" and neg and set_local(c["recv"]) is not None and errors(x["then"]):
                rejecting.append((x, set_local(c["recv"])))
            if c.get("k") == "MethodCall" and c.get("method") == "contains" and not neg and set_local(c["recv"]) is not None and errors(x["then"]):
                rejecting.append((x, set_local(c["recv"])))
        if not rejecting:
            continue
        for node, S in rejecting:
            # recursive calls that hand the same set on
            rec_sites = []
            in_loop = False
            def scan(nn, loop):
                nonlocal in_loop
                if nn["k"] in ("Call", "MethodCall"):
                    cal = nn.get("callee") if nn["k"] == "Call" else (nn.get("resolved") or nn.get("callee"))
                    tg = F._callee_gid(f.crate, cal or "")
                    if tg is not None and (tg == g or (tg in F.fns and g in F.edges.get(tg, ()) or tg in F.fns and _reaches(F, tg, g))):
                        args = ([nn["recv"]] if nn["k"] == "MethodCall" else []) + list(nn["args"])
                        if any(set_local(a) == S for a in args):
                            rec_sites.append(nn)
                            if loop:
                                in_loop = True
                for key, v in nn.items():
                    if isinstance(v, dict) and "k" in v:
                        scan(v, loop or nn["k"] == "Loop" or (nn["k"] == "MethodCall" and v.get("k") == "Closure"))
                    elif isinstance(v, list):
                        for y in v:
                            if isinstance(y, dict):
                                if "k" in y:
                                    scan(y, loop or nn["k"] == "Loop" or (nn["k"] == "MethodCall" and y.get("k") == "Closure"))
                                else:
                                    for z in y.values():
                                        if isinstance(z, dict) and "k" in z:
                                            scan(z, loop or nn["k"] == "Loop")
            scan(tree["body"], False)
            if not rec_sites:
                continue
            branching = in_loop or len(rec_sites) >= 2
            if not branching:
                continue
            n += 1
            removed = any(x["k"] == "MethodCall" and x.get("method") in ("remove", "take", "clear", "retain", "pop_last", "pop_first") and set_local(x["recv"]) == S for x in hwalk(tree["body"]))
            rep.ob(rid, "%s/path-set" % g.rsplit("::", 1)[-1], removed,
                   "%s reports a name it meets a second time as an error, shares the set of met names with its recursive calls (%d sites%s) and never removes a name again: a name reached through two different branches (a diamond of aliases) is taken for a cycle, so a program that spells a union through aliases sharing a member is rejected or lowered differently from the inlined spelling" % (
                       g, len(rec_sites), ", one in a loop" if in_loop else ""),
                   "%s:%s" % (f.file, node.get("line")), sample={"fn": g, "recursive_sites_sharing_the_set": len(rec_sites)})
    rep.ob(rid, "scan", True, sample={"rejecting_visited_sets_in_branching_recursions": n})


def _reaches(F, src, dst, _memo={}):
    key = (id(F), src, dst)
    if key in _memo:
        return _memo[key]
    seen, todo, ok = {src}, [src], False
    while todo:
        x = todo.pop()
        if x == dst:
            ok = True
            break
        for h in F.edges.get(x, ()):
            if h not in seen:
                seen.add(h)
                todo.append(h)
    _memo[key] = ok
    return ok


# ---------------------------------------------------------------------------------------------------- C08.13
def per_binding_result_rule(cx, rep, rid):
    """`{ [K in Keys]: F<K> }` is lowered once per key, with K bound to that key on the scope stack.  What is lowered
    under the binding of one key belongs to that key: a type carried from one iteration of the loop into the next
    (a `shared` / `cached` local assigned inside the loop and read inside it) hands the member computed for the FIRST
    key to the others whenever the test that is meant to justify the sharing is wrong (a syntactic `mentions K`
    analysis misses K inside type arguments, inside an alias, behind an indexed access..).  Decided for the frontend:
    in a loop whose body pushes a binding onto the scope stack, no local declared outside the loop that holds a
    Runtype is assigned inside the loop and read inside it other than by an accumulating call (insert / push /
    extend) - each iteration starts from the same state."""
    F = cx.rs
    from facts import walk as hwalk
    rep.rule(rid, "the members of a mapped type are lowered independently: nothing lowered under one key's binding is reused for another key")
    n = 0
    for g, t in sorted(F.hir.items()):
        f = F.fns.get(g)
        if f is None or "/src/frontend" not in (f.file or "") or f.kind == "Closure":
            continue
        outer_lets = {}
        for x in hwalk(t["body"]):
            if x["k"] == "LetStmt" and x["pat"]["k"] == "P.Binding" and "Runtype" in (x["pat"].get("ty") or ""):
                outer_lets[x["pat"].get("lid")] = x
        for lp in hwalk(t["body"]):
            if not (lp["k"] == "Match" and lp.get("src") == "ForLoopDesugar"):
                continue
            pushes = [y for y in hwalk(lp) if y["k"] == "MethodCall" and y.get("method") == "push" and any(z["k"] == "Field" and "stack" in z.get("name", "") for z in hwalk(y["recv"]))]
            if not pushes:
                continue
            n += 1
            inside = {id(y) for y in hwalk(lp)}
            declared_inside = {y["pat"].get("lid") for y in hwalk(lp) if y["k"] == "LetStmt" and y["pat"]["k"] == "P.Binding"}
            carried = []
            for lid, letst in outer_lets.items():
                if lid in declared_inside or id(letst) in inside:
                    continue
                assigned = [y for y in hwalk(lp) if y["k"] == "Assign" and y["l"].get("k") == "Path" and y["l"].get("lid") == lid]
                if not assigned:
                    continue
                reads = []
                for y in hwalk(lp):
                    if y["k"] == "MethodCall" and y.get("method") in ("insert", "push", "extend", "push_back", "append") and any(z["k"] == "Path" and z.get("lid") == lid for z in hwalk(y["recv"])):
                        continue
                    for key, v in y.items():
                        if key == "l" and y["k"] == "Assign":
                            continue
                        if isinstance(v, dict) and v.get("k") == "Path" and v.get("lid") == lid:
                            reads.append(y)
                        elif isinstance(v, list):
                            for z in v:
                                if isinstance(z, dict) and z.get("k") == "Path" and z.get("lid") == lid:
                                    reads.append(y)
                if reads:
                    carried.append(letst["pat"].get("name"))
            rep.ob(rid, "%s/no-type-carried-between-keys" % g.rsplit("::", 1)[-1], not carried,
                   "%s lowers the member of a mapped type under a per-key binding on the scope stack but carries %s from one key's iteration into the next: the member lowered for the first key is handed to the other keys wherever the sharing test is wrong (the key variable inside type arguments, behind an alias..), so `{ [K in 'a' | 'b']: Box<K> }` differs from its spelled-out form" % (g, ", ".join("`%s`" % c for c in carried)),
                   "%s:%s" % (f.file, lp.get("line")), sample={"fn": g, "carried": carried})
    rep.floor(rid, "loops that lower under a per-iteration scope binding", n, 1)
